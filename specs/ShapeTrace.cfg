SPECIFICATION TSpec
CONSTANTS
  Conns = {"c1", "c2", "c3"}
  Configs = {}
  MaxResp = 1000
  MaxPosts = 100000
  HeadLens = {1}
  BodyLens = {}
  RangeStarts = {}
  StaleContext = FALSE
  SwapUnvalidated = FALSE
  CloseLate = FALSE
INVARIANTS NotAccepted DeliveredAllOrCutAtK OnlyMatching CountsSane
CONSTRAINT HW
POSTCONDITION PrintHW
CHECK_DEADLOCK FALSE
