------------------------------ MODULE H2Relay ------------------------------
(***************************************************************************)
(* One direction of martian's HTTP/2 frame relay (h2/relay.go,             *)
(* h2/queued_frames.go): frames read from the source endpoint are turned   *)
(* into queued frames per stream, released to a bounded output channel as  *)
(* far as the destination's flow-control windows allow, and written to the *)
(* destination by a writer goroutine.  Flow control is hop by hop: the     *)
(* relay returns credit to the source for every DATA frame it accepts      *)
(* (sendWindowUpdates, relay.go:493-507) and obeys the windows the         *)
(* destination grants (updateWindow 346-361, updateInitialWindowSize       *)
(* 332-343), which reach it through the opposite relay.                    *)
(*                                                                         *)
(* Frames:  [k, s, es, n, pad, cont, prio, enc]                            *)
(*   k     "H" headers | "D" data | "R" rst | "P" priority | "PP" push     *)
(*   s     stream      es   END_STREAM      n    DATA payload size         *)
(*   pad   padding (DATA; flow-controlled length = n + pad, the pad-length *)
(*         octet is folded into pad)                                       *)
(*   cont  the header block was split over CONTINUATION frames             *)
(*   prio  HEADERS carried priority fields                                 *)
(*   enc   ordinal at which the relay HPACK-encoded the block (0 = not yet)*)
(* Queues: pipe (source -> relay socket), q[s] (per-stream output buffer), *)
(* out (output channel), wire (what the destination has received),         *)
(* gpipe (window grants on their way from the destination to the relay).   *)
(*                                                                         *)
(* Deviations of the original code, each a constant:                       *)
(*   ContForcesES      relay.go:583-585: a header block completed by       *)
(*                     CONTINUATION is forwarded with END_STREAM set       *)
(*   EncodeAtEnqueue   relay.go:400-428: header blocks are HPACK-encoded   *)
(*                     when queued, not when written                       *)
(*   CreditPayloadOnly relay.go:493-507: credit is returned for the DATA   *)
(*                     payload only, not for the padding                   *)
(* Properties C08 (faithful per-stream delivery, HPACK decodability) and   *)
(* C09 (windows obeyed, exact credit, nothing stranded).                   *)
(***************************************************************************)
EXTENDS Integers, Sequences, FiniteSets, SequencesExt, TLC

CONSTANTS Streams, MaxPerStream, DataSizes, Pads, InitWin, ConnInit, Grants, MaxGrant, OutCap,
          SettingsDeltas, Ctls,   \* SETTINGS_INITIAL_WINDOW_SIZE changes and control frames explored (may be {})
          Kinds,       \* frame kinds the source may use besides the opening HEADERS: subset of {"H", "D", "R", "P"}
          ContForcesES, EncodeAtEnqueue, CreditPayloadOnly

VARIABLES sent,        \* [s -> Seq(frame)] what the source wrote per stream
          pipe,        \* frames written by the source, not yet read by the relay
          q,           \* [s -> Seq(frame)] per-stream output buffers
          out,         \* output channel (bounded)
          wire,        \* frames received by the destination, in connection order
          win, connWin,            \* the relay's view of the destination's windows
          granted, grantedConn,    \* credit the destination has granted in total
          gpipe,       \* grants in flight: [s, n]  (s = 0: connection)
          encCtr,      \* header blocks encoded so far
          accepted, acceptedConn,  \* flow-controlled bytes of DATA the relay read from the source
          credit, creditConn,      \* credit returned to the source
          nGrants,
          ctlSent, ctlPipe, ctlWire   \* SETTINGS / PING / GOAWAY: forwarded outside the stream queues
vars == <<sent, pipe, q, out, wire, win, connWin, granted, grantedConn, gpipe, encCtr, accepted, acceptedConn, credit, creditConn, nGrants, ctlSent, ctlPipe, ctlWire>>

Frame(k, s, es, n, pad, cont, prio) == [k |-> k, s |-> s, es |-> es, n |-> n, pad |-> pad, cont |-> cont, prio |-> prio, enc |-> 0]
FC(f) == IF f.k = "D" THEN f.n + f.pad ELSE 0          \* flow-controlled length at the source
OutFC(f) == IF f.k = "D" THEN f.n ELSE 0               \* the relay forwards DATA without padding

Ended(s) == \E i \in DOMAIN sent[s] : sent[s][i].es \/ sent[s][i].k = "R"
Opened(s) == Len(sent[s]) > 0

Init == /\ sent = [s \in Streams |-> <<>>] /\ pipe = <<>> /\ q = [s \in Streams |-> <<>>]
        /\ out = <<>> /\ wire = <<>>
        /\ win = [s \in Streams |-> InitWin] /\ connWin = ConnInit
        /\ granted = [s \in Streams |-> InitWin] /\ grantedConn = ConnInit /\ gpipe = <<>>
        /\ encCtr = 0 /\ nGrants = 0
        /\ accepted = [s \in Streams |-> 0] /\ acceptedConn = 0
        /\ credit = [s \in Streams |-> 0] /\ creditConn = 0
        /\ ctlSent = <<>> /\ ctlPipe = <<>> /\ ctlWire = <<>>

\* ---- the source endpoint writes an RFC-valid next frame on stream s
NextFrames(s) ==
  IF ~Opened(s)
    THEN {Frame("H", s, es, 0, 0, c, p) : es \in BOOLEAN, c \in BOOLEAN, p \in BOOLEAN}
    ELSE {f \in {Frame("H", s, TRUE, 0, 0, c, FALSE) : c \in BOOLEAN}                       \* trailers
                 \cup {Frame("D", s, es, n, pd, FALSE, FALSE) : es \in BOOLEAN, n \in DataSizes, pd \in Pads}
                 \cup {Frame("R", s, FALSE, 0, 0, FALSE, FALSE), Frame("P", s, FALSE, 0, 0, FALSE, FALSE)} : f.k \in Kinds}
SrcSend(s, f) ==
  /\ ~Ended(s) /\ Len(sent[s]) < MaxPerStream /\ f \in NextFrames(s)
  /\ sent' = [sent EXCEPT ![s] = Append(@, f)] /\ pipe' = Append(pipe, f)
  /\ UNCHANGED <<q, out, wire, win, connWin, granted, grantedConn, gpipe, encCtr, accepted, acceptedConn, credit, creditConn, nGrants, ctlSent, ctlPipe, ctlWire>>

\* ---- queued_frames / outputBuffer.emitEligibleFrames (relay.go:546-565): frames of one stream
\* leave its buffer in order while they fit both windows and the channel has room
RECURSIVE Emit(_, _, _, _)
Emit(qs, w, cw, room) ==
  IF qs = <<>> \/ room = 0 \/ OutFC(Head(qs)) > w \/ OutFC(Head(qs)) > cw
  THEN [em |-> <<>>, rest |-> qs, w |-> w, cw |-> cw]
  ELSE LET r == Emit(Tail(qs), w - OutFC(Head(qs)), cw - OutFC(Head(qs)), room - 1)
       IN [r EXCEPT !.em = <<Head(qs)>> \o @]

Room == OutCap - Len(out)

\* ---- the relay reads one frame (processFrame, relay.go:220-307) and queues it
RelayRead ==
  /\ pipe # <<>> /\ Room > 0
  /\ LET f0 == Head(pipe)
         f1 == IF f0.k = "H" /\ f0.cont /\ ContForcesES THEN [f0 EXCEPT !.es = TRUE] ELSE f0
         f  == IF f1.k \in {"H", "PP"} /\ EncodeAtEnqueue THEN [f1 EXCEPT !.enc = encCtr + 1] ELSE f1
         r  == Emit(Append(q[f.s], f), win[f.s], connWin, Room)
         cr == IF CreditPayloadOnly THEN f0.n ELSE FC(f0)
     IN /\ encCtr' = IF f.k \in {"H", "PP"} /\ EncodeAtEnqueue THEN encCtr + 1 ELSE encCtr
        /\ q' = [q EXCEPT ![f.s] = r.rest]
        /\ out' = out \o r.em
        /\ win' = [win EXCEPT ![f.s] = r.w] /\ connWin' = r.cw
        /\ accepted' = [accepted EXCEPT ![f.s] = @ + FC(f0)] /\ acceptedConn' = acceptedConn + FC(f0)
        /\ credit' = [credit EXCEPT ![f.s] = @ + (IF f0.k = "D" THEN cr ELSE 0)]
        /\ creditConn' = creditConn + (IF f0.k = "D" THEN cr ELSE 0)
  /\ pipe' = Tail(pipe)
  /\ UNCHANGED <<sent, wire, granted, grantedConn, gpipe, nGrants, ctlSent, ctlPipe, ctlWire>>

\* ---- the destination grants credit (WINDOW_UPDATE; s = 0 is the connection)
DstGrant(s, n) ==
  /\ nGrants < MaxGrant /\ nGrants' = nGrants + 1
  /\ gpipe' = Append(gpipe, [s |-> s, n |-> n])
  /\ IF s = 0 THEN grantedConn' = grantedConn + n /\ UNCHANGED granted
     ELSE granted' = [granted EXCEPT ![s] = @ + n] /\ UNCHANGED grantedConn
  /\ UNCHANGED <<sent, pipe, q, out, wire, win, connWin, encCtr, accepted, acceptedConn, credit, creditConn, ctlSent, ctlPipe, ctlWire>>

\* ---- the destination changes SETTINGS_INITIAL_WINDOW_SIZE by delta (may be negative): every
\* stream window moves by delta (RFC 7540 6.9.2; updateInitialWindowSize, relay.go:332-343)
DstSettings(delta) ==
  /\ nGrants < MaxGrant /\ nGrants' = nGrants + 1
  /\ gpipe' = Append(gpipe, [s |-> -1, n |-> delta])
  /\ granted' = [s \in Streams |-> granted[s] + delta]
  /\ UNCHANGED <<sent, pipe, q, out, wire, win, connWin, grantedConn, encCtr, accepted, acceptedConn, credit, creditConn, ctlSent, ctlPipe, ctlWire>>

\* ---- SETTINGS, PING and GOAWAY are written to the destination as they are read (relay.go:248-293)
SrcCtl(c) == /\ ctlSent' = Append(ctlSent, c) /\ ctlPipe' = Append(ctlPipe, c)
             /\ UNCHANGED <<sent, pipe, q, out, wire, win, connWin, granted, grantedConn, gpipe, encCtr, accepted, acceptedConn, credit, creditConn, nGrants, ctlWire>>
RelayCtl == /\ ctlPipe # <<>> /\ ctlWire' = Append(ctlWire, Head(ctlPipe)) /\ ctlPipe' = Tail(ctlPipe)
            /\ UNCHANGED <<sent, pipe, q, out, wire, win, connWin, granted, grantedConn, gpipe, encCtr, accepted, acceptedConn, credit, creditConn, nGrants, ctlSent>>

RECURSIVE EmitAll(_, _, _, _, _, _)
EmitAll(order, qq, ww, cw, room, acc) ==
  IF order = <<>> THEN [q |-> qq, w |-> ww, cw |-> cw, em |-> acc]
  ELSE LET s == Head(order)  r == Emit(qq[s], ww[s], cw, room)
       IN EmitAll(Tail(order), [qq EXCEPT ![s] = r.rest], [ww EXCEPT ![s] = r.w], r.cw, room - Len(r.em), acc \o r.em)

Orders == {o \in [1..Cardinality(Streams) -> Streams] : \A a, b \in DOMAIN o : a # b => o[a] # o[b]}

\* ---- the grant reaches the relay (updateWindow, relay.go:346-361): windows grow and every
\* newly eligible frame is released; a connection grant examines all streams (map order)
RelayGrant ==
  /\ gpipe # <<>> /\ Room > 0
  /\ LET g == Head(gpipe) IN
       IF g.s <= 0
       THEN \E order \in Orders :
              LET w0 == IF g.s = 0 THEN win ELSE [s \in Streams |-> win[s] + g.n]
                  r == EmitAll(order, q, w0, IF g.s = 0 THEN connWin + g.n ELSE connWin, Room, <<>>)
              IN /\ q' = r.q /\ win' = r.w /\ connWin' = r.cw /\ out' = out \o r.em
       ELSE LET r == Emit(q[g.s], win[g.s] + g.n, connWin, Room)
            IN /\ q' = [q EXCEPT ![g.s] = r.rest] /\ out' = out \o r.em
               /\ win' = [win EXCEPT ![g.s] = r.w] /\ connWin' = r.cw
  /\ gpipe' = Tail(gpipe)
  /\ UNCHANGED <<sent, pipe, wire, granted, grantedConn, encCtr, accepted, acceptedConn, credit, creditConn, nGrants, ctlSent, ctlPipe, ctlWire>>

\* ---- the writer goroutine (relay.go:164-183) sends the head of the channel; reference: header
\* blocks are HPACK-encoded here, in wire order.  Room appearing in the channel lets waiting
\* frames in (the producers block on the channel in the code; modelled by Refill).
WriterSend ==
  /\ out # <<>>
  /\ LET f0 == Head(out)
         f  == IF f0.k \in {"H", "PP"} /\ ~EncodeAtEnqueue THEN [f0 EXCEPT !.enc = encCtr + 1] ELSE f0
     IN /\ wire' = Append(wire, f)
        /\ encCtr' = IF f0.k \in {"H", "PP"} /\ ~EncodeAtEnqueue THEN encCtr + 1 ELSE encCtr
  /\ out' = Tail(out)
  /\ UNCHANGED <<sent, pipe, q, win, connWin, granted, grantedConn, gpipe, accepted, acceptedConn, credit, creditConn, nGrants, ctlSent, ctlPipe, ctlWire>>

\* a producer that was blocked on the full channel continues
Refill(s) ==
  /\ Room > 0 /\ q[s] # <<>>
  /\ LET r == Emit(q[s], win[s], connWin, Room) IN
       /\ r.em # <<>>
       /\ q' = [q EXCEPT ![s] = r.rest] /\ out' = out \o r.em
       /\ win' = [win EXCEPT ![s] = r.w] /\ connWin' = r.cw
  /\ UNCHANGED <<sent, pipe, wire, granted, grantedConn, gpipe, encCtr, accepted, acceptedConn, credit, creditConn, nGrants, ctlSent, ctlPipe, ctlWire>>

RelayStep == RelayRead \/ RelayGrant \/ WriterSend \/ RelayCtl \/ (\E s \in Streams : Refill(s))
Next == \/ \E s \in Streams : \E f \in NextFrames(s) : SrcSend(s, f)
        \/ RelayStep
        \/ \E s \in Streams \cup {0}, n \in Grants : DstGrant(s, n)
        \/ \E d \in SettingsDeltas : DstSettings(d)
        \/ \E c \in Ctls : Len(ctlSent) < 2 /\ SrcCtl(c)
Spec == Init /\ [][Next]_vars /\ WF_vars(RelayStep)

---------------------------------------------------------------------------
OnStream(seq, s) == SelectSeq(seq, LAMBDA f : f.s = s)
Strip(f) == [k |-> f.k, es |-> f.es, n |-> f.n, prio |-> f.prio]
\* C08: per stream, what arrived is a prefix of what was sent: same kinds in the same order,
\* same DATA sizes, same priority presence, END_STREAM at the same position and nowhere else
PerStreamFaithful ==
  \A s \in Streams : LET w == OnStream(wire, s) IN
     /\ Len(w) <= Len(sent[s])
     /\ \A i \in DOMAIN w : Strip(w[i]) = Strip(sent[s][i])
\* C08: header blocks reach the destination in the order they were HPACK-encoded
HpackOrder ==
  LET hs == SelectSeq(wire, LAMBDA f : f.k \in {"H", "PP"}) IN \A i \in DOMAIN hs : hs[i].enc = i
\* C09: never more flow-controlled bytes than granted, per stream and on the connection
Sum(seq) == FoldSeq(LAMBDA f, acc : acc + OutFC(f), 0, seq)
Spent(s) == Sum(OnStream(wire, s)) + Sum(OnStream(out, s))
SpentConn == Sum(wire) + Sum(out)
NeverExceedsGrant ==
  /\ \A s \in Streams : Spent(s) <= granted[s]
  /\ SpentConn <= grantedConn
\* the same as an action property, which stays meaningful when a SETTINGS change lowers the
\* windows below what is already in flight (RFC 7540 6.9.2 allows a negative window): whenever
\* the relay releases more flow-controlled bytes, the total stays within the credit granted
SpendWithinGrant ==
  [][ /\ \A s \in Streams : Spent(s)' > Spent(s) => Spent(s)' <= granted'[s]
      /\ SpentConn' > SpentConn => SpentConn' <= grantedConn' ]_vars
\* window bookkeeping: what was granted is either still in the window, in flight to the relay, or spent
GSum(s) == FoldSeq(LAMBDA g, acc : acc + (IF g.s = s \/ (g.s = -1 /\ s # 0) THEN g.n ELSE 0), 0, gpipe)
Conservation ==
  /\ \A s \in Streams : win[s] + GSum(s) + Sum(OnStream(wire, s)) + Sum(OnStream(out, s)) = granted[s]
  /\ connWin + GSum(0) + Sum(wire) + Sum(out) = grantedConn
\* C08: SETTINGS, PING and GOAWAY arrive with identical contents, in order
ControlForwarded == IsPrefix(ctlWire, ctlSent)
\* C09: credit returned equals the flow-controlled length of every DATA frame accepted
CreditExact == /\ \A s \in Streams : credit[s] = accepted[s]
               /\ creditConn = acceptedConn
\* C09: whenever the relay is at rest, nothing that fits both windows is left in a buffer
AtRest == pipe = <<>> /\ gpipe = <<>> /\ out = <<>>
NoStrand == AtRest => \A s \in Streams : q[s] # <<>> => (OutFC(Head(q[s])) > win[s] \/ OutFC(Head(q[s])) > connWin)
\* liveness form: a frame that fits is eventually written
Fits(s) == q[s] # <<>> /\ OutFC(Head(q[s])) <= win[s] /\ OutFC(Head(q[s])) <= connWin
EventuallySent == \A s \in Streams : Fits(s) ~> (q[s] = <<>> \/ ~Fits(s) \/ Len(OnStream(wire, s)) > 0)
=============================================================================
