--------------------------- MODULE LoggingTrace ---------------------------
(***************************************************************************)
(* Validates what the harness saw of a logging proxy against Logging.      *)
(* Events of one run (one proxy with one logger configuration):            *)
(*   newrun cfg                                                            *)
(*   begin i req res skip    exchange i starts (attribute records)         *)
(*   origin i framing same   the origin received request i: its framing,   *)
(*                           and whether line, headers, body and trailers  *)
(*                           equal those received without any logger       *)
(*   client i same           the client received response i; same as above *)
(*   har i present hasResp post postOK captured contentOK fieldsOK jsonOK  *)
(*                           the HAR entry of exchange i after the run     *)
(*   marbl i present | text i present                                      *)
(* The loggers' own steps (request and response modifiers) are silent.     *)
(***************************************************************************)
EXTENDS Logging, Json, IOUtils

Trace == ndJsonDeserialize(IOEnv.TRACE)
VARIABLE l
tvars == <<vars, l>>
Ev == Trace[l]
Is(e) == l <= Len(Trace) /\ Trace[l].ev = e
Consume == l' = l + 1

\* the configuration is set by the first newrun event
TraceCfgs == {[har |-> FALSE, harPost |-> "all", harBody |-> "all", marbl |-> FALSE, text |-> FALSE, textHeadersOnly |-> FALSE, textDecode |-> FALSE]}
TInit == Init /\ l = 1 /\ TLCSet(1, 0)
NewRun == /\ Is("newrun") /\ Consume
          /\ cfg' = Ev.cfg /\ ex' = [i \in Ids |-> NoEx] /\ harLog' = <<>> /\ harResp' = {}
          /\ marblIds' = {} /\ textIds' = {} /\ originSaw' = [i \in Ids |-> "-"] /\ clientGot' = {}
TBegin == Is("begin") /\ Consume /\ Begin(Ev.i, Ev.req, Ev.res, Ev.skip)
\* (the framing is reported for the record; what counts is equality with the run without loggers:
\* the proxy itself turns a POST without a length into Content-Length: 0, with or without loggers)
TOrigin == Is("origin") /\ Consume /\ RoundTrip(Ev.i) /\ Ev.same
TClient == Is("client") /\ Consume /\ ClientRecv(Ev.i) /\ Ev.same
Done(i) == ex[i].st = "done"
THar == /\ Is("har") /\ Consume /\ Done(Ev.i) /\ UNCHANGED vars
        /\ Ev.present = InLog(Ev.i)
        /\ Ev.present => /\ Ev.hasResp = (Ev.i \in harResp)
                         /\ Ev.post = PostKind(cfg, ex[Ev.i].req) /\ Ev.postOK
                         /\ Ev.captured = BodyCaptured(cfg, ex[Ev.i].res) /\ Ev.contentOK
                         /\ Ev.fieldsOK /\ Ev.jsonOK
TMarbl == Is("marbl") /\ Consume /\ Done(Ev.i) /\ Ev.present = (Ev.i \in marblIds) /\ UNCHANGED vars
TText == Is("text") /\ Consume /\ Done(Ev.i) /\ Ev.present = (Ev.i \in textIds) /\ UNCHANGED vars
\* a messageview snapshot of a message re-parses to an equal message (evaluated by the harness)
TSnapshot == Is("snapshot") /\ Consume /\ Ev.parses /\ Ev.equal /\ UNCHANGED vars
Silent == (\E i \in Ids : ReqMod(i) \/ ResMod(i)) /\ UNCHANGED l
TNext == NewRun \/ TBegin \/ TOrigin \/ TClient \/ THar \/ TMarbl \/ TText \/ TSnapshot \/ Silent
TSpec == TInit /\ [][TNext]_tvars
NotAccepted == l <= Len(Trace)
HW == IF l > TLCGet(1) THEN TLCSet(1, l) ELSE TRUE
PrintHW == PrintT("HIGHWATER " \o ToString(TLCGet(1)))
=============================================================================
