SPECIFICATION TSpec
CONSTANTS
  MaxUp = 50
  MaxDown = 50
  NoHalfClose = FALSE
INVARIANTS NotAccepted UpFaithful DownFaithful EOFAfterData
CONSTRAINT HW
POSTCONDITION PrintHW
CHECK_DEADLOCK FALSE
