---------------------------- MODULE TunnelTrace ----------------------------
(* Validates recorded runs of a blind CONNECT tunnel against Tunnel.        *)
(* Events: newtunnel; csend k / tsend k (before the bytes are written);     *)
(* trecv k ok / crecv k ok (after the last byte of chunk k was read and     *)
(* compared); cclosew / tclosew (before the half close); teof / ceof (after *)
(* end-of-stream was read); stall (an awaited delivery or end-of-stream did *)
(* not happen within the time limit - never acceptable); end (quiescence).  *)
(* The proxy's steps are silent.                                            *)
EXTENDS Tunnel, Json, IOUtils, TLC

Trace == ndJsonDeserialize(IOEnv.TRACE)
VARIABLE l
tvars == <<vars, l>>
Ev == Trace[l]
Is(e) == l <= Len(Trace) /\ Trace[l].ev = e
Consume == l' = l + 1

TInit == Init /\ l = 1 /\ TLCSet(1, 0)

NewTunnel == /\ Is("newtunnel") /\ Consume
             /\ est' = FALSE /\ upSent' = 0 /\ downSent' = 0
             /\ c2p' = <<>> /\ p2t' = <<>> /\ t2p' = <<>> /\ p2c' = <<>> /\ tGot' = <<>> /\ cGot' = <<>>
             /\ cClosedW' = FALSE /\ tClosedW' = FALSE /\ upDone' = FALSE /\ downDone' = FALSE
             /\ tSawEOF' = FALSE /\ cSawEOF' = FALSE /\ released' = FALSE
TCsend == Is("csend") /\ Consume /\ Ev.k = upSent + 1 /\ ClientSend
TTsend == Is("tsend") /\ Consume /\ Ev.k = downSent + 1 /\ TargetSend
TTrecv == Is("trecv") /\ Consume /\ Ev.ok /\ p2t # <<>> /\ Head(p2t) = Ev.k /\ TargetRecv
TCrecv == Is("crecv") /\ Consume /\ Ev.ok /\ p2c # <<>> /\ Head(p2c) = Ev.k /\ ClientRecv
TCclose == Is("cclosew") /\ Consume /\ ClientCloseW
TTclose == Is("tclosew") /\ Consume /\ TargetCloseW
TTeof == Is("teof") /\ Consume /\ p2t # <<>> /\ Head(p2t) = EOFm /\ TargetRecv
TCeof == Is("ceof") /\ Consume /\ p2c # <<>> /\ Head(p2c) = EOFm /\ ClientRecv
Settled == /\ c2p = <<>> /\ p2t = <<>> /\ t2p = <<>> /\ p2c = <<>>
           /\ cClosedW => tSawEOF
           /\ tClosedW => cSawEOF
TEnd == Is("end") /\ Consume /\ Settled /\ UNCHANGED vars
Silent(A) == A /\ UNCHANGED l

TNext == NewTunnel \/ TCsend \/ TTsend \/ TTrecv \/ TCrecv \/ TCclose \/ TTclose \/ TTeof \/ TCeof \/ TEnd
         \/ Silent(Establish) \/ Silent(CopyUpStep) \/ Silent(CopyUpEOF) \/ Silent(CopyDownStep) \/ Silent(CopyDownEOF) \/ Silent(Release)
TSpec == TInit /\ [][TNext]_tvars
NotAccepted == l <= Len(Trace)
HW == IF l > TLCGet(1) THEN TLCSet(1, l) ELSE TRUE
PrintHW == PrintT("HIGHWATER " \o ToString(TLCGet(1)))
=============================================================================
