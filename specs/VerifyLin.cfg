SPECIFICATION LSpec
CONSTANTS MaxOps = 1000000
INVARIANT NotAccepted
CONSTRAINT HW
POSTCONDITION PrintHW
CHECK_DEADLOCK FALSE
