SPECIFICATION Spec
CONSTANTS
  MaxMsgs = 2
  Lens = {0, 1, 2}
  LoseEmptyAtEnd = FALSE
  MarkerAsMessage = TRUE
INVARIANTS InOrder EndOnce AllAtEnd SinkFaithful Untouched TypeOK
