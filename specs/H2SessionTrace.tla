-------------------------- MODULE H2SessionTrace --------------------------
(***************************************************************************)
(* Validates what the harness saw of live relay sessions against           *)
(* H2Session (reference constants).  Events of one run:                    *)
(*   newrun                         a fresh session                        *)
(*   send d k | stopdraining c | close c | wfail c | bad d | shutdown      *)
(*                                  what the endpoints / the proxy did     *)
(*                                  (logged before it is done)             *)
(*   returned | notreturned         Config.Proxy returned within the       *)
(*                                  bound, or not                          *)
(*   upstream closed                the socket Proxy dialled is closed     *)
(*   callerclose                    the harness closes the client conn, as *)
(*                                  martian's handleLoop does              *)
(*   goroutines n                   goroutines still inside martian/v3/h2  *)
(* The relay's own steps are silent.  "notreturned" is accepted only in a  *)
(* state where no relay step is enabled (the relay cannot know yet), and   *)
(* the goroutine count is compared when the model is at rest.              *)
(***************************************************************************)
EXTENDS H2Session, Json, IOUtils

Trace == ndJsonDeserialize(IOEnv.TRACE)
VARIABLE l
tvars == <<vars, l>>
Ev == Trace[l]
Is(e) == l <= Len(Trace) /\ Trace[l].ev = e
Consume == l' = l + 1

TInit == Init /\ l = 1 /\ TLCSet(1, 0)
NewRun == /\ Is("newrun") /\ Consume
          /\ conn' = [c \in Conns |-> "open"] /\ wfail' = [c \in Conns |-> FALSE] /\ drains' = [c \in Conns |-> TRUE]
          /\ inbox' = [d \in Dirs |-> <<>>]
          /\ F' = [d \in Dirs |-> "reading"] /\ R' = [d \in Dirs |-> "select"] /\ todo' = [d \in Dirs |-> 0] /\ heldq' = [d \in Dirs |-> FALSE]
          /\ W' = [d \in Dirs |-> "idle"]
          /\ werr' = [d \in Dirs |-> FALSE] /\ wsig' = [d \in Dirs |-> FALSE] /\ out' = [d \in Dirs |-> 0]
          /\ closing' = FALSE /\ done' = FALSE /\ returned' = FALSE /\ ended' = "none" /\ nframes' = 0

Quiescent == ~ENABLED RelayStep

TSend == Is("send") /\ Consume /\ EnvSend(Ev.d, Ev.k)
TStopDraining == Is("stopdraining") /\ Consume /\ EnvStopDraining(Ev.c)
TClose == Is("close") /\ Consume /\ EnvClose(Ev.c)
TWfail == Is("wfail") /\ Consume /\ EnvWriteFail(Ev.c)
TBad == Is("bad") /\ Consume /\ EnvBad(Ev.d)
TShutdown == Is("shutdown") /\ Consume /\ EnvShutdown
TReturned == Is("returned") /\ Consume /\ returned /\ UNCHANGED vars
TNotReturned == Is("notreturned") /\ Consume /\ ~returned /\ Quiescent /\ UNCHANGED vars
TUpstream == Is("upstream") /\ Consume /\ (Ev.closed <=> conn["sc"] = "closed") /\ UNCHANGED vars
TCallerClose == Is("callerclose") /\ Consume /\ returned
                /\ IF conn["cc"] # "closed" THEN CallerClose ELSE UNCHANGED vars
TGoroutines == Is("goroutines") /\ Consume /\ Quiescent /\ ((Ev.n = 0) <=> (Blocked = {})) /\ UNCHANGED vars

TNext == \/ NewRun \/ TSend \/ TStopDraining \/ TClose \/ TWfail \/ TBad \/ TShutdown
         \/ TReturned \/ TNotReturned \/ TUpstream \/ TCallerClose \/ TGoroutines
         \/ (RelayStep /\ UNCHANGED l)
TSpec == TInit /\ [][TNext]_tvars
NotAccepted == l <= Len(Trace)
HW == IF l > TLCGet(1) THEN TLCSet(1, l) ELSE TRUE
PrintHW == PrintT("HIGHWATER " \o ToString(TLCGet(1)))
=============================================================================
