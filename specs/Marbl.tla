------------------------------- MODULE Marbl -------------------------------
(***************************************************************************)
(* marbl log streams (marbl/marbl.go, marbl/reader.go).                    *)
(*                                                                         *)
(* Part "log": messages are logged to one stream.  Logging a message sends *)
(* its header frames (marbl.go:165-233); every Read through the logging    *)
(* body wrapper (marbl.go:244-262) sends one data frame with the next      *)
(* index, the bytes that Read returned, and terminal = (Read returned EOF).*)
(* The body's behaviour is a script chosen by the environment: each step   *)
(* is [n, r] with n = abstract number of bytes returned and r the result:  *)
(* "ok", "eof" (EOF, possibly together with the last bytes) or "err".      *)
(* Frames of concurrently logged messages interleave only as whole frames  *)
(* (single writer goroutine, marbl.go:97-109).                             *)
(*                                                                         *)
(* Part "reader": the frame reader (reader.go:84-145) as a decision table  *)
(* over input classes: it returns the frame when the input holds a whole   *)
(* frame of a known type and an error otherwise - never a panic.           *)
(* Property C19.                                                           *)
(***************************************************************************)
EXTENDS Naturals, Sequences, FiniteSets, SequencesExt

CONSTANTS Msgs,        \* message ids logged concurrently
          MaxSteps,    \* read steps per body script
          Sizes,       \* abstract byte counts a Read may return
          NHdr         \* header frames per message (abstract; the harness counts the real ones)

VARIABLES mode,
          script,   \* [m -> Seq([n, r])] what the underlying body will return
          nhdr,     \* [m -> header frames the message has]
          hdrs,     \* [m -> header frames sent]
          step,     \* [m -> reads performed]
          closed,   \* [m -> body closed]
          stream,   \* frames written, in stream order: [m, k, idx, term, n]
          rets,     \* [m -> Seq([n, r])] what Read returned to the consumer
          input, outcome   \* reader part
vars == <<mode, script, nhdr, hdrs, step, closed, stream, rets, input, outcome>>

Results == {"ok", "eof", "err"}
Steps == [n : Sizes, r : Results]
\* a script ends at the first eof or err; an early close may cut it anywhere
Scripts == {s \in UNION {[1..k -> Steps] : k \in 0..MaxSteps} :
              \A i \in DOMAIN s : i < Len(s) => s[i].r = "ok"}

HFrame(m) == [m |-> m, k |-> "hdr", idx |-> 0, term |-> FALSE, n |-> 0]
DFrame(m, i, t, n) == [m |-> m, k |-> "data", idx |-> i, term |-> t, n |-> n]

\* ---- reader input classes
Lens == {"zero", "small", "wrap", "huge"}   \* wrap: two lengths whose 32-bit sum wraps; huge: beyond the input
Avail == {"none", "midprefix", "prefix", "midlens", "lens", "midpayload", "all", "more"}
Inputs == [type : {"hdr", "data", "unknown"}, len : Lens, avail : Avail]

ReaderOutcome(i) ==
  IF i.avail \in {"none", "midprefix"} THEN "error"          \* not even the 10-byte frame prefix
  ELSE IF i.type = "unknown" THEN "error"
  ELSE IF i.avail \in {"prefix", "midlens"} THEN "error"
  ELSE IF i.len \in {"wrap", "huge"} THEN "error"             \* the announced payload is not there
  ELSE IF i.len = "zero" THEN "frame"                         \* nothing more to read
  ELSE IF i.avail \in {"lens", "midpayload"} THEN "error"
  ELSE "frame"

Init == /\ stream = <<>> /\ outcome = "none"
        /\ nhdr = [m \in Msgs |-> NHdr]
        /\ \/ /\ mode = "log" /\ script \in [Msgs -> Scripts]
              /\ hdrs = [m \in Msgs |-> 0] /\ step = [m \in Msgs |-> 0] /\ closed = [m \in Msgs |-> FALSE]
              /\ rets = [m \in Msgs |-> <<>>] /\ input = [type |-> "unknown", len |-> "zero", avail |-> "none"]
           \/ /\ mode = "reader" /\ input \in Inputs
              /\ script = [m \in Msgs |-> <<>>] /\ hdrs = [m \in Msgs |-> 0] /\ step = [m \in Msgs |-> 0]
              /\ closed = [m \in Msgs |-> FALSE] /\ rets = [m \in Msgs |-> <<>>]

SendHeader(m) == /\ mode = "log" /\ hdrs[m] < nhdr[m]
                 /\ hdrs' = [hdrs EXCEPT ![m] = @ + 1]
                 /\ stream' = Append(stream, HFrame(m))
                 /\ UNCHANGED <<mode, script, nhdr, step, closed, rets, input, outcome>>

\* marbl.go:244-262: one data frame per Read, whatever it returned
Read(m) == /\ mode = "log" /\ hdrs[m] = nhdr[m] /\ ~closed[m] /\ step[m] < Len(script[m])
           /\ LET s == script[m][step[m] + 1] IN
                /\ stream' = Append(stream, DFrame(m, step[m], s.r = "eof", s.n))
                /\ rets' = [rets EXCEPT ![m] = Append(@, s)]
           /\ step' = [step EXCEPT ![m] = @ + 1]
           /\ UNCHANGED <<mode, script, nhdr, hdrs, closed, input, outcome>>

Close(m) == /\ mode = "log" /\ hdrs[m] = nhdr[m] /\ ~closed[m]
            /\ closed' = [closed EXCEPT ![m] = TRUE]
            /\ UNCHANGED <<mode, script, nhdr, hdrs, step, stream, rets, input, outcome>>

ReadFrame == /\ mode = "reader" /\ outcome = "none"
             /\ outcome' = ReaderOutcome(input)
             /\ UNCHANGED <<mode, script, nhdr, hdrs, step, closed, stream, rets, input>>

Next == (\E m \in Msgs : SendHeader(m) \/ Read(m) \/ Close(m)) \/ ReadFrame
Spec == Init /\ [][Next]_vars

---------------------------------------------------------------------------
Of(m) == SelectSeq(stream, LAMBDA f : f.m = m)
DataOf(m) == SelectSeq(stream, LAMBDA f : f.m = m /\ f.k = "data")

\* headers first, then data frames with contiguous indices from zero
FramesParseBack == \A m \in Msgs :
   /\ \A i \in DOMAIN Of(m) : (i <= hdrs[m]) <=> (Of(m)[i].k = "hdr")
   /\ \A i \in DOMAIN DataOf(m) : DataOf(m)[i].idx = i - 1
\* the data frames carry exactly what the consumer read
ConcatEqualsRead == \A m \in Msgs :
   /\ Len(DataOf(m)) = Len(rets[m])
   /\ \A i \in DOMAIN DataOf(m) : DataOf(m)[i].n = rets[m][i].n
\* terminal exactly when that read reached end-of-file, and only the last frame can be
TerminalIffEOF == \A m \in Msgs : \A i \in DOMAIN DataOf(m) :
   /\ DataOf(m)[i].term <=> (rets[m][i].r = "eof")
   /\ DataOf(m)[i].term => i = Len(DataOf(m))
\* the wrapper returns what the body returned
WrapperTransparent == \A m \in Msgs : rets[m] = SubSeq(script[m], 1, step[m])
ReaderNeverPanics == mode = "reader" => outcome \in {"none", "frame", "error"}
=============================================================================
