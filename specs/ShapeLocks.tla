----------------------------- MODULE ShapeLocks -----------------------------
(***************************************************************************)
(* The locking protocol of trafficshape.Conn (conn.go) around the shared   *)
(* shape map: two sync.RWMutex, "map" (urlShapes) and "shape" (urlShape).  *)
(* A Go RWMutex prefers writers: once a goroutine waits in Lock(), later   *)
(* RLock() calls block until that writer has had its turn.                 *)
(*   lookup  GetNextActionFromByte: RLock(map), RLock(shape), search,      *)
(*           RUnlock both.  With Recursive = TRUE it takes both read locks *)
(*           a second time in between (it called GetNextActionFromIndex,   *)
(*           which locks for itself) - the code before the repair.         *)
(*   action  Write reaching an action: RLock(map), Lock(shape), count the  *)
(*           action, Unlock(shape), RUnlock(map).                          *)
(*   post    the handler swapping the configuration: Lock(map), Unlock.    *)
(* TLC checks that no reachable state is a deadlock and that every process *)
(* finishes; with Recursive = TRUE it finds the deadlock that the C18      *)
(* check ran into on the real code (two shaped connections of one shape).  *)
(***************************************************************************)
EXTENDS Naturals, FiniteSets, TLC

CONSTANTS Lookups, Actions, Posts, Recursive
Procs == Lookups \cup Actions \cup Posts
Locks == {"map", "shape"}

VARIABLES rd,     \* [Locks -> Nat]: read locks held
          wr,     \* [Locks -> Procs \cup {"none"}]: write lock holder
          wwait,  \* [Locks -> SUBSET Procs]: goroutines waiting in Lock()
          pc      \* [Procs -> Nat]: progress of each process; 99 = finished
vars == <<rd, wr, wwait, pc>>

Init == rd = [l \in Locks |-> 0] /\ wr = [l \in Locks |-> "none"] /\ wwait = [l \in Locks |-> {}] /\ pc = [p \in Procs |-> 0]

RLock(p, l, next) == /\ wr[l] = "none" /\ wwait[l] = {}
                     /\ rd' = [rd EXCEPT ![l] = @ + 1] /\ pc' = [pc EXCEPT ![p] = next] /\ UNCHANGED <<wr, wwait>>
RUnlock(p, l, next) == rd' = [rd EXCEPT ![l] = @ - 1] /\ pc' = [pc EXCEPT ![p] = next] /\ UNCHANGED <<wr, wwait>>
Announce(p, l, next) == wwait' = [wwait EXCEPT ![l] = @ \cup {p}] /\ pc' = [pc EXCEPT ![p] = next] /\ UNCHANGED <<rd, wr>>
Acquire(p, l, next) == /\ p \in wwait[l] /\ rd[l] = 0 /\ wr[l] = "none"
                       /\ wr' = [wr EXCEPT ![l] = p] /\ wwait' = [wwait EXCEPT ![l] = @ \ {p}]
                       /\ pc' = [pc EXCEPT ![p] = next] /\ UNCHANGED rd
WUnlock(p, l, next) == wr' = [wr EXCEPT ![l] = "none"] /\ pc' = [pc EXCEPT ![p] = next] /\ UNCHANGED <<rd, wwait>>

Lookup(p) ==
  \/ pc[p] = 0 /\ RLock(p, "map", 1)
  \/ pc[p] = 1 /\ RLock(p, "shape", IF Recursive THEN 2 ELSE 6)
  \/ pc[p] = 2 /\ RLock(p, "map", 3)          \* GetNextActionFromIndex locks again ...
  \/ pc[p] = 3 /\ RLock(p, "shape", 4)
  \/ pc[p] = 4 /\ RUnlock(p, "shape", 5)
  \/ pc[p] = 5 /\ RUnlock(p, "map", 6)        \* ... and returns
  \/ pc[p] = 6 /\ RUnlock(p, "shape", 7)
  \/ pc[p] = 7 /\ RUnlock(p, "map", 99)
Action(p) ==
  \/ pc[p] = 0 /\ RLock(p, "map", 1)
  \/ pc[p] = 1 /\ Announce(p, "shape", 2)
  \/ pc[p] = 2 /\ Acquire(p, "shape", 3)
  \/ pc[p] = 3 /\ WUnlock(p, "shape", 4)
  \/ pc[p] = 4 /\ RUnlock(p, "map", 99)
Post(p) ==
  \/ pc[p] = 0 /\ Announce(p, "map", 1)
  \/ pc[p] = 1 /\ Acquire(p, "map", 2)
  \/ pc[p] = 2 /\ WUnlock(p, "map", 99)
AllDone == \A p \in Procs : pc[p] = 99
Next == \/ \E p \in Lookups : Lookup(p)
        \/ \E p \in Actions : Action(p)
        \/ \E p \in Posts : Post(p)
        \/ (AllDone /\ UNCHANGED vars)
Spec == Init /\ [][Next]_vars /\ WF_vars(Next)

\* a lock is held for writing by at most one goroutine and never together with readers
Exclusive == \A l \in Locks : wr[l] # "none" => rd[l] = 0
Finishes == <>AllDone
=============================================================================
