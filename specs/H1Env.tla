------------------------------- MODULE H1Env -------------------------------
(***************************************************************************)
(* The environment of Http1Conn on its own: a script is the sequence of    *)
(* choices the environment makes for one client connection - for each      *)
(* request whether it asks to close, whether it is a CONNECT (first only), *)
(* how both modifiers behave, what the origin does, and how many responses *)
(* the client waits for before sending it (0 = pipelined behind the        *)
(* previous one).  Http1Conn's Next makes exactly these choices; here they *)
(* are enumerated without the proxy's own steps so that -simulate reaches  *)
(* long scripts.  Used to drive MITM scenarios (C02, C05).                 *)
(***************************************************************************)
EXTENDS Naturals, Sequences

CONSTANTS MaxReq, Faults, Mods, ConnectFirst

VARIABLES script, done
vars == <<script, done>>

Hj == {"hijack", "hijackerr"}
ReqBehs == IF Mods THEN {"pass", "warn", "skip"} \cup Hj ELSE {"pass"}
ResBehs == IF Mods THEN {"pass", "warn"} \cup Hj ELSE {"pass"}
Origins == IF Faults THEN {"ok", "okclose", "refuse", "reached502", "trunc"} ELSE {"ok", "okclose"}

Init == script = <<>> /\ done = FALSE

Add(cl, rqb, rsb, o, ahead) ==
  /\ ~done /\ Len(script) < MaxReq
  /\ LET first == script = <<>>
         cn == first /\ ConnectFirst
     IN /\ cn => (~cl /\ rqb \in {"pass", "warn"} /\ rsb \in {"pass", "warn"} /\ o = "ok" /\ ahead = 1)
        /\ script' = Append(script, [close |-> cl, connect |-> cn, rqb |-> rqb, rsb |-> rsb, origin |-> o, ahead |-> ahead])
  \* nothing follows a request that ends the connection
  /\ done' = (cl \/ o \in {"okclose", "trunc"} \/ rqb \in Hj \/ rsb \in Hj)

Stop == ~done /\ script # <<>> /\ done' = TRUE /\ UNCHANGED script

Next == (\E cl \in BOOLEAN, rqb \in ReqBehs, rsb \in ResBehs, o \in Origins, ahead \in 0..1 : Add(cl, rqb, rsb, o, ahead)) \/ Stop
Spec == Init /\ [][Next]_vars
=============================================================================
