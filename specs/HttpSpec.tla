------------------------------ MODULE HttpSpec ------------------------------
(***************************************************************************)
(* The spec-compliance modifier stack (httpspec/httpspec.go:29-51) and its *)
(* members: hop-by-hop stripping (header/hopbyhop_modifier.go), Via with   *)
(* loop detection (header/via_modifier.go), X-Forwarded-* (forwarded_      *)
(* modifier.go) and framing checks (framing_modifier.go).                  *)
(*                                                                         *)
(* A header block is a sequence of lines [n |-> name, v |-> tokens].       *)
(* Names are abstract: "conn" Connection; "h1","h2" two of the fixed       *)
(* hop-by-hop headers (the harness rotates which); "a","b" end-to-end      *)
(* headers ("a" may be named in Connection); "via"; "xff" X-Forwarded-For; *)
(* "xfp" one of X-Forwarded-Proto/-Host/-Url; "cl" Content-Length; "te"    *)
(* Transfer-Encoding.  A value is a token list (comma-separated list       *)
(* syntax); the harness renders it with case and spacing variants.         *)
(* Via tokens: "o1","o2" other proxies, "self" this instance, "selfv" this *)
(* instance with another received-protocol version.                        *)
(*                                                                         *)
(* The table is enumerated family by family (strip / via / framing) in the *)
(* exhaustive configuration and as a full product by simulation.           *)
(* Property C14.                                                           *)
(***************************************************************************)
EXTENDS Naturals, Sequences, FiniteSets, SequencesExt

CONSTANTS Full     \* TRUE: initial states are the full product (for -simulate)

VARIABLES stage,   \* number of line groups chosen so far (Full mode); Len(Stages) when complete
          kind,    \* "req" | "res"
          hdr,     \* input header block
          loopRes, \* response only: the request was flagged as a loop
          phase,   \* "in" | "out"
          out      \* [hdr, err, skip, status]
vars == <<stage, kind, hdr, loopRes, phase, out>>

L(n, v) == [n |-> n, v |-> v]

\* ---- building blocks of the enumeration
ConnLines == {<<>>, <<L("conn", <<"close">>)>>, <<L("conn", <<"a">>)>>, <<L("conn", <<"h1", "a">>)>>,
              <<L("conn", <<"close">>), L("conn", <<"a">>)>>, <<L("conn", <<"keep-alive", "via">>)>>,
              <<L("conn", <<"xff">>)>>, <<L("conn", <<>>)>>}
HopLines == {<<>>, <<L("h1", <<"x">>)>>, <<L("h2", <<"y">>)>>, <<L("h1", <<"x">>), L("h2", <<"y">>), L("h1", <<"z">>)>>}
ALines == {<<>>, <<L("a", <<"1">>)>>, <<L("a", <<"1">>), L("a", <<"2, 3">>)>>}
BLines == {<<L("b", <<"keep">>)>>}
ViaTok == {"o1", "o2", "self", "selfv"}
ViaLines == {<<>>} \cup {<<L("via", <<t>>)>> : t \in ViaTok}
            \cup {<<L("via", <<t, u>>)>> : t \in ViaTok, u \in ViaTok}
            \cup {<<L("via", <<t>>), L("via", <<u>>)>> : t \in ViaTok, u \in ViaTok}
XffLines == {<<>>, <<L("xff", <<"c1">>)>>, <<L("xff", <<"c1", "c2">>)>>, <<L("xff", <<"c1">>), L("xff", <<"c2">>)>>}
XfpLines == {<<>>, <<L("xfp", <<"orig">>)>>}
ClLines == {<<>>, <<L("cl", <<"5">>)>>, <<L("cl", <<"5">>), L("cl", <<"5">>)>>, <<L("cl", <<"5">>), L("cl", <<"6">>)>>,
            <<L("cl", <<"5", "5">>)>>, <<L("cl", <<"5", "6">>)>>}
TeLines == {<<>>, <<L("te", <<"chunked">>)>>, <<L("te", <<"gzip", "chunked">>)>>, <<L("te", <<"gzip">>)>>,
            <<L("te", <<"chunked", "gzip">>)>>, <<L("te", <<"gzip">>), L("te", <<"chunked">>)>>}

Blocks ==
            {c \o h \o a \o b \o v : c \in ConnLines, h \in HopLines, a \in ALines, b \in BLines, v \in {<<>>, <<L("via", <<"o1">>)>>}}
       \cup {a \o v \o x \o p \o c : a \in {<<>>, <<L("a", <<"1">>)>>}, v \in ViaLines, x \in XffLines, p \in XfpLines,
                                      c \in {<<>>, <<L("conn", <<"keep-alive", "via">>)>>, <<L("conn", <<"xff">>)>>}}
       \cup {b \o cl \o te \o c : b \in BLines, cl \in ClLines, te \in TeLines, c \in {<<>>, <<L("conn", <<"close">>)>>}}

\* Full product, built line group by line group (explored by simulation)
Stages == <<ConnLines, HopLines, ALines, BLines, ViaLines, XffLines, XfpLines, ClLines, TeLines>>

ResBlocks == {c \o h \o a \o b : c \in ConnLines, h \in HopLines, a \in ALines, b \in BLines}

\* ---- the reference behaviour
Named(h, n) == SelectSeq(h, LAMBDA l : l.n = n)
RECURSIVE Flat(_)
Flat(ls) == IF ls = <<>> THEN <<>> ELSE Head(ls).v \o Flat(Tail(ls))
Toks(h, n) == Flat(Named(h, n))
Without(h, ns) == SelectSeq(h, LAMBDA l : l.n \notin ns)

\* framing_modifier.go:31-72
ClConflict(h) == \E i, j \in DOMAIN Toks(h, "cl") : Toks(h, "cl")[i] # Toks(h, "cl")[j]
TeBad(h) == LET ls == Named(h, "te") IN
              ls # <<>> /\ (LET last == ls[Len(ls)].v IN last = <<>> \/ last[Len(last)] # "chunked")
Framed(h) == IF Named(h, "te") # <<>> THEN Without(h, {"cl"})
             ELSE IF Named(h, "cl") # <<>> THEN Without(h, {"cl"}) \o <<L("cl", <<Toks(h, "cl")[1]>>)>>
             ELSE h

\* hopbyhop_modifier.go:66-80
ConnNamed(h) == {Toks(h, "conn")[i] : i \in DOMAIN Toks(h, "conn")}
Stripped(h) == Without(h, {"conn", "h1", "h2", "te"} \cup ConnNamed(h))

\* forwarded_modifier.go:34-58
Forwarded(h) == LET x == Without(h, {"xff"}) \o <<L("xff", Toks(h, "xff") \o <<"client">>)>>
                IN IF Named(x, "xfp") = <<>> THEN x \o <<L("xfp", <<"set">>)>> ELSE x

\* via_modifier.go:52-72, 91-107
Loop(h) == \E i \in DOMAIN Toks(h, "via") : Toks(h, "via")[i] \in {"self", "selfv"}
Stamped(h) == Without(h, {"via"}) \o <<L("via", Toks(h, "via") \o <<"self">>)>>

Res(h, e, s, st) == [hdr |-> h, err |-> e, skip |-> s, status |-> st]

ProcessRequest ==
  /\ kind = "req" /\ phase = "in" /\ phase' = "out" /\ stage = Len(Stages)
  /\ out' = IF ClConflict(hdr) \/ TeBad(hdr) THEN Res(<<>>, "framing", FALSE, 0)
            ELSE LET h3 == Forwarded(Stripped(Framed(hdr))) IN
                 IF Loop(h3) THEN Res(h3, "loop", TRUE, 400)
                 ELSE Res(Stamped(h3), "none", FALSE, 0)
  /\ UNCHANGED <<stage, kind, hdr, loopRes>>

\* httpspec.go:47-48: response side: Via (loop -> 400), then hop-by-hop
ProcessResponse ==
  /\ kind = "res" /\ phase = "in" /\ phase' = "out"
  /\ out' = IF loopRes THEN Res(<<>>, "loop", FALSE, 400)
            ELSE Res(Stripped(hdr), "none", FALSE, 200)
  /\ UNCHANGED <<stage, kind, hdr, loopRes>>

Init == /\ phase = "in" /\ out = Res(<<>>, "none", FALSE, 0)
        /\ IF Full THEN kind = "req" /\ hdr = <<>> /\ loopRes = FALSE /\ stage = 0
           ELSE /\ stage = Len(Stages)
                /\ \/ kind = "req" /\ hdr \in Blocks /\ loopRes = FALSE
                   \/ kind = "res" /\ hdr \in ResBlocks /\ loopRes \in BOOLEAN

Build == /\ stage < Len(Stages) /\ stage' = stage + 1
         /\ \E ls \in Stages[stage + 1] : hdr' = hdr \o ls
         /\ UNCHANGED <<kind, loopRes, phase, out>>

Next == Build \/ ProcessRequest \/ ProcessResponse
Spec == Init /\ [][Next]_vars

---------------------------------------------------------------------------
Done == phase = "out" /\ out.err = "none"
HopNames == {"conn", "h1", "h2", "te"}
\* (a Via / X-Forwarded-For named in Connection is removed and the proxy then adds its own)
NoHopByHopSurvives == Done => \A i \in DOMAIN out.hdr : out.hdr[i].n \notin HopNames \cup (ConnNamed(hdr) \ {"via", "xff"})
\* end-to-end headers not named in Connection are untouched (same lines, same order)
OthersUntouched == Done => \A n \in {"a", "b"} : n \notin ConnNamed(hdr) => Named(out.hdr, n) = Named(hdr, n)
OneViaAppendedLast == (Done /\ kind = "req") =>
     LET v == Toks(out.hdr, "via") IN
       /\ v # <<>> /\ v[Len(v)] = "self"
       /\ SubSeq(v, 1, Len(v) - 1) = (IF "via" \in ConnNamed(hdr) THEN <<>> ELSE Toks(hdr, "via"))
XffAppends == (Done /\ kind = "req") =>
     LET x == Toks(out.hdr, "xff") IN
       /\ x # <<>> /\ x[Len(x)] = "client"
       /\ SubSeq(x, 1, Len(x) - 1) = (IF "xff" \in ConnNamed(hdr) THEN <<>> ELSE Toks(hdr, "xff"))
LoopNeverUpstream == (phase = "out" /\ kind = "req" /\ out.err # "framing" /\ "via" \notin ConnNamed(hdr)
                      /\ \E i \in DOMAIN Toks(hdr, "via") : Toks(hdr, "via")[i] \in {"self", "selfv"})
                     => out.skip /\ out.status = 400
BadFramingFlagged == (phase = "out" /\ kind = "req" /\ (ClConflict(hdr) \/ TeBad(hdr))) => out.err = "framing"
=============================================================================
