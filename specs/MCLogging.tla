----------------------------- MODULE MCLogging -----------------------------
(* Instances of Logging for TLC: attribute families and configurations.    *)
EXTENDS Logging
Bool == {TRUE, FALSE}
AllReq == [method : {"GET", "POST"}, framing : {"none", "cl0", "cl", "chunked"},
           ct : {"none", "form", "formbad", "multipart", "text", "json", "binary"}, enc : {"identity", "gzip"}, trailers : Bool]
\* ("formbad": declared application/x-www-form-urlencoded, but the body is not a parseable form)
\* attribute combinations that cannot be put on the wire are left out
ReqOK(r) == /\ (r.trailers => r.framing = "chunked")
            /\ (r.framing \in {"none", "cl0"} => r.enc = "identity")
            /\ (r.method = "GET" => r.framing \in {"none", "cl0"})
            /\ (r.ct \in {"form", "formbad", "multipart"} => r.enc = "identity")
FullReq == {r \in AllReq : ReqOK(r)}
AllRes == [framing : {"cl0", "cl", "chunked", "close"}, ct : {"none", "text", "json", "binary"},
           enc : {"identity", "gzip", "deflate", "zlib", "unknown"}, trailers : Bool, redirect : Bool]
\* ("deflate": raw deflate data, "zlib": zlib-wrapped data as RFC 7230 defines the deflate coding; both are labelled deflate)
ResOK(r) == /\ (r.trailers => r.framing = "chunked")
            /\ (r.framing = "cl0" => r.enc = "identity")
FullRes == {r \in AllRes : ResOK(r)}
SmallReq == {r \in FullReq : r.ct \in {"form", "binary"} /\ r.enc = "identity" /\ ~r.trailers}
SmallRes == {r \in FullRes : r.ct = "text" /\ r.enc \in {"identity", "gzip"} /\ r.framing \in {"cl", "chunked"} /\ ~r.trailers /\ ~r.redirect}
AllCfgs == [har : Bool, harPost : {"all", "none", "optin", "optout"}, harBody : {"all", "none", "optin", "optout"},
            marbl : Bool, text : Bool, textHeadersOnly : Bool, textDecode : Bool]
CfgOK(c) == /\ (~c.har => c.harPost = "all" /\ c.harBody = "all")
            /\ (~c.text => ~c.textHeadersOnly /\ ~c.textDecode)
            /\ (c.har \/ c.marbl \/ c.text)
FullCfgs == {c \in AllCfgs : CfgOK(c)}
SmallCfgs == {c \in FullCfgs : c.harPost \in {"all", "optin"} /\ c.harBody \in {"all", "none"} /\ ~c.textDecode}
=============================================================================
