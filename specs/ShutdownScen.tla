---------------------------- MODULE ShutdownScen ----------------------------
(* The scenario space of property C07: for 1..N concurrent connections the  *)
(* progress point each one is parked at when Close() is called, and the     *)
(* order in which the parked exchanges are released afterwards.  Every      *)
(* initial state is one scenario (TLC enumerates them); the Pick action     *)
(* lets -simulate sample them when N makes the space large.                 *)
EXTENDS Naturals, Sequences, FiniteSets

CONSTANTS MaxConns

Points == {"idle", "midhead", "reqmod", "rt", "resmod", "writing"}
Parked == {"reqmod", "rt", "resmod", "writing"}

VARIABLES points, order, late
vars == <<points, order, late>>

Perms(S) == {f \in [1..Cardinality(S) -> S] : \A i, j \in 1..Cardinality(S) : i # j => f[i] # f[j]}

Init == /\ points \in UNION {[1..n -> Points] : n \in 1..MaxConns}
        /\ order \in Perms({c \in DOMAIN points : points[c] \in Parked})
        /\ late \in BOOLEAN      \* a further connection arrives after Close() was called
Next == UNCHANGED vars
Spec == Init /\ [][Next]_vars
=============================================================================
