---------------------------- MODULE CertCacheLin ----------------------------
(* Concurrent handshakes against one MITM configuration, validated against  *)
(* the atomic view of CertCache: every call is linearized at one point      *)
(* between its call and ret events and is either a reuse of the certificate *)
(* then cached for that host (still valid) or the issue of a fresh one.     *)
(* Certificates are identified by small tokens assigned by the harness      *)
(* (first sight of an X.509 serial number); "tick" events are harness       *)
(* sleeps longer than the validity while no call is in flight.              *)
EXTENDS Naturals, Sequences, FiniteSets, TLC, Json, IOUtils

CONSTANTS Validity

Trace == ndJsonDeserialize(IOEnv.TRACE)
Procs == {Trace[k].p : k \in {j \in DOMAIN Trace : Trace[j].ev \in {"call", "ret"}}}
HostsT == {Trace[k].h : k \in {j \in DOMAIN Trace : Trace[j].ev = "call"}}

VARIABLES now, issued, cache, l, pend
\* issued: [id -> [name, at]] as a set of records; cache: [host -> id or 0]
vars == <<now, issued, cache, l, pend>>

None == [h |-> "", id |-> 0, lin |-> FALSE, busy |-> FALSE]
Init == /\ now = 0 /\ issued = {} /\ cache = [h \in HostsT |-> 0] /\ l = 1
        /\ pend = [p \in Procs |-> None] /\ TLCSet(1, 0)

Cert(id) == CHOOSE c \in issued : c.id = id
ValidNow(id) == \E c \in issued : c.id = id /\ now - c.at < Validity

NewRun == /\ l <= Len(Trace) /\ Trace[l].ev = "newrun" /\ \A p \in Procs : ~pend[p].busy
          /\ now' = 0 /\ issued' = {} /\ cache' = [h \in HostsT |-> 0]
          /\ l' = l + 1 /\ UNCHANGED pend
TickEv == /\ l <= Len(Trace) /\ Trace[l].ev = "tick" /\ \A p \in Procs : ~pend[p].busy
          /\ now' = now + 1 /\ l' = l + 1 /\ UNCHANGED <<issued, cache, pend>>
\* the call event already carries the token of the certificate the call will return
Call == /\ l <= Len(Trace) /\ Trace[l].ev = "call" /\ ~pend[Trace[l].p].busy
        /\ pend' = [pend EXCEPT ![Trace[l].p] = [h |-> Trace[l].h, id |-> Trace[l].id, lin |-> FALSE, busy |-> TRUE]]
        /\ l' = l + 1 /\ UNCHANGED <<now, issued, cache>>
Lin(p) == /\ pend[p].busy /\ ~pend[p].lin
          /\ LET h == pend[p].h  id == pend[p].id IN
               \/ /\ \E c \in issued : c.id = id /\ c.name = h /\ now - c.at < Validity
                  /\ UNCHANGED <<issued, cache>>                          \* reuse while valid
               \/ /\ \A c \in issued : c.id # id                        \* fresh certificate
                  /\ issued' = issued \cup {[id |-> id, name |-> h, at |-> now]}
                  /\ cache' = [cache EXCEPT ![h] = id]
          /\ pend' = [pend EXCEPT ![p].lin = TRUE]
          /\ UNCHANGED <<now, l>>
\* ok = the harness verified the chain for the requested host at return time
Ret == /\ l <= Len(Trace) /\ Trace[l].ev = "ret"
       /\ pend[Trace[l].p].busy /\ pend[Trace[l].p].lin /\ Trace[l].ok
       /\ pend' = [pend EXCEPT ![Trace[l].p] = None]
       /\ l' = l + 1 /\ UNCHANGED <<now, issued, cache>>

Next == NewRun \/ TickEv \/ Call \/ Ret \/ \E p \in Procs : Lin(p)
Spec == Init /\ [][Next]_vars
NotAccepted == l <= Len(Trace)
NamesMatch == \A h \in HostsT : cache[h] # 0 => Cert(cache[h]).name = h
HW == IF l > TLCGet(1) THEN TLCSet(1, l) ELSE TRUE
PrintHW == PrintT("HIGHWATER " \o ToString(TLCGet(1)))
=============================================================================
