----------------------------- MODULE Http1Conn -----------------------------
(***************************************************************************)
(* One client connection handled by martian's HTTP/1 proxy loop            *)
(* (proxy.go: handleLoop 232-265, readRequest 267-296, handle 442-585,     *)
(* roundTrip 599-606) between a client and an origin.                      *)
(*                                                                         *)
(* The socket between client and proxy is modelled explicitly (c2p, p2c),  *)
(* which makes pipelining a first-class behaviour: the client may be any   *)
(* number of requests ahead of the responses.  Requests are identified by  *)
(* their position 1..N on the connection.                                  *)
(*                                                                         *)
(* Per-request environment choices (made when the step happens):           *)
(*   rq[i].close   the request asks to close (Connection: close / HTTP/1.0)*)
(*   rqb[i]        request-modifier behaviour: pass | warn | skip | hijack *)
(*                 | hijackerr (hijacks and returns an error as well)      *)
(*   rsb[i]        response-modifier behaviour: pass | warn | hijack |     *)
(*                 hijackerr                                               *)
(*   ores[i]       what the origin does:                                   *)
(*                   ok     a complete response (.close = it asks to close)*)
(*                   refuse dial refused / garbage / closed before a whole *)
(*                          response head was sent  -> proxy answers 502   *)
(*                   trunc  closed after the head, inside the body         *)
(* Proxy-side state:  ps in idle, reqmod, upstream, resmod, decide, write, *)
(* tunnel, closed, hijacked.                                               *)
(* The first request may be a CONNECT (rq[1].connect): it passes through   *)
(* both modifiers like any exchange (proxy.go:298-440); without MITM the   *)
(* proxy dials the target and then relays bytes blindly (state tunnel)     *)
(* until either side ends; with MITM it answers 200 itself and goes on     *)
(* serving requests decrypted from the same connection, in the same        *)
(* session (proxy.go:308-371).                                             *)
(*                                                                         *)
(* Properties C01 (relay one-to-one in order, keep-alive / close rule),    *)
(* C02 (modifier discipline, contexts, hijack), C03 (faults become 502 or  *)
(* detectable truncation + close, never a desync), and the connection part *)
(* of C07 (closing flag).                                                  *)
(***************************************************************************)
EXTENDS Naturals, Sequences, FiniteSets, SequencesExt, TLC

CONSTANTS MaxReq,              \* requests per connection
          Faults,              \* TRUE: origin faults are explored
          Mods,                \* TRUE: modifier behaviours other than pass are explored
          Shutdown,            \* TRUE: the proxy may be asked to shut down at any point
          ConnectMode,         \* "none" | "blind" | "mitm": what a CONNECT as first request leads to
          IgnoreWriteError     \* deviation: proxy.go:570-583 keeps the connection after a
                               \*   response that failed half-way (only ErrForceClose closes)

VARIABLES sent,      \* number of requests the client has written
          rq,        \* [1..sent -> [close]]
          c2p,       \* Seq(id): requests written by the client, not yet read by the proxy
          chalf,     \* client finished sending (half-closed or closed its side)
          ps, cur,   \* proxy state and the request it is working on
          rqb, rsb,  \* modifier behaviours chosen so far: [id -> behaviour]
          ores,      \* [id -> [k, close]] origin behaviour for requests that reached it
          originLog, \* Seq(id): requests the origin received
          mark,      \* the proxy decided to close after the current response
          p2c,       \* Seq of items written by the proxy, not yet read by the client
          crecv,     \* Seq of items the client has read
          ctxLive,   \* set of ids whose request->context link exists (context.go:52-55)
          rqRan, rsRan, \* how many times each modifier ran per id
          closing,   \* proxy.Close() has been called (proxy.go:147)
          hjDone     \* the hijacking modifier returned
vars == <<sent, rq, c2p, chalf, ps, cur, rqb, rsb, ores, originLog, mark, p2c, crecv, ctxLive, rqRan, rsRan, closing, hjDone>>

Ids == 1..MaxReq
\* items on the proxy->client socket
Resp(i, k, cl, w) == [t |-> "resp", id |-> i, k |-> k, close |-> cl, warn |-> w]  \* k: ok | 502 | trunc | skip200
EOFItem == [t |-> "eof", id |-> 0, k |-> "", close |-> FALSE, warn |-> FALSE]

\* the answer to request 1 has reached the client
Answered1 == \E j \in DOMAIN crecv : crecv[j].t = "resp" /\ crecv[j].id = 1

Init == /\ sent = 0 /\ rq = <<>> /\ c2p = <<>> /\ chalf = FALSE
        /\ ps = "idle" /\ cur = 0 /\ rqb = [i \in {} |-> ""] /\ rsb = [i \in {} |-> ""]
        /\ ores = [i \in {} |-> ""] /\ originLog = <<>> /\ mark = FALSE
        /\ p2c = <<>> /\ crecv = <<>> /\ ctxLive = {} /\ rqRan = [i \in Ids |-> 0] /\ rsRan = [i \in Ids |-> 0]
        /\ closing = FALSE /\ hjDone = FALSE

---------------------------------------------------------------------------
\* Client
ClientSend(cl, cn) ==
                  /\ sent < MaxReq /\ ~chalf
                  /\ cn => (ConnectMode # "none" /\ sent = 0 /\ ~cl)
                  /\ (sent > 0 /\ rq[1].connect) => Answered1     \* a client speaks inside the tunnel only once it is established
                  /\ sent' = sent + 1 /\ rq' = Append(rq, [close |-> cl, connect |-> cn])
                  /\ c2p' = Append(c2p, sent + 1)
                  /\ UNCHANGED <<chalf, ps, cur, rqb, rsb, ores, originLog, mark, p2c, crecv, ctxLive, rqRan, rsRan, closing, hjDone>>

ClientFinish == /\ ~chalf /\ chalf' = TRUE
                /\ UNCHANGED <<sent, rq, c2p, ps, cur, rqb, rsb, ores, originLog, mark, p2c, crecv, ctxLive, rqRan, rsRan, closing, hjDone>>

ClientRecv == /\ p2c # <<>> /\ crecv' = Append(crecv, Head(p2c)) /\ p2c' = Tail(p2c)
              /\ UNCHANGED <<sent, rq, c2p, chalf, ps, cur, rqb, rsb, ores, originLog, mark, ctxLive, rqRan, rsRan, closing, hjDone>>

---------------------------------------------------------------------------
\* Proxy
CloseConn == /\ ps' = "closed" /\ cur' = 0 /\ p2c' = Append(p2c, EOFItem)

\* proxy.go:279-293: waits for a request, for EOF, or for the closing channel
ProxyRead == /\ ps = "idle" /\ c2p # <<>>
             /\ cur' = Head(c2p) /\ c2p' = Tail(c2p) /\ ps' = "reqmod"
             /\ ctxLive' = ctxLive \cup {Head(c2p)}                  \* link, proxy.go:458
             /\ UNCHANGED <<sent, rq, chalf, rqb, rsb, ores, originLog, mark, p2c, crecv, rqRan, rsRan, closing, hjDone>>
ProxyReadEOF == /\ ps = "idle" /\ c2p = <<>> /\ chalf /\ CloseConn
                /\ UNCHANGED <<sent, rq, c2p, chalf, rqb, rsb, ores, originLog, mark, crecv, ctxLive, rqRan, rsRan, closing, hjDone>>
ProxyReadClosing == /\ ps = "idle" /\ closing /\ CloseConn
                    /\ UNCHANGED <<sent, rq, c2p, chalf, rqb, rsb, ores, originLog, mark, crecv, ctxLive, rqRan, rsRan, closing, hjDone>>

Hj == {"hijack", "hijackerr"}     \* hijackerr: the modifier hijacks the session and also returns an error
ReqBehs == IF Mods THEN {"pass", "warn", "skip"} \cup Hj ELSE {"pass"}
ResBehs == IF Mods THEN {"pass", "warn"} \cup Hj ELSE {"pass"}

\* proxy.go:494-501
ReqMod(b) == /\ ps = "reqmod" /\ b \in ReqBehs
             /\ rqb' = cur :> b @@ rqb /\ rqRan' = [rqRan EXCEPT ![cur] = @ + 1]
             /\ ps' = CASE b \in Hj -> "hijacked"
                        [] b = "skip" /\ ~rq[cur].connect -> "resmod"
                        [] rq[cur].connect -> "dial"
                        [] OTHER -> "upstream"
             /\ ores' = IF b = "skip" /\ ~rq[cur].connect THEN cur :> [k |-> "skip200", close |-> FALSE] @@ ores ELSE ores
             /\ ctxLive' = IF b \in Hj THEN ctxLive \ {cur, 1} ELSE ctxLive   \* handle returns: deferred unlink
             /\ UNCHANGED <<sent, rq, c2p, chalf, cur, rsb, originLog, mark, p2c, crecv, rsRan, closing, hjDone>>

OriginKinds == IF Faults THEN {"ok", "refuse", "trunc"} ELSE {"ok"}
\* proxy.go:503-509: the round trip; a failure before a whole response head becomes a 502
RoundTrip(k, cl) == /\ ps = "upstream" /\ k \in OriginKinds /\ (k # "ok" => ~cl)
                    /\ ores' = cur :> [k |-> IF k = "refuse" THEN "502" ELSE k, close |-> cl] @@ ores
                    /\ originLog' = IF k = "refuse" THEN originLog ELSE Append(originLog, cur)
                    /\ ps' = "resmod"
                    /\ UNCHANGED <<sent, rq, c2p, chalf, cur, rqb, rsb, mark, p2c, crecv, ctxLive, rqRan, rsRan, closing, hjDone>>
\* a refused dial may or may not have reached the origin (garbage / early close did)
RoundTripReached == /\ ps = "upstream" /\ Faults
                    /\ ores' = cur :> [k |-> "502", close |-> FALSE] @@ ores
                    /\ originLog' = Append(originLog, cur) /\ ps' = "resmod"
                    /\ UNCHANGED <<sent, rq, c2p, chalf, cur, rqb, rsb, mark, p2c, crecv, ctxLive, rqRan, rsRan, closing, hjDone>>

\* proxy.go:308-311 (MITM: the proxy answers 200 itself) and 373-398 (blind: dial the target)
ConnectDial(ok) == /\ ps = "dial" /\ (ConnectMode = "mitm" => ok)
                   /\ ores' = cur :> [k |-> IF ok THEN "connect200" ELSE "502", close |-> FALSE] @@ ores
                   /\ ps' = "resmod"
                   /\ UNCHANGED <<sent, rq, c2p, chalf, cur, rqb, rsb, originLog, mark, p2c, crecv, ctxLive, rqRan, rsRan, closing, hjDone>>
\* proxy.go:421-440: the blind tunnel ends when both copy directions are done
TunnelEnd == /\ ps = "tunnel" /\ CloseConn
             /\ UNCHANGED <<sent, rq, c2p, chalf, rqb, rsb, ores, originLog, mark, crecv, ctxLive, rqRan, rsRan, closing, hjDone>>

\* proxy.go:515-522
ResMod(b) == /\ ps = "resmod" /\ b \in ResBehs
             /\ rsb' = cur :> b @@ rsb /\ rsRan' = [rsRan EXCEPT ![cur] = @ + 1]
             /\ ps' = IF b \in Hj THEN "hijacked" ELSE "decide"
             /\ ctxLive' = IF b \in Hj THEN ctxLive \ {cur, 1} ELSE ctxLive
             /\ UNCHANGED <<sent, rq, c2p, chalf, cur, rqb, ores, originLog, mark, p2c, crecv, rqRan, closing, hjDone>>

\* proxy.go:524-529
Decide == /\ ps = "decide"
          /\ mark' = (~rq[cur].connect /\ (rq[cur].close \/ ores[cur].close \/ closing))
          /\ ps' = "write"
          /\ UNCHANGED <<sent, rq, c2p, chalf, cur, rqb, rsb, ores, originLog, p2c, crecv, ctxLive, rqRan, rsRan, closing, hjDone>>

Warned(i) == (i \in DOMAIN rqb /\ rqb[i] = "warn") \/ (i \in DOMAIN rsb /\ rsb[i] = "warn")
\* proxy.go:570-585 then the loop 256-264.  A response that breaks off inside its body cannot
\* be followed by anything on the same connection.
Write == /\ ps = "write"
         /\ LET item == Resp(cur, ores[cur].k, mark, cur \in DOMAIN rsb /\ rsb[cur] = "warn")
                mustClose == mark \/ (ores[cur].k = "trunc" /\ ~IgnoreWriteError)
            IN IF mustClose
               THEN /\ p2c' = p2c \o <<item, EOFItem>> /\ ps' = "closed" /\ cur' = 0
               ELSE /\ p2c' = Append(p2c, item) /\ cur' = 0
                    /\ ps' = IF ores[cur].k = "connect200" /\ ConnectMode = "blind" THEN "tunnel" ELSE "idle"
         \* deferred unlink, proxy.go:459.  With MITM the CONNECT exchange is still on the stack
         \* while the first decrypted request is served (recursive handle, proxy.go:364): its link
         \* is dropped together with that request's.
         /\ ctxLive' = IF ores[cur].k = "connect200" /\ ConnectMode = "mitm" THEN ctxLive ELSE ctxLive \ {cur, 1}
         /\ mark' = FALSE
         /\ UNCHANGED <<sent, rq, c2p, chalf, rqb, rsb, ores, originLog, crecv, rqRan, rsRan, closing, hjDone>>

\* after a hijack the proxy leaves the connection alone and closes it once the modifier is done
HijackerDone == /\ ps = "hijacked" /\ ~hjDone /\ hjDone' = TRUE
                /\ CloseConn
                /\ UNCHANGED <<sent, rq, c2p, chalf, rqb, rsb, ores, originLog, mark, crecv, ctxLive, rqRan, rsRan, closing>>

CloseCalled == /\ Shutdown /\ ~closing /\ closing' = TRUE
               /\ UNCHANGED <<sent, rq, c2p, chalf, ps, cur, rqb, rsb, ores, originLog, mark, p2c, crecv, ctxLive, rqRan, rsRan, hjDone>>

ProxyStep == ProxyRead \/ ProxyReadEOF \/ ProxyReadClosing \/ (\E ok \in BOOLEAN : ConnectDial(ok)) \/ TunnelEnd
             \/ (\E b \in ReqBehs : ReqMod(b))
             \/ (\E k \in OriginKinds, cl \in BOOLEAN : RoundTrip(k, cl)) \/ RoundTripReached
             \/ (\E b \in ResBehs : ResMod(b))
             \/ Decide \/ Write \/ HijackerDone
Next == (\E cl, cn \in BOOLEAN : ClientSend(cl, cn)) \/ ClientFinish \/ ClientRecv \/ ProxyStep \/ CloseCalled
Spec == Init /\ [][Next]_vars /\ WF_vars(ProxyStep) /\ WF_vars(ClientRecv)

---------------------------------------------------------------------------
\* what the client will have seen in the end
Wire == crecv \o p2c
Resps == SelectSeq(Wire, LAMBDA x : x.t = "resp")

\* C01: exactly one response per request, in request order
OneToOneInOrder == \A j \in DOMAIN Resps : Resps[j].id = j
\* the origin sees each forwarded request once, in order
OriginInOrder == \A a, b \in DOMAIN originLog : a < b => originLog[a] < originLog[b]
\* C01/C07: once either side (or shutdown) asked to close, the response says so, it is the last
\* one, and the connection is closed right after it
CloseAfter == \A j \in DOMAIN Wire :
                 (Wire[j].t = "resp" /\ Wire[j].close) => (j < Len(Wire) /\ Wire[j + 1].t = "eof")
NothingAfterEOF == \A j \in DOMAIN Wire : Wire[j].t = "eof" => j = Len(Wire)
CloseHonoured == \A j \in DOMAIN Resps :
                 (~rq[Resps[j].id].connect /\ (rq[Resps[j].id].close \/ ores[Resps[j].id].close)) => Resps[j].close
\* C03: bytes of a later response never follow a response that broke off
NoDesync == \A j \in DOMAIN Wire :
                 (Wire[j].t = "resp" /\ Wire[j].k = "trunc") => (j < Len(Wire) /\ Wire[j + 1].t = "eof")
\* C02: each modifier runs at most once per exchange, the request modifier before any upstream
\* contact, the response modifier only after it
ModsOnce == \A i \in Ids : rqRan[i] <= 1 /\ rsRan[i] <= 1
ReqModBeforeUpstream == \A j \in DOMAIN originLog : rqRan[originLog[j]] = 1
SkipMeansNoContact == \A i \in DOMAIN rqb : rqb[i] = "skip" =>
                         (\A j \in DOMAIN originLog : originLog[j] # i)
WarnSurfaces == \A j \in DOMAIN Resps : Resps[j].warn <=>
                         (Resps[j].id \in DOMAIN rsb /\ rsb[Resps[j].id] = "warn")
\* C02: no context survives its exchange
NoCtxAtRest == ps \in {"idle", "closed"} =>
                 (ctxLive = {} \/ (ctxLive = {1} /\ ConnectMode = "mitm" /\ rq[1].connect /\ sent >= 1 /\ Len(Resps) <= 1))
\* C02: after a hijack the proxy writes nothing but the close
NoTouchAfterHijack == ps = "hijacked" => \A j \in DOMAIN Wire : Wire[j].t = "resp" => Wire[j].id < cur
\* liveness: a request that was sent on a connection nobody asked to close gets its response
Answered(i) == \E j \in DOMAIN crecv : crecv[j].t = "resp" /\ crecv[j].id = i
KeepAlive == \A i \in Ids : (i <= sent) ~> (Answered(i) \/ ps \in {"closed", "hijacked"} \/ Len(SelectSeq(crecv, LAMBDA x : x.t = "eof")) > 0)
=============================================================================
