---------------------------- MODULE HarLogLin ----------------------------
(***************************************************************************)
(* Linearizability of the HAR log, decided by TLC as a witness search.     *)
(* The trace holds call/ret events of concurrent goroutines (logged with   *)
(* one atomic sequence counter: call before the method is entered, ret     *)
(* after it returned).  The effect of each call is the HarLog action,      *)
(* taken as a silent step Lin(p) anywhere between call and ret.            *)
(* "newrun" events separate independent runs batched in one file.          *)
(***************************************************************************)
EXTENDS HarLog, Json, IOUtils, TLC

Trace == ndJsonDeserialize(IOEnv.TRACE)
Procs == {Trace[k].p : k \in {j \in DOMAIN Trace : Trace[j].ev # "newrun"}}

VARIABLES l, pend
lvars == <<vars, l, pend>>

None == [op |-> "none", lin |-> FALSE]

LInit == /\ Init /\ l = 1 /\ pend = [p \in Procs |-> None] /\ TLCSet(1, 0)

Call == /\ l <= Len(Trace) /\ Trace[l].ev = "call"
        /\ pend[Trace[l].p].op = "none"
        /\ pend' = [pend EXCEPT ![Trace[l].p] =
                      [op |-> Trace[l].op, id |-> Trace[l].id, n |-> Trace[l].n, r |-> Trace[l].r,
                       lin |-> FALSE, res |-> last]]
        /\ l' = l + 1 /\ UNCHANGED vars

Lin(p) == /\ pend[p].op # "none" /\ ~pend[p].lin
          /\ LET q == pend[p] IN
               CASE q.op = "req"    -> Tick /\ RecordRequestN(q.id, q.n)
                 [] q.op = "res"    -> RecordResponse(q.id, q.r)
                 [] q.op = "export" -> Export
                 [] q.op = "xr"     -> ExportAndReset
                 [] q.op = "reset"  -> Reset
          /\ pend' = [pend EXCEPT ![p].lin = TRUE, ![p].res = last']
          /\ UNCHANGED l

Ret == /\ l <= Len(Trace) /\ Trace[l].ev = "ret"
       /\ LET q == pend[Trace[l].p] IN
            /\ q.op # "none" /\ q.lin
            /\ q.res.ok = Trace[l].ok
            /\ q.res.out = Trace[l].out
       /\ pend' = [pend EXCEPT ![Trace[l].p] = None]
       /\ l' = l + 1 /\ UNCHANGED vars

NewRun == /\ l <= Len(Trace) /\ Trace[l].ev = "newrun"
          /\ \A p \in Procs : pend[p].op = "none"
          /\ log' = <<>> /\ serial' = 0 /\ nops' = 0 /\ returned' = {}
          /\ last' = Res("init", TRUE, <<>>)
          /\ l' = l + 1 /\ UNCHANGED pend

LNext == Call \/ Ret \/ NewRun \/ \E p \in Procs : Lin(p)
LSpec == LInit /\ [][LNext]_lvars

NotAccepted == l <= Len(Trace)
HW == IF l > TLCGet(1) THEN TLCSet(1, l) ELSE TRUE
PrintHW == PrintT("HIGHWATER " \o ToString(TLCGet(1)))
=============================================================================
