---------------------------- MODULE GrpcFraming ----------------------------
(***************************************************************************)
(* gRPC reframing in martian's HTTP/2 relay (h2/grpc/grpc.go).             *)
(*                                                                         *)
(* A gRPC stream is a byte stream of length-prefixed messages:             *)
(*   message i  =  5 prefix bytes (flag, 4-byte length)  ++  msgs[i] units *)
(* HTTP/2 cuts that byte stream into DATA frames at arbitrary points.  The *)
(* adapter (grpc.go:174-251) reassembles messages and calls                *)
(* Processor.Message once per message; a pass-through processor forwards   *)
(* each call to the emitter (grpc.go:285-324) which writes one DATA frame  *)
(* per message to the sink.                                                *)
(*                                                                         *)
(* Abstraction: the stream is a sequence of tokens; the 5 prefix bytes are *)
(* one token each, a payload of abstract length n is n tokens (the harness *)
(* concretises a payload token as a block of 1..10^4 bytes, so cuts inside *)
(* prefixes are byte-exact and cuts inside payloads are block-exact).      *)
(* pos = tokens handed to the adapter so far.  Every cut set of the stream *)
(* is a behaviour: Frame(k, es) hands over the next k tokens.              *)
(*                                                                         *)
(* Property C11.                                                           *)
(***************************************************************************)
EXTENDS Naturals, Sequences, FiniteSets, SequencesExt

CONSTANTS MaxMsgs,            \* messages per stream (0..MaxMsgs)
          Lens,               \* abstract payload lengths
          LoseEmptyAtEnd,     \* deviation: grpc.go:245 exits the loop before a zero-length
                              \*   message whose prefix ends the final frame is delivered
          MarkerAsMessage     \* deviation: grpc.go:184 + emitter turn a bare END_STREAM
                              \*   into an extra zero-length message on the wire

VARIABLES msgs,       \* Seq(Lens): payload length of each message
          grpc,       \* the stream was recognised as gRPC (content-type header)
          pos,        \* tokens handed to the adapter
          ended,      \* END_STREAM handed to the adapter
          nd,         \* messages delivered to the processor
          delivered,  \* Seq([m, es]): Message calls; m = 0 is the bare end-of-stream marker
          sunk        \* Seq([m, es]): DATA frames reaching the sink (gRPC: one per call;
                      \*               not gRPC: only the last frame, m is its raw size)

vars == <<msgs, grpc, pos, ended, nd, delivered, sunk>>

RECURSIVE End(_, _)
End(ms, i) == IF i = 0 THEN 0 ELSE End(ms, i - 1) + 5 + ms[i]
Total == End(msgs, Len(msgs))

\* number of messages wholly contained in the first p tokens
Complete(p) == CHOOSE c \in 0..Len(msgs) :
                 /\ End(msgs, c) <= p
                 /\ (c < Len(msgs) => End(msgs, c + 1) > p)

MsgLists == UNION {[1..n -> Lens] : n \in 0..MaxMsgs}

Init == /\ msgs \in MsgLists /\ grpc \in BOOLEAN
        /\ pos = 0 /\ ended = FALSE /\ nd = 0 /\ delivered = <<>> /\ sunk = <<>>

Call(m, es) == [m |-> m, es |-> es]

\* Message calls made while processing one DATA frame that brings the adapter from
\* nd delivered messages to n2, es = the frame carries END_STREAM.
Calls(n2, es) ==
  LET new == [j \in 1..(n2 - nd) |-> Call(nd + j, es /\ nd + j = n2)]
  IN IF es /\ n2 = nd THEN <<Call(0, TRUE)>> ELSE new

\* What the emitter writes for a call.
Emit(c) == IF c.m = 0 /\ MarkerAsMessage THEN Call(Len(msgs) + 1, c.es) ELSE c

Frame(k, es) ==
  /\ ~ended
  /\ k \in 0..(Total - pos)
  /\ es => pos + k = Total          \* END_STREAM only after the whole byte stream
  /\ (k = 0 /\ ~es) => (grpc /\ nd < Complete(pos))   \* empty frame: only to flush a deferred message
  /\ pos' = pos + k /\ ended' = es
  /\ IF ~grpc
       THEN /\ sunk' = <<Call(k, es)>>               \* untouched: same cut, same flag (last frame only)
            /\ UNCHANGED <<nd, delivered>>
       ELSE LET c == Complete(pos + k)
                \* a zero-length message whose prefix ends exactly at the frame end may be
                \* handed over with the next frame instead (grpc.go:245) - but never lost
                emptyAtEnd == c > nd /\ msgs[c] = 0 /\ End(msgs, c) = pos + k
                choices == IF emptyAtEnd /\ ~es THEN {c - 1, c}
                           ELSE IF emptyAtEnd /\ es /\ LoseEmptyAtEnd THEN {c - 1}
                           ELSE {c}
            IN \E n2 \in choices :
                 LET calls == IF es /\ LoseEmptyAtEnd /\ emptyAtEnd
                              THEN [j \in 1..(n2 - nd) |-> Call(nd + j, FALSE)]
                              ELSE Calls(n2, es)
                 IN /\ nd' = n2
                    /\ delivered' = delivered \o calls
                    /\ sunk' = sunk \o [j \in DOMAIN calls |-> Emit(calls[j])]
  /\ UNCHANGED <<msgs, grpc>>

Next == \E k \in 0..(MaxMsgs * 8), es \in BOOLEAN : Frame(k, es)

Spec == Init /\ [][Next]_vars

---------------------------------------------------------------------------
Real(s) == SelectSeq(s, LAMBDA c : c.m # 0)
Ms(s) == [j \in DOMAIN Real(s) |-> Real(s)[j].m]

\* The processor is shown the messages in order, none skipped or repeated.
InOrder == grpc => Ms(delivered) = [j \in 1..nd |-> j]

\* End-of-stream is signalled at most once, and on the last call.
EndOnce == \A j \in DOMAIN delivered : delivered[j].es => j = Len(delivered)

\* Once the stream has ended every message has been shown and the end signalled.
AllAtEnd == (grpc /\ ended) => /\ nd = Len(msgs)
                               /\ delivered # <<>> /\ delivered[Len(delivered)].es

\* The destination receives exactly the messages, no phantom one, same end-of-stream.
SinkFaithful == grpc => /\ Ms(sunk) = Ms(delivered)
                        /\ \A j \in DOMAIN sunk : sunk[j].es = delivered[j].es

\* A stream that is not gRPC passes through untouched.
Untouched == ~grpc => /\ delivered = <<>>
                      /\ \A j \in DOMAIN sunk : sunk[j].m <= pos /\ sunk[j].es = ended

TypeOK == pos \in 0..Total /\ nd \in 0..Len(msgs)
=============================================================================
