--------------------------- MODULE ShutdownTrace ---------------------------
(* Validates recorded shutdown scenarios against Shutdown.                  *)
(* Events: newrun; connect c; csend c (a complete request was written);     *)
(* reqmod c (the request modifier was entered); rt c (the origin got the    *)
(* request); resmod c / resmodret c (the response modifier was entered / is *)
(* about to return); crecv c t close                                        *)
(* (the client parsed a complete response / saw end-of-stream);             *)
(* closecalled; closereturned; stall (something awaited did not happen in   *)
(* time - never acceptable); end.  Everything else the proxy does is silent.*)
EXTENDS Shutdown, Json, IOUtils

Trace == ndJsonDeserialize(IOEnv.TRACE)
VARIABLE l
tvars == <<vars, l>>
Ev == Trace[l]
Is(e) == l <= Len(Trace) /\ Trace[l].ev = e
Consume == l' = l + 1

TInit == Init /\ l = 1 /\ TLCSet(1, 0)

NewRun == /\ Is("newrun") /\ Consume
          /\ closing' = FALSE /\ mu' = Free /\ wg' = 0 /\ serve' = [pc |-> "check", c |-> 0]
          /\ h' = [c \in Conns |-> "none"] /\ closer' = "idle"
          /\ connected' = {} /\ accepted' = {} /\ closed' = {} /\ registered' = {}
          /\ avail' = [c \in Conns |-> 0] /\ started' = [c \in Conns |-> 0] /\ answered' = [c \in Conns |-> 0]
          /\ decidedAfterClose' = [c \in Conns |-> FALSE] /\ out' = [c \in Conns |-> <<>>] /\ lateReqMod' = FALSE

TConnect == Is("connect") /\ Consume /\ Connect(Ev.c)
TCsend == Is("csend") /\ Consume /\ ClientSend(Ev.c)
TReqMod == Is("reqmod") /\ Consume /\ HReadReq(Ev.c)
TRt == Is("rt") /\ Consume /\ Step(Ev.c, "reqmod", "rt")
TResMod == Is("resmod") /\ Consume /\ Step(Ev.c, "rt", "resmod")
\* the response modifier is about to return: only now can the close decision be taken
TResModRet == Is("resmodret") /\ Consume /\ Step(Ev.c, "resmod", "decide")
TCrecv == /\ Is("crecv") /\ Consume /\ out[Ev.c] # <<>>
          /\ Head(out[Ev.c]).t = Ev.t /\ (Ev.t = "resp" => Head(out[Ev.c]).close = Ev.close)
          /\ ClientRecv(Ev.c)
\* (verif hook) the handler goroutine of connection c has started but not yet registered
THandlerStarted == Is("handlerstarted") /\ Consume /\ h[Ev.c] = "add" /\ UNCHANGED vars
\* (verif hook) ... and is only now let go: it cannot have registered before
THandlerReleased == Is("handlerreleased") /\ Consume /\ h[Ev.c] = "add" /\ UNCHANGED vars
TCloseCalled == Is("closecalled") /\ Consume /\ CloseCall
TCloseReturned == Is("closereturned") /\ Consume /\ CloseWait
Settled == /\ \A c \in Conns : out[c] = <<>>
           /\ closer \in {"idle", "returned"}
           /\ closer = "returned" => \A c \in connected : c \in closed
TEnd == Is("end") /\ Consume /\ Settled /\ UNCHANGED vars
Silent(A) == A /\ UNCHANGED l

TNext == \/ NewRun \/ TConnect \/ TCsend \/ TReqMod \/ TRt \/ TResMod \/ TResModRet \/ THandlerStarted \/ THandlerReleased \/ TCrecv \/ TCloseCalled \/ TCloseReturned \/ TEnd
         \/ Silent(ServeCheck) \/ Silent(ServeSpawn) \/ Silent(CloseLock)
         \/ \E c \in Conns : \/ Silent(ServeAccept(c)) \/ Silent(ListenerDrops(c)) \/ Silent(HAdd(c)) \/ Silent(HChk(c))
                             \/ Silent(HReadClosing(c)) \/ Silent(HDecide(c)) \/ Silent(HWrite(c))
TSpec == TInit /\ [][TNext]_tvars
NotAccepted == l <= Len(Trace)
HW == IF l > TLCGet(1) THEN TLCSet(1, l) ELSE TRUE
PrintHW == PrintT("HIGHWATER " \o ToString(TLCGet(1)))
=============================================================================
