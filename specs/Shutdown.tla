------------------------------ MODULE Shutdown ------------------------------
(***************************************************************************)
(* Graceful shutdown of the proxy (proxy.go: Close 144-154, Closing        *)
(* 157-164, Serve 185-230, handleLoop 232-265, readRequest 267-296, the    *)
(* close decision in handle 524-529).                                      *)
(*                                                                         *)
(* Processes: the Serve loop, one handler per accepted connection, the     *)
(* caller of Close.  Each handler pc follows the code:                     *)
(*   none -> add (conns.Add under connsMu) -> chk (Closing?) -> read       *)
(*   read: select { request | closing }                                    *)
(*   reqmod -> rt -> resmod -> decide (res.Close |= Closing) -> write ->   *)
(*   read ... ; exit = conn.Close + conns.Done                             *)
(* What the client of connection c gets is the queue out[c]: responses     *)
(* (with their close mark) and finally "eof".                              *)
(* The environment (clients sending requests, the order in which parked    *)
(* exchanges proceed) is the interleaving itself.                          *)
(* Property C07.                                                           *)
(***************************************************************************)
EXTENDS Integers, Sequences, FiniteSets, TLC

CONSTANTS Conns, MaxReq

VARIABLES closing, mu, wg,          \* closing channel closed; connsMu holder; WaitGroup counter
          serve,                    \* [pc, c]
          h,                        \* [c -> handler pc]
          closer,                   \* idle | lock | wait | returned
          connected, accepted, closed,
          registered,               \* connections whose handler had done conns.Add when Close was called
          avail,                    \* [c -> requests written by the client, not yet read]
          started, answered,        \* [c -> number of exchanges whose request modifier started / that were answered]
          decidedAfterClose,        \* [c -> the close decision of the current exchange saw closing]
          out,                      \* [c -> Seq of items for the client: [t |-> "resp", close] | [t |-> "eof"]]
          lateReqMod                \* a request modifier started after Close had returned
vars == <<closing, mu, wg, serve, h, closer, connected, accepted, closed, registered, avail, started, answered, decidedAfterClose, out, lateReqMod>>
Free == "free"

Init == /\ closing = FALSE /\ mu = Free /\ wg = 0
        /\ serve = [pc |-> "check", c |-> 0]
        /\ h = [c \in Conns |-> "none"] /\ closer = "idle"
        /\ connected = {} /\ accepted = {} /\ closed = {} /\ registered = {}
        /\ avail = [c \in Conns |-> 0] /\ started = [c \in Conns |-> 0] /\ answered = [c \in Conns |-> 0]
        /\ decidedAfterClose = [c \in Conns |-> FALSE]
        /\ out = [c \in Conns |-> <<>>] /\ lateReqMod = FALSE

\* ---- environment
Connect(c) == /\ c \notin connected /\ connected' = connected \cup {c}
              /\ UNCHANGED <<closing, mu, wg, serve, h, closer, accepted, closed, registered, avail, started, answered, decidedAfterClose, out, lateReqMod>>
ClientSend(c) == /\ c \in connected /\ avail[c] + started[c] < MaxReq
                 /\ avail' = [avail EXCEPT ![c] = @ + 1]
                 /\ UNCHANGED <<closing, mu, wg, serve, h, closer, connected, accepted, closed, registered, started, answered, decidedAfterClose, out, lateReqMod>>
ClientRecv(c) == /\ out[c] # <<>> /\ out' = [out EXCEPT ![c] = Tail(@)]
                 /\ UNCHANGED <<closing, mu, wg, serve, h, closer, connected, accepted, closed, registered, avail, started, answered, decidedAfterClose, lateReqMod>>

\* ---- Serve loop (proxy.go:185-230)
ServeCheck == /\ serve.pc = "check" /\ serve' = [serve EXCEPT !.pc = (IF closing THEN "done" ELSE "accept")]
              /\ UNCHANGED <<closing, mu, wg, h, closer, connected, accepted, closed, registered, avail, started, answered, decidedAfterClose, out, lateReqMod>>
ServeAccept(c) == /\ serve.pc = "accept" /\ c \in connected \ accepted
                  /\ accepted' = accepted \cup {c} /\ serve' = [pc |-> "spawn", c |-> c]
                  /\ UNCHANGED <<closing, mu, wg, h, closer, connected, closed, registered, avail, started, answered, decidedAfterClose, out, lateReqMod>>
ServeSpawn == /\ serve.pc = "spawn" /\ h' = [h EXCEPT ![serve.c] = "add"]
              /\ serve' = [pc |-> "check", c |-> 0]
              /\ UNCHANGED <<closing, mu, wg, closer, connected, accepted, closed, registered, avail, started, answered, decidedAfterClose, out, lateReqMod>>

\* Serve has returned and closed the listener: a connection still waiting in the accept queue
\* is reset by the kernel
ListenerDrops(c) == /\ serve.pc = "done" /\ c \in connected \ accepted /\ c \notin closed
                    /\ closed' = closed \cup {c} /\ accepted' = accepted \cup {c}
                    /\ out' = [out EXCEPT ![c] = Append(@, [t |-> "eof", close |-> FALSE])]
                    /\ UNCHANGED <<closing, mu, wg, serve, h, closer, connected, registered, avail, started, answered, decidedAfterClose, lateReqMod>>

\* ---- handler (proxy.go:232-265, 442-585)
Exit(c) == /\ closed' = closed \cup {c} /\ wg' = wg - 1 /\ h' = [h EXCEPT ![c] = "exit"]
           /\ out' = [out EXCEPT ![c] = Append(@, [t |-> "eof", close |-> FALSE])]
HAdd(c) == /\ h[c] = "add" /\ mu = Free /\ wg' = wg + 1 /\ h' = [h EXCEPT ![c] = "chk"]
           /\ UNCHANGED <<closing, mu, serve, closer, connected, accepted, closed, registered, avail, started, answered, decidedAfterClose, out, lateReqMod>>
HChk(c) == /\ h[c] = "chk"
           /\ IF closing THEN Exit(c) ELSE (h' = [h EXCEPT ![c] = "read"] /\ UNCHANGED <<closed, wg, out>>)
           /\ UNCHANGED <<closing, mu, serve, closer, connected, accepted, registered, avail, started, answered, decidedAfterClose, lateReqMod>>
\* a complete request was read: the request modifier starts
HReadReq(c) == /\ h[c] = "read" /\ avail[c] > 0
               /\ avail' = [avail EXCEPT ![c] = @ - 1] /\ started' = [started EXCEPT ![c] = @ + 1]
               /\ h' = [h EXCEPT ![c] = "reqmod"]
               /\ lateReqMod' = (lateReqMod \/ closer = "returned")
               /\ UNCHANGED <<closing, mu, wg, serve, closer, connected, accepted, closed, registered, answered, decidedAfterClose, out>>
HReadClosing(c) == /\ h[c] = "read" /\ closing /\ Exit(c)
                   /\ UNCHANGED <<closing, mu, serve, closer, connected, accepted, registered, avail, started, answered, decidedAfterClose, lateReqMod>>
Step(c, from, to) == /\ h[c] = from /\ h' = [h EXCEPT ![c] = to]
                     /\ UNCHANGED <<closing, mu, wg, serve, closer, connected, accepted, closed, registered, avail, started, answered, decidedAfterClose, out, lateReqMod>>
HDecide(c) == /\ h[c] = "decide" /\ decidedAfterClose' = [decidedAfterClose EXCEPT ![c] = closing]
              /\ h' = [h EXCEPT ![c] = "write"]
              /\ UNCHANGED <<closing, mu, wg, serve, closer, connected, accepted, closed, registered, avail, started, answered, out, lateReqMod>>
HWrite(c) == /\ h[c] = "write" /\ answered' = [answered EXCEPT ![c] = @ + 1]
             /\ IF decidedAfterClose[c]
                  THEN /\ closed' = closed \cup {c} /\ wg' = wg - 1 /\ h' = [h EXCEPT ![c] = "exit"]
                       /\ out' = [out EXCEPT ![c] = @ \o <<[t |-> "resp", close |-> TRUE], [t |-> "eof", close |-> FALSE]>>]
                  ELSE /\ h' = [h EXCEPT ![c] = "read"] /\ UNCHANGED <<closed, wg>>
                       /\ out' = [out EXCEPT ![c] = Append(@, [t |-> "resp", close |-> FALSE])]
             /\ UNCHANGED <<closing, mu, serve, closer, connected, accepted, registered, avail, started, decidedAfterClose, lateReqMod>>

\* ---- Close (proxy.go:144-154)
CloseCall == /\ closer = "idle" /\ closing' = TRUE /\ closer' = "lock"
             /\ registered' = {c \in Conns : h[c] \notin {"none", "add", "exit"}}
             /\ UNCHANGED <<mu, wg, serve, h, connected, accepted, closed, avail, started, answered, decidedAfterClose, out, lateReqMod>>
CloseLock == /\ closer = "lock" /\ mu = Free /\ mu' = "closer" /\ closer' = "wait"
             /\ UNCHANGED <<closing, wg, serve, h, connected, accepted, closed, registered, avail, started, answered, decidedAfterClose, out, lateReqMod>>
CloseWait == /\ closer = "wait" /\ wg = 0 /\ mu' = Free /\ closer' = "returned"
             /\ UNCHANGED <<closing, wg, serve, h, connected, accepted, closed, registered, avail, started, answered, decidedAfterClose, out, lateReqMod>>

HandlerStep(c) == HAdd(c) \/ HChk(c) \/ HReadReq(c) \/ HReadClosing(c)
                  \/ Step(c, "reqmod", "rt") \/ Step(c, "rt", "resmod") \/ Step(c, "resmod", "decide")
                  \/ HDecide(c) \/ HWrite(c)
Next == \/ \E c \in Conns : Connect(c) \/ ClientSend(c) \/ ClientRecv(c) \/ ServeAccept(c) \/ ListenerDrops(c) \/ HandlerStep(c)
        \/ ServeCheck \/ ServeSpawn \/ CloseCall \/ CloseLock \/ CloseWait
Spec == Init /\ [][Next]_vars /\ WF_vars(Next)

---------------------------------------------------------------------------
\* every exchange whose request modifier had started was answered before its connection closed
StartedGetsResponse == \A c \in closed : started[c] = answered[c]
NoReqModAfterReturn == ~lateReqMod
\* Close returns only after every connection whose handler had registered is closed
ReturnsAfterRegisteredClosed == closer = "returned" => registered \subseteq closed
\* (over merely accepted connections this is violated: accept -> Close runs to completion ->
\*  the handler registers afterwards; see DESIGN.md)
ReturnsAfterAcceptedClosed == closer = "returned" => (accepted \ {c \in Conns : h[c] = "none"}) \subseteq closed
CloseEventuallyReturns == (closer = "lock") ~> (closer = "returned")
=============================================================================
