------------------------------- MODULE Tunnel -------------------------------
(***************************************************************************)
(* A blind CONNECT tunnel through martian (proxy.go: handleConnectRequest  *)
(* 373-440, connect 608-638): after the 200 the proxy copies bytes in both *)
(* directions until both are done.                                         *)
(*                                                                         *)
(* Bytes are modelled as numbered chunks.  Four queues are the sockets:    *)
(*   c2p  client -> proxy      p2t  proxy -> target                        *)
(*   t2p  target -> proxy      p2c  proxy -> client                        *)
(* The first client chunk may be "early": written in the same segment as   *)
(* the CONNECT request, before the tunnel exists (it waits in c2p like any *)
(* other byte; what matters is that it is relayed first and exactly once). *)
(* A side that has finished sending half-closes; "eof" travels through the *)
(* queues behind the data.  Reference behaviour of each copy direction:    *)
(* relay chunks in order; on end-of-stream from the source, half-close the *)
(* destination (CopyUpEOF / CopyDownEOF); when both directions are done,   *)
(* release both connections.                                               *)
(* NoHalfClose = TRUE is the deviation of the original code: end-of-stream *)
(* was not forwarded until both directions had ended.                      *)
(* Property C04.                                                           *)
(***************************************************************************)
EXTENDS Naturals, Sequences, FiniteSets, SequencesExt

CONSTANTS MaxUp, MaxDown,     \* chunks each side may send
          NoHalfClose

VARIABLES est,                 \* the tunnel is established (200 sent, copying started)
          upSent, downSent,    \* chunks written so far by client / target
          c2p, p2t, t2p, p2c,  \* queues of chunk numbers; 0 is the end-of-stream marker
          tGot, cGot,          \* chunks read by target / client, in order
          cClosedW, tClosedW,  \* client / target finished sending
          upDone, downDone,    \* the copy direction has ended
          tSawEOF, cSawEOF, released
vars == <<est, upSent, downSent, c2p, p2t, t2p, p2c, tGot, cGot, cClosedW, tClosedW, upDone, downDone, tSawEOF, cSawEOF, released>>

EOFm == 0

Init == /\ est = FALSE /\ upSent = 0 /\ downSent = 0
        /\ c2p = <<>> /\ p2t = <<>> /\ t2p = <<>> /\ p2c = <<>> /\ tGot = <<>> /\ cGot = <<>>
        /\ cClosedW = FALSE /\ tClosedW = FALSE /\ upDone = FALSE /\ downDone = FALSE
        /\ tSawEOF = FALSE /\ cSawEOF = FALSE /\ released = FALSE

\* the client may write its first chunk before the tunnel is established (early data)
ClientSend == /\ ~cClosedW /\ upSent < MaxUp /\ (est \/ upSent = 0)
              /\ upSent' = upSent + 1 /\ c2p' = Append(c2p, upSent + 1)
              /\ UNCHANGED <<est, downSent, p2t, t2p, p2c, tGot, cGot, cClosedW, tClosedW, upDone, downDone, tSawEOF, cSawEOF, released>>
Establish == /\ ~est /\ est' = TRUE
             /\ UNCHANGED <<upSent, downSent, c2p, p2t, t2p, p2c, tGot, cGot, cClosedW, tClosedW, upDone, downDone, tSawEOF, cSawEOF, released>>
TargetSend == /\ est /\ ~tClosedW /\ downSent < MaxDown
              /\ downSent' = downSent + 1 /\ t2p' = Append(t2p, downSent + 1)
              /\ UNCHANGED <<est, upSent, c2p, p2t, p2c, tGot, cGot, cClosedW, tClosedW, upDone, downDone, tSawEOF, cSawEOF, released>>
ClientCloseW == /\ est /\ ~cClosedW /\ cClosedW' = TRUE /\ c2p' = Append(c2p, EOFm)
                /\ UNCHANGED <<est, upSent, downSent, p2t, t2p, p2c, tGot, cGot, tClosedW, upDone, downDone, tSawEOF, cSawEOF, released>>
TargetCloseW == /\ est /\ ~tClosedW /\ tClosedW' = TRUE /\ t2p' = Append(t2p, EOFm)
                /\ UNCHANGED <<est, upSent, downSent, c2p, p2t, p2c, tGot, cGot, cClosedW, upDone, downDone, tSawEOF, cSawEOF, released>>

\* proxy.go:421-432: one iteration of io.Copy client -> target
CopyUpStep == /\ est /\ ~upDone /\ c2p # <<>> /\ Head(c2p) # EOFm
              /\ p2t' = Append(p2t, Head(c2p)) /\ c2p' = Tail(c2p)
              /\ UNCHANGED <<est, upSent, downSent, t2p, p2c, tGot, cGot, cClosedW, tClosedW, upDone, downDone, tSawEOF, cSawEOF, released>>
\* the source ended: this direction is done and (reference) the target is told so
CopyUpEOF == /\ est /\ ~upDone /\ c2p # <<>> /\ Head(c2p) = EOFm
             /\ upDone' = TRUE /\ c2p' = Tail(c2p)
             /\ p2t' = IF NoHalfClose THEN p2t ELSE Append(p2t, EOFm)
             /\ UNCHANGED <<est, upSent, downSent, t2p, p2c, tGot, cGot, cClosedW, tClosedW, downDone, tSawEOF, cSawEOF, released>>
CopyDownStep == /\ est /\ ~downDone /\ t2p # <<>> /\ Head(t2p) # EOFm
                /\ p2c' = Append(p2c, Head(t2p)) /\ t2p' = Tail(t2p)
                /\ UNCHANGED <<est, upSent, downSent, c2p, p2t, tGot, cGot, cClosedW, tClosedW, upDone, downDone, tSawEOF, cSawEOF, released>>
CopyDownEOF == /\ est /\ ~downDone /\ t2p # <<>> /\ Head(t2p) = EOFm
               /\ downDone' = TRUE /\ t2p' = Tail(t2p)
               /\ p2c' = IF NoHalfClose THEN p2c ELSE Append(p2c, EOFm)
               /\ UNCHANGED <<est, upSent, downSent, c2p, p2t, tGot, cGot, cClosedW, tClosedW, upDone, tSawEOF, cSawEOF, released>>
\* proxy.go:435-440 and the deferred closes: both directions done -> both sockets closed
Release == /\ upDone /\ downDone /\ ~released /\ released' = TRUE
           /\ p2t' = IF NoHalfClose THEN Append(p2t, EOFm) ELSE p2t
           /\ p2c' = IF NoHalfClose THEN Append(p2c, EOFm) ELSE p2c
           /\ UNCHANGED <<est, upSent, downSent, c2p, t2p, tGot, cGot, cClosedW, tClosedW, upDone, downDone, tSawEOF, cSawEOF>>

TargetRecv == /\ p2t # <<>>
              /\ IF Head(p2t) = EOFm THEN tSawEOF' = TRUE /\ UNCHANGED tGot
                 ELSE tGot' = Append(tGot, Head(p2t)) /\ UNCHANGED tSawEOF
              /\ p2t' = Tail(p2t)
              /\ UNCHANGED <<est, upSent, downSent, c2p, t2p, p2c, cGot, cClosedW, tClosedW, upDone, downDone, cSawEOF, released>>
ClientRecv == /\ p2c # <<>>
              /\ IF Head(p2c) = EOFm THEN cSawEOF' = TRUE /\ UNCHANGED cGot
                 ELSE cGot' = Append(cGot, Head(p2c)) /\ UNCHANGED cSawEOF
              /\ p2c' = Tail(p2c)
              /\ UNCHANGED <<est, upSent, downSent, c2p, p2t, t2p, tGot, cClosedW, tClosedW, upDone, downDone, tSawEOF, released>>

ProxyStep == Establish \/ CopyUpStep \/ CopyUpEOF \/ CopyDownStep \/ CopyDownEOF \/ Release
Next == ClientSend \/ TargetSend \/ ClientCloseW \/ TargetCloseW \/ ProxyStep \/ TargetRecv \/ ClientRecv
Spec == Init /\ [][Next]_vars /\ WF_vars(ProxyStep) /\ WF_vars(TargetRecv) /\ WF_vars(ClientRecv)

---------------------------------------------------------------------------
\* every byte reaches the other end in order and exactly once
UpFaithful == tGot = [i \in 1..Len(tGot) |-> i] /\ Len(tGot) <= upSent
DownFaithful == cGot = [i \in 1..Len(cGot) |-> i] /\ Len(cGot) <= downSent
\* end-of-stream is seen only after everything sent before the close
EOFAfterData == /\ tSawEOF => Len(tGot) = upSent
                /\ cSawEOF => Len(cGot) = downSent
\* the other end observes end-of-stream once a side has finished sending - without waiting
\* for the opposite direction to end
UpEOFPropagates == cClosedW ~> tSawEOF
DownEOFPropagates == tClosedW ~> cSawEOF
\* every chunk sent is delivered
Delivered == /\ \A k \in 1..MaxUp : (upSent >= k) ~> (Len(tGot) >= k)
             /\ \A k \in 1..MaxDown : (downSent >= k) ~> (Len(cGot) >= k)
ReleasedAtEnd == (cSawEOF /\ tSawEOF) ~> released
=============================================================================
