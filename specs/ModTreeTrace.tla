--------------------------- MODULE ModTreeTrace ---------------------------
(* Validates observations of the implementation on random configuration   *)
(* trees against ModTree!Eval: each line holds a tree, a message kind, a  *)
(* condition valuation and what the implementation did (leaves that ran,  *)
(* errors reported).                                                      *)
EXTENDS ModTree, Json, IOUtils, TLC

Trace == ndJsonDeserialize(IOEnv.TRACE)
VARIABLE l

TInit == l = 1 /\ TLCSet(1, 0)
          /\ mode = "eval" /\ tree = NoTree /\ kind = "req" /\ env = [c \in Conds |-> FALSE]
          /\ phase = "in" /\ out = Empty /\ active = NoTree /\ posts = 0 /\ lastStatus = 0

Step == /\ l <= Len(Trace)
        /\ LET ev == Trace[l]
               r == Eval(ev.tree, <<>>, ev.kind, ev.env)
           IN r.tr = ev.tr /\ r.er = ev.er
        /\ l' = l + 1
        /\ UNCHANGED vars

TSpec == TInit /\ [][Step]_<<vars, l>>
NotAccepted == l <= Len(Trace)
HW == IF l > TLCGet(1) THEN TLCSet(1, l) ELSE TRUE
PrintHW == PrintT("HIGHWATER " \o ToString(TLCGet(1)))
=============================================================================
