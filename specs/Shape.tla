------------------------------- MODULE Shape -------------------------------
(***************************************************************************)
(* Traffic shaping (trafficshape/{handler,utils,listener,conn}.go and the  *)
(* context set-up in proxy.go:531-568).                                    *)
(*                                                                         *)
(* A configuration is posted to the handler; it is validated (utils.go     *)
(* parseShapes) and, if accepted, replaces the active shape map and bumps  *)
(* its modification time.  A connection remembers the shapes that were     *)
(* active when it was accepted (its per-regex buckets) and the time it was *)
(* established; actions of a shape apply to it only while the map has not  *)
(* been modified since.  For every response the proxy installs a fresh     *)
(* write context; if the URL matches one of the connection's shapes the    *)
(* context is "shaping": header bytes pass unshaped, body bytes advance an *)
(* absolute offset that starts at the response's range start, and the      *)
(* sorted action list of the shape (halts, close-connections, bandwidth    *)
(* changes at throttle boundaries) is walked as the offset reaches each    *)
(* action's byte.  Halt and close actions carry counts shared by all       *)
(* connections (negative = unlimited).                                     *)
(*                                                                         *)
(* Bytes are abstract: a response is (head length h, body length n, range  *)
(* start s); what is delivered is counted.  Token buckets only add delay   *)
(* and cut writes into pieces; they are not modelled (the write loop may   *)
(* take any number of iterations between two actions).                     *)
(*                                                                         *)
(* Deviations (each must violate an invariant):                            *)
(*   StaleContext      the context of the previous response is kept when   *)
(*                     the next response matches no shape                  *)
(*   SwapUnvalidated   a rejected configuration still replaces the active  *)
(*                     one                                                 *)
(*   CloseLate         a close action fires only after the write that      *)
(*                     crosses its offset has been delivered completely    *)
(***************************************************************************)
EXTENDS Integers, Sequences, FiniteSets, TLC

CONSTANTS Conns, Configs,     \* Configs: a set of configuration records (see MCShape / the harness)
          MaxResp,            \* responses per connection
          MaxPosts,           \* configurations posted (bounds the model)
          HeadLens, BodyLens, RangeStarts,
          StaleContext, SwapUnvalidated, CloseLate

Regexes == {"A", "B"}

---------------------------------------------------------------------------
\* validation (utils.go:83-204, handler.go:164-205)
ThrOK(t) == t.bw > 0 /\ t.s >= 0 /\ (t.e = -1 \/ t.e > t.s)
RECURSIVE NoOverlap(_)
NoOverlap(ts) == \* ts sorted by start: each ends before the next starts; only the last may be open-ended
  IF Len(ts) <= 1 THEN TRUE
  ELSE /\ ts[1].e # -1 /\ ts[1].e <= ts[2].s
       /\ NoOverlap(Tail(ts))
\* stable insertion sorts: an element goes after every element whose key is <= its own
RECURSIVE InsertS(_, _)
InsertS(x, seq) == IF seq = <<>> THEN <<x>>
                   ELSE IF Head(seq).s <= x.s THEN <<Head(seq)>> \o InsertS(x, Tail(seq)) ELSE <<x>> \o seq
RECURSIVE SortS(_)
SortS(seq) == IF seq = <<>> THEN <<>> ELSE InsertS(seq[Len(seq)], SortS(SubSeq(seq, 1, Len(seq) - 1)))
RECURSIVE InsertB(_, _)
InsertB(x, seq) == IF seq = <<>> THEN <<x>>
                   ELSE IF Head(seq).b <= x.b THEN <<Head(seq)>> \o InsertB(x, Tail(seq)) ELSE <<x>> \o seq
RECURSIVE SortB(_)
SortB(seq) == IF seq = <<>> THEN <<>> ELSE InsertB(seq[Len(seq)], SortB(SubSeq(seq, 1, Len(seq) - 1)))
ShapeOK(sh) ==
  /\ sh.re \in Regexes
  /\ sh.maxbw >= 0
  /\ \A i \in DOMAIN sh.thr : ThrOK(sh.thr[i])
  /\ NoOverlap(SortS(sh.thr))
  /\ \A i \in DOMAIN sh.halts : sh.halts[i].b >= 0 /\ sh.halts[i].d >= 0 /\ sh.halts[i].cnt # 0
  /\ \A i \in DOMAIN sh.closes : sh.closes[i].b >= 0 /\ sh.closes[i].cnt # 0
Valid(cfg) == cfg.wellformed /\ cfg.defaultsOK /\ \A i \in DOMAIN cfg.shapes : ShapeOK(cfg.shapes[i])

\* the action list of a shape (utils.go:150-201): halts, then closes, then the bandwidth changes
\* of the sorted throttles, stably sorted by byte
RECURSIVE ThrActs(_)
ThrActs(ts) ==
  IF ts = <<>> THEN <<>>
  ELSE LET t == Head(ts)
           startA == [t |-> "bw", b |-> t.s, d |-> 0]
           endA == [t |-> "bw", b |-> t.e, d |-> 0]
       IN IF t.e = -1 \/ (Len(ts) > 1 /\ t.e = ts[2].s) THEN <<startA>> \o ThrActs(Tail(ts))
          ELSE <<startA, endA>> \o ThrActs(Tail(ts))
Actions(sh) ==
  SortB([i \in DOMAIN sh.halts |-> [t |-> "halt", b |-> sh.halts[i].b, d |-> sh.halts[i].d]]
         \o [i \in DOMAIN sh.closes |-> [t |-> "close", b |-> sh.closes[i].b, d |-> 0]]
         \o ThrActs(SortS(sh.thr)))
InitCounts(sh) ==
  LET hs == [i \in DOMAIN sh.halts |-> [t |-> "halt", b |-> sh.halts[i].b, c |-> sh.halts[i].cnt]]
      cs == [i \in DOMAIN sh.closes |-> [t |-> "close", b |-> sh.closes[i].b, c |-> sh.closes[i].cnt]]
      bs == [i \in DOMAIN ThrActs(SortS(sh.thr)) |-> [t |-> "bw", b |-> ThrActs(SortS(sh.thr))[i].b, c |-> -1]]
      srt == SortB(hs \o cs \o bs)
  IN [i \in DOMAIN srt |-> srt[i].c]
ShapeOf(cfg, re) == IF \E i \in DOMAIN cfg.shapes : cfg.shapes[i].re = re
                    THEN cfg.shapes[CHOOSE i \in DOMAIN cfg.shapes : cfg.shapes[i].re = re /\ \A j \in DOMAIN cfg.shapes : cfg.shapes[j].re = re => j <= i]
                    ELSE [re |-> "none"]   \* a later shape with the same regex replaces an earlier one in the map
HasShape(cfg, re) == \E i \in DOMAIN cfg.shapes : cfg.shapes[i].re = re
NoConfig == [wellformed |-> TRUE, defaultsOK |-> TRUE, shapes |-> <<>>]

---------------------------------------------------------------------------
VARIABLES
  active,   \* the active configuration
  ver,      \* number of accepted configurations so far (stands for LastModifiedTime)
  cnt,      \* [Regexes -> Seq(Int)]: remaining counts of the active configuration's actions
  lastPost, \* [cfg, accepted] of the most recent post (observation)
  nposts,   \* number of posts so far
  conn      \* per connection, see InitConn
vars == <<active, ver, cnt, lastPost, nposts, conn>>

NoCtx == [shaping |-> FALSE, re |-> "none", hdrLeft |-> 0, off |-> 0, next |-> 0]
InitConn == [st |-> "none", epoch |-> 0, cfg |-> NoConfig, ctx |-> NoCtx,
             nresp |-> 0, resp |-> [m |-> "none", s |-> 0, h |-> 0, n |-> 0],
             left |-> 0,        \* bytes of the current response not yet handed to Write
             rem |-> 0,         \* bytes of the current Write call not yet processed
             pc |-> "idle",     \* idle | hdr | loop | action
             deliv |-> 0,       \* bytes of the current response delivered
             delay |-> 0,       \* halt time taken during the current response
             dlast |-> 0,       \* ... of which before the last byte delivered so far (what a client can observe)
             closedBy |-> 0,    \* byte of the close action that ended the connection, -1 if none
             log |-> <<>>]      \* finished responses: [m, s, h, n, deliv, delay, dlast, closedBy]

Init == /\ active = NoConfig /\ ver = 0 /\ cnt = [r \in Regexes |-> <<>>] /\ lastPost = [cfg |-> NoConfig, accepted |-> TRUE] /\ nposts = 0
        /\ conn = [c \in Conns |-> InitConn]

\* ---- the handler
Post(cfg) ==
  /\ nposts < MaxPosts
  /\ lastPost' = [cfg |-> cfg, accepted |-> Valid(cfg)] /\ nposts' = nposts + 1
  /\ IF Valid(cfg) \/ SwapUnvalidated
     THEN /\ active' = cfg /\ ver' = ver + 1
          /\ cnt' = [r \in Regexes |-> IF HasShape(cfg, r) /\ Valid(cfg) THEN InitCounts(ShapeOf(cfg, r)) ELSE <<>>]
     ELSE UNCHANGED <<active, ver, cnt>>
  /\ UNCHANGED conn

\* ---- the listener
Accept(c) ==
  /\ conn[c].st = "none"
  /\ conn' = [conn EXCEPT ![c] = [InitConn EXCEPT !.st = "open", !.epoch = ver, !.cfg = active, !.closedBy = -1]]
  /\ UNCHANGED <<active, ver, cnt, lastPost, nposts>>

\* the connection's shapes still apply: the map has not been modified since it was established
Fresh(c) == conn[c].epoch = ver
ActsOf(c) == Actions(ShapeOf(conn[c].cfg, conn[c].ctx.re))
\* first action at or after index i whose count is not zero (GetNextActionFromIndex), 0 if none
RECURSIVE NextFrom(_, _, _)
NextFrom(i, acts, counts) == IF i > Len(acts) THEN 0 ELSE IF counts[i] # 0 THEN i ELSE NextFrom(i + 1, acts, counts)
\* first action whose byte is >= start (GetNextActionFromByte)
FirstAtOrAfter(acts, start) == IF \E i \in DOMAIN acts : acts[i].b >= start
                               THEN CHOOSE i \in DOMAIN acts : acts[i].b >= start /\ \A j \in DOMAIN acts : acts[j].b >= start => i <= j
                               ELSE Len(acts) + 1

\* ---- proxy.go:531-568: a new response on connection c; m is the regex its URL matches ("none": no shape)
Respond(c, m, s, h, n) ==
  /\ conn[c].st = "open" /\ conn[c].pc = "idle" /\ conn[c].left = 0 /\ conn[c].nresp < MaxResp
  /\ conn[c].resp.h + conn[c].resp.n = 0
  /\ LET matches == m # "none" /\ HasShape(conn[c].cfg, m)
         acts == Actions(ShapeOf(conn[c].cfg, m))
         nx == IF Fresh(c) THEN NextFrom(FirstAtOrAfter(acts, s), acts, cnt[m]) ELSE 0
         newctx == IF matches THEN [shaping |-> TRUE, re |-> m, hdrLeft |-> h, off |-> s, next |-> nx]
                   ELSE IF StaleContext THEN conn[c].ctx ELSE NoCtx
     IN conn' = [conn EXCEPT ![c].ctx = newctx, ![c].nresp = @ + 1,
                             ![c].resp = [m |-> IF matches THEN m ELSE "none", s |-> s, h |-> h, n |-> n],
                             ![c].left = h + n, ![c].deliv = 0, ![c].delay = 0, ![c].dlast = 0]
  /\ UNCHANGED <<active, ver, cnt, lastPost, nposts>>

\* ---- one Write call of k bytes (conn.go:370-493)
WriteCall(c, k) ==
  /\ conn[c].st = "open" /\ conn[c].pc = "idle" /\ conn[c].left >= k /\ k > 0
  /\ IF ~conn[c].ctx.shaping
     THEN conn' = [conn EXCEPT ![c].left = @ - k, ![c].deliv = @ + k, ![c].dlast = conn[c].delay]
     ELSE conn' = [conn EXCEPT ![c].left = @ - k, ![c].rem = k, ![c].pc = "hdr"]
  /\ UNCHANGED <<active, ver, cnt, lastPost, nposts>>
\* header bytes pass without shaping and without moving the offset
StepHdr(c) ==
  /\ conn[c].pc = "hdr"
  /\ LET w == IF conn[c].rem < conn[c].ctx.hdrLeft THEN conn[c].rem ELSE conn[c].ctx.hdrLeft
     IN conn' = [conn EXCEPT ![c].ctx.hdrLeft = @ - w, ![c].rem = @ - w, ![c].deliv = @ + w, ![c].pc = "loop",
                             ![c].dlast = IF w > 0 THEN conn[c].delay ELSE @]
  /\ UNCHANGED <<active, ver, cnt, lastPost, nposts>>
\* the loop: write up to the next action, then look at it
StepLoop(c) ==
  /\ conn[c].pc = "loop"
  /\ IF conn[c].rem = 0 THEN conn' = [conn EXCEPT ![c].pc = "idle"]
     ELSE LET x == conn[c].ctx
              acts == ActsOf(c)
              till == IF x.next # 0 THEN acts[x.next].b - x.off ELSE conn[c].rem
              w == IF CloseLate THEN conn[c].rem ELSE IF till <= conn[c].rem THEN till ELSE conn[c].rem
              reached == x.next # 0 /\ x.off + w >= acts[x.next].b
          IN conn' = [conn EXCEPT ![c].ctx.off = @ + w, ![c].rem = @ - w, ![c].deliv = @ + w,
                                  ![c].dlast = IF w > 0 THEN conn[c].delay ELSE @,
                                  ![c].pc = IF reached THEN "action" ELSE "loop"]
  /\ UNCHANGED <<active, ver, cnt, lastPost, nposts>>
\* the action at the offset: validity and count are looked at again (they may have changed)
StepAction(c) ==
  /\ conn[c].pc = "action"
  /\ LET x == conn[c].ctx
         acts == ActsOf(c)
         a == acts[x.next]
     IN IF ~(Fresh(c) /\ HasShape(active, x.re))
        THEN \* the rest of this write and all later ones use the default path
             /\ conn' = [conn EXCEPT ![c].ctx.shaping = FALSE, ![c].deliv = @ + conn[c].rem, ![c].rem = 0, ![c].pc = "idle",
                                     ![c].dlast = IF conn[c].rem > 0 THEN conn[c].delay ELSE @]
             /\ UNCHANGED cnt
        ELSE IF cnt[x.re][x.next] = 0
        THEN /\ conn' = [conn EXCEPT ![c].ctx.next = NextFrom(x.next + 1, acts, cnt[x.re]), ![c].pc = "loop"]
             /\ UNCHANGED cnt
        ELSE LET cnt2 == [cnt EXCEPT ![x.re][x.next] = IF @ > 0 THEN @ - 1 ELSE @]
             IN /\ cnt' = cnt2
                /\ IF a.t = "close"
                   THEN conn' = [conn EXCEPT ![c].st = "closed", ![c].closedBy = a.b, ![c].pc = "idle", ![c].rem = 0, ![c].left = 0,
                                            ![c].log = Append(@, [m |-> conn[c].resp.m, s |-> conn[c].resp.s, h |-> conn[c].resp.h, n |-> conn[c].resp.n,
                                                                  deliv |-> conn[c].deliv, delay |-> conn[c].delay, dlast |-> conn[c].dlast, closedBy |-> a.b])]
                   ELSE conn' = [conn EXCEPT ![c].delay = IF a.t = "halt" THEN @ + a.d ELSE @,
                                            ![c].ctx.next = NextFrom(x.next + 1, acts, cnt2[x.re]), ![c].pc = "loop"]
  /\ UNCHANGED <<active, ver, lastPost, nposts>>
\* the response has been written completely
Finish(c) ==
  /\ conn[c].st = "open" /\ conn[c].pc = "idle" /\ conn[c].left = 0 /\ conn[c].resp.h + conn[c].resp.n > 0
  /\ conn' = [conn EXCEPT ![c].resp = [m |-> "none", s |-> 0, h |-> 0, n |-> 0],
                          ![c].log = Append(@, [m |-> conn[c].resp.m, s |-> conn[c].resp.s, h |-> conn[c].resp.h, n |-> conn[c].resp.n,
                                                deliv |-> conn[c].deliv, delay |-> conn[c].delay, dlast |-> conn[c].dlast, closedBy |-> -1])]
  /\ UNCHANGED <<active, ver, cnt, lastPost, nposts>>
CloseConn(c) ==
  /\ conn[c].st = "open" /\ conn[c].pc = "idle" /\ conn[c].left = 0 /\ conn[c].resp.h + conn[c].resp.n = 0
  /\ conn' = [conn EXCEPT ![c].st = "closed"]
  /\ UNCHANGED <<active, ver, cnt, lastPost, nposts>>

WriteStep(c) == StepHdr(c) \/ StepLoop(c) \/ StepAction(c)
Next == \/ \E cfg \in Configs : Post(cfg)
        \/ \E c \in Conns : \/ Accept(c) \/ Finish(c) \/ CloseConn(c) \/ WriteStep(c)
                            \/ \E k \in 1..(IF conn[c].left > 0 THEN conn[c].left ELSE 1) : WriteCall(c, k)
                            \/ \E m \in Regexes \cup {"none"}, s \in RangeStarts, h \in HeadLens, n \in BodyLens : Respond(c, m, s, h, n)
Spec == Init /\ [][Next]_vars

---------------------------------------------------------------------------
\* every finished response: all bytes arrived, or a close action cut it at exactly its offset
Entries == UNION {{conn[c].log[i] : i \in DOMAIN conn[c].log} : c \in Conns}
DeliveredAllOrCutAtK ==
  \A e \in Entries : IF e.closedBy = -1 THEN e.deliv = e.h + e.n
                     ELSE e.closedBy >= e.s /\ e.deliv = e.h + (e.closedBy - e.s) /\ e.deliv <= e.h + e.n
\* never more than was written
NeverMoreThanWritten == \A c \in Conns : conn[c].deliv <= conn[c].resp.h + conn[c].resp.n \/ conn[c].resp.h + conn[c].resp.n = 0
\* halts and closes only on responses whose URL matches a shape of the connection
OnlyMatching == \A e \in Entries : e.m = "none" => e.delay = 0 /\ e.closedBy = -1
\* counts never go below zero from above, and unlimited ones stay unlimited
CountsSane == \A r \in Regexes : \A i \in DOMAIN cnt[r] : cnt[r][i] >= -1
\* a rejected configuration leaves the active shaping unchanged
RejectedLeavesActive == [][\A cfg \in Configs : (Post(cfg) /\ ~Valid(cfg)) => UNCHANGED <<active, ver, cnt>>]_vars
\* a configuration applies only to connections accepted after it
OnlyLaterConns == [][\A c \in Conns : (StepAction(c) /\ cnt' # cnt) => conn[c].epoch = ver]_vars
=============================================================================
