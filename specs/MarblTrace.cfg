SPECIFICATION TSpec
CONSTANTS
  Msgs = {1, 2, 3, 4}
  MaxSteps = 100
  Sizes = {0, 1, 2, 3}
  NHdr = 1
INVARIANTS NotAccepted FramesParseBack TerminalIffEOF
CONSTRAINT HW
POSTCONDITION PrintHW
CHECK_DEADLOCK FALSE
