---------------------------- MODULE ClientBytes ----------------------------
(***************************************************************************)
(* Arbitrary client byte streams for property C03 ("no byte sequence sent  *)
(* by a client terminates the proxy process").  A stream is built token by *)
(* token from an alphabet of HTTP fragments and hostile bytes; -simulate   *)
(* yields the streams.  Whatever the stream, the only requirement is that  *)
(* the proxy process is alive afterwards and serves a fresh connection.    *)
(***************************************************************************)
EXTENDS Naturals, Sequences

CONSTANTS MaxTokens

Tokens == {"GET ", "POST ", "CONNECT ", "BREW ", "/path", "http://origin/x", "origin:443", "*", " HTTP/1.1", " HTTP/1.0", " HTTP/9.9",
           "CRLF", "LF", "CR", "SP", "COLON", "Host: origin", "Content-Length: 5", "Content-Length: -1",
           "Content-Length: 99999999999999999999", "Content-Length: 5, 6", "Transfer-Encoding: chunked", "Transfer-Encoding: gzip",
           "Connection: close", "Expect: 100-continue", "chunk:5", "chunk:ffffffffffffffff", "chunk:zz", "chunk:0", "hello",
           "NUL", "0x16", "0xff", "LONGLINE", "HEADER-NO-COLON", "TAB", "obs-fold"}

VARIABLES stream, alive
vars == <<stream, alive>>

Init == stream = <<>> /\ alive = TRUE
Add(t) == /\ Len(stream) < MaxTokens /\ stream' = Append(stream, t) /\ UNCHANGED alive
\* the proxy consumes the stream and the connection ends; the process must survive
Consume == /\ Len(stream) > 0 /\ alive' = alive /\ UNCHANGED stream
Next == (\E t \in Tokens : Add(t)) \/ Consume
Spec == Init /\ [][Next]_vars
ProxyAlive == alive
=============================================================================
