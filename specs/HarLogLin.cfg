SPECIFICATION LSpec
CONSTANTS
  Ids = {"a", "b", "c", "d"}
  Resps = {1, 2, 3}
  MaxOps = 1000000
INVARIANTS NotAccepted NoDup XRExact
CONSTRAINT HW
POSTCONDITION PrintHW
CHECK_DEADLOCK FALSE
