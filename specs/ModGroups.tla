----------------------------- MODULE ModGroups -----------------------------
(***************************************************************************)
(* Modifier groups (priority/priority_group.go, fifo/fifo_group.go): the   *)
(* containers every martian configuration is built from.  A group holds a  *)
(* list of modifiers and runs them in list order for each message.         *)
(*   priority  Add(m, p) inserts m before the first element whose priority *)
(*             is <= p (descending priorities, newest first among equals); *)
(*             Remove(m) deletes the first occurrence of m or reports      *)
(*             "not found"; Run stops at the first modifier that fails and *)
(*             returns its error                                           *)
(*   fifo      Add appends; Run stops at the first failure                 *)
(*   fifoagg   fifo with SetAggregateErrors(true): Run executes every      *)
(*             modifier and returns all errors, in order                   *)
(* The same modifier may be added more than once.  This supports property  *)
(* C02 (each exchange runs its modifiers exactly once, in configuration    *)
(* order); it is bound to the code by replaying every transition and every *)
(* short behaviour of the state graph on real groups (request and response *)
(* side) with recording modifiers.                                         *)
(***************************************************************************)
EXTENDS Integers, Sequences, FiniteSets, TLC

CONSTANTS Mods, Prios, MaxLen, MaxOps, Kind

VARIABLES list,   \* Seq([m : Mods, p : Prios])
          last,   \* result of the last operation
          nops
vars == <<list, last, nops>>

ModsOf(l) == [i \in DOMAIN l |-> l[i].m]
Init == list = <<>> /\ last = [op |-> "init", ok |-> TRUE, ran |-> <<>>, errs |-> <<>>] /\ nops = 0
Tick == nops < MaxOps /\ nops' = nops + 1

\* index at which Add(m, p) puts the new element
InsertAt(l, p) == IF Kind = "priority" /\ \E i \in DOMAIN l : p >= l[i].p
                  THEN CHOOSE i \in DOMAIN l : p >= l[i].p /\ \A j \in DOMAIN l : p >= l[j].p => i <= j
                  ELSE Len(l) + 1
Add(m, p) ==
  /\ Tick /\ Len(list) < MaxLen
  /\ LET i == InsertAt(list, p) IN
       list' = SubSeq(list, 1, i - 1) \o <<[m |-> m, p |-> p]>> \o SubSeq(list, i, Len(list))
  /\ last' = [op |-> "add", ok |-> TRUE, ran |-> <<>>, errs |-> <<>>]
Remove(m) ==
  /\ Tick /\ Kind = "priority"
  /\ IF \E i \in DOMAIN list : list[i].m = m
     THEN LET i == CHOOSE i \in DOMAIN list : list[i].m = m /\ \A j \in DOMAIN list : list[j].m = m => i <= j
          IN /\ list' = SubSeq(list, 1, i - 1) \o SubSeq(list, i + 1, Len(list))
             /\ last' = [op |-> "remove", ok |-> TRUE, ran |-> <<>>, errs |-> <<>>]
     ELSE /\ UNCHANGED list
          /\ last' = [op |-> "remove", ok |-> FALSE, ran |-> <<>>, errs |-> <<>>]
\* one message through the group; F = the modifiers that fail
FirstFail(ms, F) == IF \E i \in DOMAIN ms : ms[i] \in F
                    THEN CHOOSE i \in DOMAIN ms : ms[i] \in F /\ \A j \in DOMAIN ms : ms[j] \in F => i <= j
                    ELSE 0
Run(F) ==
  /\ Tick /\ UNCHANGED list
  /\ LET ms == ModsOf(list)
         k == FirstFail(ms, F)
     IN IF Kind = "fifoagg"
        THEN last' = [op |-> "run", ok |-> (k = 0), ran |-> ms, errs |-> SelectSeq(ms, LAMBDA x : x \in F)]
        ELSE last' = [op |-> "run", ok |-> (k = 0), ran |-> IF k = 0 THEN ms ELSE SubSeq(ms, 1, k),
                      errs |-> IF k = 0 THEN <<>> ELSE <<ms[k]>>]
Next == \/ \E m \in Mods, p \in Prios : Add(m, p)
        \/ \E m \in Mods : Remove(m)
        \/ \E F \in SUBSET Mods : Run(F)
Spec == Init /\ [][Next]_vars

---------------------------------------------------------------------------
\* priorities never increase along the list
Sorted == Kind = "priority" => \A i, j \in DOMAIN list : i < j => list[i].p >= list[j].p
\* a new modifier goes behind every higher priority and before every priority that is not higher
NewestFirst == [][\A m \in Mods, p \in Prios : Add(m, p) =>
                   LET i == InsertAt(list, p) IN
                     /\ \A j \in 1..(i - 1) : Kind = "priority" => list[j].p > p
                     /\ \A j \in i..Len(list) : Kind = "priority" => list[j].p <= p]_vars
\* a run executes a prefix of the list, in order, every modifier at most as often as it is listed
RunIsPrefix == last.op = "run" => /\ Len(last.ran) <= Len(list)
                                   /\ \A i \in DOMAIN last.ran : last.ran[i] = list[i].m
\* without aggregation nothing runs after the first failure, and exactly that failure is returned
StopsAtFirstError == (last.op = "run" /\ Kind # "fifoagg" /\ ~last.ok) =>
                        /\ Len(last.errs) = 1 /\ last.ran[Len(last.ran)] = last.errs[1]
\* with aggregation everything runs
AggregateRunsAll == (last.op = "run" /\ Kind = "fifoagg") => Len(last.ran) = Len(list)
=============================================================================
