SPECIFICATION Spec
CONSTANTS
  Ids = {"a", "b", "c"}
  Resps = {1, 2}
  MaxOps = 6
INVARIANTS NoDup ArrivalOrder ExportIsLog XRExact TypeOK
PROPERTIES XROnce PendingKept
