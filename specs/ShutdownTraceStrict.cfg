SPECIFICATION TSpec
CONSTANTS
  Conns = {1, 2, 3, 4}
  MaxReq = 3
INVARIANTS NotAccepted StartedGetsResponse NoReqModAfterReturn ReturnsAfterRegisteredClosed ReturnsAfterAcceptedClosed
CONSTRAINT HW
POSTCONDITION PrintHW
CHECK_DEADLOCK FALSE
