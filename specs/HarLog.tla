------------------------------ MODULE HarLog ------------------------------
(***************************************************************************)
(* The in-memory HAR log of martian (har/har.go).                          *)
(*                                                                         *)
(* Abstract state: the log is a sequence of entries in request-arrival     *)
(* order.  An entry is [id, n, resp]: the caller-chosen id, the arrival    *)
(* serial number n (its identity over the life of the log) and resp = 0    *)
(* while pending or the tag of the attached response.                      *)
(*                                                                         *)
(*   RecordRequest   har.go:488-517  (mutex region 505-516)                *)
(*   RecordResponse  har.go:566-581  (mutex region 572-578)                *)
(*   Export          har.go:630-645                                        *)
(*   ExportAndReset  har.go:648-680                                        *)
(*   Reset           har.go:693-699                                        *)
(*                                                                         *)
(* Property C17.                                                           *)
(***************************************************************************)
EXTENDS Naturals, Sequences, FiniteSets, SequencesExt

CONSTANTS Ids,        \* request ids
          Resps,      \* response tags (positive naturals)
          MaxOps      \* bound on the number of operations

VARIABLES log,        \* Seq([id, n, resp])
          serial,     \* number of RecordRequest calls accepted so far
          nops,       \* operations performed
          last,       \* result of the last operation [op, ok, out]
          returned    \* history: serials ever returned by ExportAndReset

vars == <<log, serial, nops, last, returned>>

Entry(i, n, r) == [id |-> i, n |-> n, resp |-> r]
IdsIn(s) == {s[k].id : k \in DOMAIN s}
Res(op, ok, out) == [op |-> op, ok |-> ok, out |-> out]

Init == /\ log = <<>> /\ serial = 0 /\ nops = 0
        /\ last = Res("init", TRUE, <<>>) /\ returned = {}

Tick == nops < MaxOps /\ nops' = nops + 1

\* A duplicate id is rejected and the log is not disturbed.
\* n is the caller-chosen identity of the entry (its arrival serial in the
\* sequential model; an arbitrary unique token in concurrent traces).
RecordRequestN(i, n) ==
  /\ IF i \in IdsIn(log)
       THEN /\ last' = Res("req", FALSE, <<>>)
            /\ UNCHANGED <<log, serial, returned>>
       ELSE /\ log' = Append(log, Entry(i, n, 0))
            /\ serial' = serial + 1
            /\ last' = Res("req", TRUE, <<>>)
            /\ UNCHANGED returned

RecordRequest(i) == Tick /\ RecordRequestN(i, serial + 1)

\* A response for an unknown (or already reset) id is ignored.
\* A later response for the same id replaces the earlier one (har.go:575).
RecordResponse(i, r) ==
  /\ Tick
  /\ log' = [k \in DOMAIN log |-> IF log[k].id = i THEN [log[k] EXCEPT !.resp = r] ELSE log[k]]
  /\ last' = Res("res", TRUE, <<>>)
  /\ UNCHANGED <<serial, returned>>

Export ==
  /\ Tick
  /\ last' = Res("export", TRUE, log)
  /\ UNCHANGED <<log, serial, returned>>

Done(e) == e.resp # 0

ExportAndReset ==
  /\ Tick
  /\ LET done == SelectSeq(log, Done)
     IN /\ last' = Res("xr", TRUE, done)
        /\ returned' = returned \cup {done[k].n : k \in DOMAIN done}
  /\ log' = SelectSeq(log, LAMBDA e : ~Done(e))
  /\ UNCHANGED serial

Reset ==
  /\ Tick
  /\ log' = <<>>
  /\ last' = Res("reset", TRUE, <<>>)
  /\ UNCHANGED <<serial, returned>>

Next == \/ \E i \in Ids : RecordRequest(i)
        \/ \E i \in Ids, r \in Resps : RecordResponse(i, r)
        \/ Export \/ ExportAndReset \/ Reset

Spec == Init /\ [][Next]_vars

---------------------------------------------------------------------------
\* Invariants (C17)

NoDup == \A a, b \in DOMAIN log : a # b => log[a].id # log[b].id

ArrivalOrder == \A a, b \in DOMAIN log : a < b => log[a].n < log[b].n

\* An export lists every entry recorded since the last reset, in arrival order.
ExportIsLog == last.op = "export" => last.out = log

\* Export-and-reset returns exactly completed entries and keeps the pending ones.
XRExact == last.op = "xr" =>
             /\ \A k \in DOMAIN last.out : Done(last.out[k])
             /\ \A k \in DOMAIN log : ~Done(log[k])

\* Each completed entry is returned exactly once over the life of the log.
XROnce == [][ExportAndReset =>
               \A k \in DOMAIN last'.out : last'.out[k].n \notin returned]_vars

\* Pending entries are not lost by export-and-reset: they stay, in order.
PendingKept == [][ExportAndReset => log' = SelectSeq(log, LAMBDA e : ~Done(e))]_vars

TypeOK == /\ serial \in 0..MaxOps /\ nops \in 0..MaxOps
          /\ \A k \in DOMAIN log : log[k].id \in Ids /\ log[k].resp \in Resps \cup {0}
=============================================================================
