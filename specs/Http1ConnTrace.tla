-------------------------- MODULE Http1ConnTrace --------------------------
(***************************************************************************)
(* Validates recorded runs of a real proxy against Http1Conn.              *)
(* Events (one atomic sequence counter; a send is logged before the bytes  *)
(* are written, a receive after they were read):                           *)
(*   newconn                      a fresh client connection / scenario     *)
(*   csend  i close               client writes request i                  *)
(*   cfin                         client finished sending (half close)     *)
(*   reqmod i b ctx sess          harness request modifier entered         *)
(*   oresp  i k close ok          origin got request i (ok = it is         *)
(*                                byte-faithful) and will answer k         *)
(*   resmod i b ctx sess same     harness response modifier entered        *)
(*   crecv  t id k close warn ok  client parsed the next item off the wire *)
(*   hjdone                       the hijacking modifier returned          *)
(*   closecalled                  proxy.Close() was called                 *)
(*   end    live                  quiescence reached; live = number of     *)
(*                                request->context links still held        *)
(* Steps the harness cannot see (the proxy reading a request, deciding,    *)
(* writing, a refused dial, pass-through modifiers when none is installed) *)
(* are silent spec steps placed by TLC.                                    *)
(***************************************************************************)
EXTENDS Http1Conn, Json, IOUtils

Trace == ndJsonDeserialize(IOEnv.TRACE)

VARIABLES l,
          ctxOf,      \* [id -> context token seen by the request modifier]
          ctxUsed,    \* context tokens seen on any connection of this file
          sessOf,     \* session token of this connection ("" until known)
          sessUsed,   \* session tokens of earlier connections
          expSec      \* C05: "na" | "yes" | "no": are requests decrypted from this connection
                      \*      (other than the CONNECT itself) expected to be secure
tvars == <<vars, l, ctxOf, ctxUsed, sessOf, sessUsed, expSec>>
aux == <<ctxOf, ctxUsed, sessOf, sessUsed, expSec>>

Ev == Trace[l]
Is(e) == l <= Len(Trace) /\ Trace[l].ev = e
Consume == l' = l + 1

TInit == /\ Init /\ l = 1 /\ ctxOf = [i \in {} |-> ""] /\ ctxUsed = {} /\ sessOf = "" /\ sessUsed = {} /\ expSec = "na"
         /\ TLCSet(1, 0)

NewConn == /\ Is("newconn") /\ Consume
           /\ sent' = 0 /\ rq' = <<>> /\ c2p' = <<>> /\ chalf' = FALSE
           /\ ps' = "idle" /\ cur' = 0 /\ rqb' = [i \in {} |-> ""] /\ rsb' = [i \in {} |-> ""]
           /\ ores' = [i \in {} |-> ""] /\ originLog' = <<>> /\ mark' = FALSE
           /\ p2c' = <<>> /\ crecv' = <<>> /\ ctxLive' = {} /\ rqRan' = [i \in Ids |-> 0] /\ rsRan' = [i \in Ids |-> 0]
           /\ closing' = FALSE /\ hjDone' = FALSE
           /\ ctxOf' = [i \in {} |-> ""] /\ sessOf' = ""
           /\ sessUsed' = IF sessOf = "" THEN sessUsed ELSE sessUsed \cup {sessOf}
           /\ expSec' = IF "secure" \in DOMAIN Ev THEN (IF Ev.secure THEN "yes" ELSE "no") ELSE "na"
           /\ UNCHANGED ctxUsed

TCsend == /\ Is("csend") /\ Consume /\ Ev.i = sent + 1 /\ ClientSend(Ev.close, Ev.connect) /\ UNCHANGED aux
TCfin == /\ Is("cfin") /\ Consume /\ ClientFinish /\ UNCHANGED aux

\* C02: one context per exchange, never seen before; one session per connection, never shared
TReqMod == /\ Is("reqmod") /\ Consume /\ Ev.i = cur /\ ReqMod(Ev.b)
           /\ Ev.ctx \notin ctxUsed
           /\ ctxOf' = Ev.i :> Ev.ctx @@ ctxOf /\ ctxUsed' = ctxUsed \cup {Ev.ctx}
           /\ Ev.sess \notin sessUsed /\ (sessOf = "" \/ sessOf = Ev.sess)
           /\ sessOf' = Ev.sess /\ UNCHANGED <<sessUsed, expSec>>
           \* C05: what the modifier is shown for a request decrypted from the connection
           /\ (expSec # "na" /\ ~rq[Ev.i].connect) =>
                 /\ Ev.secure = (expSec = "yes") /\ Ev.tls = (expSec = "yes")
                 /\ Ev.scheme = (IF expSec = "yes" THEN "https" ELSE "http")
                 /\ Ev.host = "origin.test"
TResMod == /\ Is("resmod") /\ Consume /\ Ev.i = cur /\ ResMod(Ev.b)
           /\ Ev.same                                   \* res.Request is the request the request modifier saw
           /\ Ev.i \in DOMAIN ctxOf /\ Ev.ctx = ctxOf[Ev.i] /\ Ev.sess = sessOf
           /\ UNCHANGED aux
\* without installed modifiers both run as pass-through, unseen
SReqMod == /\ ~Mods /\ ReqMod("pass") /\ UNCHANGED <<l, ctxOf, ctxUsed, sessOf, sessUsed, expSec>>
SResMod == /\ ~Mods /\ ResMod("pass") /\ UNCHANGED <<l, ctxOf, ctxUsed, sessOf, sessUsed, expSec>>

\* the origin saw the request (faithfully) and chose its behaviour
TOresp == /\ Is("oresp") /\ Consume /\ Ev.i = cur /\ Ev.ok
          /\ expSec # "na" => Ev.tls = (expSec = "yes")      \* C05: never forwarded in cleartext
          /\ \/ Ev.k \in {"ok", "trunc"} /\ RoundTrip(Ev.k, Ev.close)
             \/ Ev.k = "502" /\ RoundTripReached
          /\ UNCHANGED aux
\* a refused dial never reaches any origin
SRefused == /\ RoundTrip("refuse", FALSE) /\ UNCHANGED <<l, ctxOf, ctxUsed, sessOf, sessUsed, expSec>>

TCrecv == /\ Is("crecv") /\ Consume /\ Ev.ok
          /\ p2c # <<>>
          /\ LET h == Head(p2c) IN
               /\ h.t = Ev.t
               /\ Ev.t = "resp" => (h.id = Ev.id /\ h.k = Ev.k /\ h.close = Ev.close /\ h.warn = Ev.warn)
          /\ ClientRecv /\ UNCHANGED aux

\* the CONNECT target was dialled (blind mode) or the proxy answers itself (MITM)
TDial == \/ /\ Is("dial") /\ Consume /\ ConnectDial(Ev.ok) /\ UNCHANGED aux
         \/ /\ ConnectMode = "mitm" /\ ConnectDial(TRUE) /\ UNCHANGED <<l, ctxOf, ctxUsed, sessOf, sessUsed, expSec>>
\* the exchange whose modifier hijacked the session
HjId == CHOOSE i \in (DOMAIN rqb \cup DOMAIN rsb) :
          (i \in DOMAIN rqb /\ rqb[i] \in Hj) \/ (i \in DOMAIN rsb /\ rsb[i] \in Hj)
\* bytes written by the hijacker itself reached the client: fine once (and only once) hijacked
\* (the hijacker may already have returned when the client gets to read them)
THjRecv == /\ Is("hjrecv") /\ Consume /\ (ps = "hijacked" \/ hjDone)
           /\ (expSec = "yes" /\ ~rq[HjId].connect) => ("tls" \in DOMAIN Ev /\ Ev.tls)   \* C05: the hijacker got the decrypted connection
           /\ \A j \in DOMAIN crecv : crecv[j].t # "eof"
           /\ UNCHANGED vars /\ UNCHANGED aux

THjDone == /\ Is("hjdone") /\ Consume /\ HijackerDone /\ UNCHANGED aux
TCloseCalled == /\ Is("closecalled") /\ Consume /\ CloseCalled /\ UNCHANGED aux

Silent(A) == A /\ UNCHANGED <<l, ctxOf, ctxUsed, sessOf, sessUsed, expSec>>

\* quiescence: nothing is in flight and nothing more can happen without new input
Settled == /\ p2c = <<>>
           /\ \/ ps = "closed"
              \/ ps = "idle" /\ c2p = <<>> /\ ~chalf /\ ~closing
              \/ ps = "tunnel"
TEnd == /\ Is("end") /\ Consume /\ Settled
        /\ Ev.live = Cardinality(ctxLive)               \* C02: no context outlives its exchange
        /\ UNCHANGED vars /\ UNCHANGED aux

TNext == \/ NewConn \/ TCsend \/ TCfin \/ TReqMod \/ TResMod \/ TOresp \/ TCrecv \/ THjDone \/ TCloseCalled \/ TEnd
         \/ SReqMod \/ SResMod \/ SRefused
         \/ TDial \/ THjRecv \/ Silent(TunnelEnd)
         \/ Silent(ProxyRead) \/ Silent(ProxyReadEOF) \/ Silent(ProxyReadClosing) \/ Silent(Decide) \/ Silent(Write)
TSpec == TInit /\ [][TNext]_tvars

NotAccepted == l <= Len(Trace)
HW == IF l > TLCGet(1) THEN TLCSet(1, l) ELSE TRUE
PrintHW == PrintT("HIGHWATER " \o ToString(TLCGet(1)))
=============================================================================
