----------------------------- MODULE H2Session -----------------------------
(***************************************************************************)
(* Termination of one HTTP/2 relay session (h2.Config.Proxy, h2/h2.go and  *)
(* relay.relayFrames, h2/relay.go).  A session has two directions, "up"    *)
(* (client -> server) and "down".  Each direction owns three goroutines:   *)
(*   R  the reader loop (the caller of relayFrames): waits in a select for *)
(*      a frame, a writer error, shutdown or the session's `done`; while   *)
(*      processing a frame it pushes into its own output channel (frames   *)
(*      to forward) or into the PEER direction's output channel (a         *)
(*      WINDOW_UPDATE / SETTINGS releases frames the peer direction queued)*)
(*   F  the ReadFrame goroutine of the current loop iteration; abandoned   *)
(*      when R returns while it is blocked in the read                     *)
(*   W  the writer: takes frames from the output channel and writes them   *)
(*      to the destination; after a write error it keeps draining; it      *)
(*      leaves only through the readerDone handshake with R                *)
(* Proxy joins both directions.  Frames are abstract; what matters is who  *)
(* can block on what:                                                      *)
(*   "fwd"   a frame that goes into the direction's own output channel     *)
(*           (HEADERS)                                                     *)
(*   "data"  DATA that is forwarded: R first writes the WINDOW_UPDATE      *)
(*           credit to the SOURCE connection itself (sendWindowUpdates,    *)
(*           under the peer direction's write lock), then pushes           *)
(*   "held"  DATA that stays in a per-stream buffer (zero window): credit  *)
(*           is written, nothing is pushed                                 *)
(*   "rel"   a WINDOW_UPDATE that releases the frames the PEER direction   *)
(*           holds: more than the peer's output channel and its writer     *)
(*           can take (Cap + 2 frames)                                     *)
(*   "bad"   a frame ReadFrame rejects                                     *)
(*                                                                         *)
(* Reference behaviour (StopOnEnd, AbortableSend): as soon as a direction  *)
(* decides to return, or on shutdown, both connections are closed and      *)
(* `done` is closed; producers blocked on a full channel give up on        *)
(* `done`.  The deviations are the code before the repair:                 *)
(*   StopOnEnd = FALSE      Proxy only joins; nothing closes the upstream  *)
(*   AbortableSend = FALSE  a producer blocks forever on a channel whose   *)
(*                          writer is gone or stuck                        *)
(***************************************************************************)
EXTENDS Naturals, Sequences, FiniteSets, TLC

CONSTANTS Cap, MaxFrames, StopOnEnd, AbortableSend

Dirs == {"up", "down"}
Conns == {"cc", "sc"}
Peer(d) == IF d = "up" THEN "down" ELSE "up"
Src(d) == IF d = "up" THEN "cc" ELSE "sc"
Dst(d) == IF d = "up" THEN "sc" ELSE "cc"

VARIABLES
  conn,      \* [Conns -> {"open", "peerGone", "closed"}]: peerGone = the remote endpoint closed or reset; closed = closed on the relay's side
  wfail,     \* [Conns -> BOOLEAN]: writes to the connection fail although reads still block
  drains,    \* [Conns -> BOOLEAN]: the remote endpoint reads what is written to it
  inbox,     \* [Dirs -> Seq({"fwd", "data", "held", "rel", "bad"})]: frames the source has written, not yet read
  F,         \* [Dirs -> {"reading", "fwd", "data", "held", "rel", "err", "none", "abandoned", "gone"}]
  R,         \* [Dirs -> {"select", "credit", "pushOwn", "pushPeer", "leaving", "retWait", "ret"}]
  todo,      \* [Dirs -> Nat]: frames R still has to push while it processes the current frame
  heldq,     \* [Dirs -> BOOLEAN]: the direction has frames waiting for a window (as the environment knows)
  W,         \* [Dirs -> {"idle", "writing", "exited"}]
  werr,      \* [Dirs -> BOOLEAN]: the writer has had an error and only drains
  wsig,      \* [Dirs -> BOOLEAN]: writerErr holds an error for R
  out,       \* [Dirs -> 0..Cap]: frames in the output channel
  closing,   \* the proxy is shutting down
  done,      \* the session's done channel is closed
  returned,  \* Proxy has returned
  ended,     \* which terminating event the environment has produced
  nframes
vars == <<conn, wfail, drains, inbox, F, R, todo, heldq, W, werr, wsig, out, closing, done, returned, ended, nframes>>

Init ==
  /\ conn = [c \in Conns |-> "open"] /\ wfail = [c \in Conns |-> FALSE] /\ drains = [c \in Conns |-> TRUE]
  /\ inbox = [d \in Dirs |-> <<>>]
  /\ F = [d \in Dirs |-> "reading"] /\ R = [d \in Dirs |-> "select"] /\ todo = [d \in Dirs |-> 0] /\ heldq = [d \in Dirs |-> FALSE]
  /\ W = [d \in Dirs |-> "idle"]
  /\ werr = [d \in Dirs |-> FALSE] /\ wsig = [d \in Dirs |-> FALSE] /\ out = [d \in Dirs |-> 0]
  /\ closing = FALSE /\ done = FALSE /\ returned = FALSE /\ ended = "none" /\ nframes = 0

---------------------------------------------------------------------------
\* the environment: the two endpoints and the proxy that owns the session
EnvSend(d, k) ==
  /\ conn[Src(d)] = "open" /\ nframes < MaxFrames /\ ~returned
  /\ k = "rel" => heldq[Peer(d)]
  /\ heldq' = IF k = "held" THEN [heldq EXCEPT ![d] = TRUE] ELSE IF k = "rel" THEN [heldq EXCEPT ![Peer(d)] = FALSE] ELSE heldq
  /\ inbox' = [inbox EXCEPT ![d] = Append(@, k)] /\ nframes' = nframes + 1
  /\ UNCHANGED <<conn, wfail, drains, F, R, todo, W, werr, wsig, out, closing, done, returned, ended>>
EnvStopDraining(c) ==
  /\ ended = "none" /\ drains[c] /\ drains' = [drains EXCEPT ![c] = FALSE]
  /\ UNCHANGED <<conn, wfail, inbox, F, R, todo, heldq, W, werr, wsig, out, closing, done, returned, ended, nframes>>
EnvClose(c) ==                       \* the client or the server closes (or resets) its connection
  /\ ended = "none" /\ conn[c] = "open"
  /\ conn' = [conn EXCEPT ![c] = "peerGone"] /\ ended' = "close"
  /\ UNCHANGED <<wfail, drains, inbox, F, R, todo, heldq, W, werr, wsig, out, closing, done, returned, nframes>>
EnvWriteFail(c) ==                   \* writes toward one side start failing
  /\ ended = "none" /\ wfail' = [wfail EXCEPT ![c] = TRUE] /\ ended' = "wfail"
  /\ UNCHANGED <<conn, drains, inbox, F, R, todo, heldq, W, werr, wsig, out, closing, done, returned, nframes>>
EnvBad(d) ==                         \* a frame that ReadFrame rejects (protocol error)
  /\ ended = "none" /\ conn[Src(d)] = "open"
  /\ inbox' = [inbox EXCEPT ![d] = Append(@, "bad")] /\ ended' = "proto"
  /\ UNCHANGED <<conn, wfail, drains, F, R, todo, heldq, W, werr, wsig, out, closing, done, returned, nframes>>
EnvShutdown ==
  /\ ended = "none" /\ closing' = TRUE /\ ended' = "shutdown"
  /\ UNCHANGED <<conn, wfail, drains, inbox, F, R, todo, heldq, W, werr, wsig, out, done, returned, nframes>>
\* after Proxy has returned its caller closes the client connection (proxy.go: handleLoop's deferred Close)
CallerClose ==
  /\ returned /\ conn["cc"] # "closed" /\ conn' = [conn EXCEPT !["cc"] = "closed"]
  /\ UNCHANGED <<wfail, drains, inbox, F, R, todo, heldq, W, werr, wsig, out, closing, done, returned, ended, nframes>>

---------------------------------------------------------------------------
\* ReadFrame returns: a frame, or an error when the connection is gone or the frame is bad
FRead(d) ==
  /\ F[d] \in {"reading", "abandoned"}
  /\ LET c == Src(d)
         res == IF conn[c] = "closed" THEN "err"
                ELSE IF inbox[d] # <<>> THEN (IF Head(inbox[d]) = "bad" THEN "err" ELSE Head(inbox[d]))
                ELSE IF conn[c] = "peerGone" THEN "err" ELSE "block"
     IN /\ res # "block"
        /\ F' = [F EXCEPT ![d] = IF @ = "abandoned" THEN "gone" ELSE res]
        /\ inbox' = [inbox EXCEPT ![d] = IF conn[c] # "closed" /\ @ # <<>> THEN Tail(@) ELSE @]
  /\ UNCHANGED <<conn, wfail, drains, R, todo, heldq, W, werr, wsig, out, closing, done, returned, ended, nframes>>

\* R leaves its loop: the ReadFrame goroutine is abandoned if it is still reading
Leave(d) ==
  /\ R' = [R EXCEPT ![d] = "leaving"]
  /\ F' = [F EXCEPT ![d] = IF @ = "reading" THEN "abandoned" ELSE "gone"]
\* the select in relayFrames (relay.go:186-216)
RTake(d) ==
  /\ R[d] = "select" /\ F[d] \in {"fwd", "data", "held", "rel", "err"}
  /\ IF F[d] = "err" THEN Leave(d) /\ UNCHANGED todo
     ELSE /\ R' = [R EXCEPT ![d] = CASE F[d] = "fwd" -> "pushOwn" [] F[d] = "rel" -> "pushPeer" [] OTHER -> "credit"]
          /\ todo' = [todo EXCEPT ![d] = CASE F[d] = "fwd" -> 1 [] F[d] = "data" -> 1 [] F[d] = "held" -> 0 [] OTHER -> Cap + 2]
          /\ F' = [F EXCEPT ![d] = "none"]
  /\ UNCHANGED <<conn, wfail, drains, inbox, heldq, W, werr, wsig, out, closing, done, returned, ended, nframes>>
\* the credit for DATA is written to the source connection by R itself; the write blocks while
\* that endpoint does not read, and fails when the connection is gone
RCreditOK(d) ==
  /\ R[d] = "credit" /\ conn[Src(d)] \in {"open", "peerGone"} /\ ~wfail[Src(d)] /\ drains[Src(d)]
  /\ IF todo[d] > 0 THEN R' = [R EXCEPT ![d] = "pushOwn"] /\ UNCHANGED F
     ELSE R' = [R EXCEPT ![d] = "select"] /\ F' = [F EXCEPT ![d] = "reading"]
  /\ UNCHANGED <<conn, wfail, drains, inbox, todo, heldq, W, werr, wsig, out, closing, done, returned, ended, nframes>>
RCreditErr(d) ==
  /\ R[d] = "credit" /\ (conn[Src(d)] # "open" \/ wfail[Src(d)])
  /\ Leave(d) /\ todo' = [todo EXCEPT ![d] = 0]
  /\ UNCHANGED <<conn, wfail, drains, inbox, heldq, W, werr, wsig, out, closing, done, returned, ended, nframes>>
RSignal(d) ==
  /\ R[d] = "select" /\ (wsig[d] \/ closing \/ (StopOnEnd /\ done))
  /\ Leave(d)
  /\ UNCHANGED <<conn, wfail, drains, inbox, todo, heldq, W, werr, wsig, out, closing, done, returned, ended, nframes>>
\* processFrame: the frame (or what it releases) goes into an output channel, one frame at a
\* time (emitEligibleFrames, relay.go); each send blocks while the channel is full
RPush(d) ==
  /\ R[d] \in {"pushOwn", "pushPeer"}
  /\ LET t == IF R[d] = "pushOwn" THEN d ELSE Peer(d) IN
       /\ out[t] < Cap /\ out' = [out EXCEPT ![t] = @ + 1]
  /\ todo' = [todo EXCEPT ![d] = @ - 1]
  /\ IF todo[d] = 1 THEN R' = [R EXCEPT ![d] = "select"] /\ F' = [F EXCEPT ![d] = "reading"] ELSE UNCHANGED <<R, F>>
  /\ UNCHANGED <<conn, wfail, drains, inbox, heldq, W, werr, wsig, closing, done, returned, ended, nframes>>
\* reference: a blocked producer gives up once the session is done
RAbort(d) ==
  /\ AbortableSend /\ done /\ R[d] \in {"pushOwn", "pushPeer"}
  /\ R' = [R EXCEPT ![d] = "select"] /\ F' = [F EXCEPT ![d] = "reading"] /\ todo' = [todo EXCEPT ![d] = 0]
  /\ UNCHANGED <<conn, wfail, drains, inbox, heldq, W, werr, wsig, out, closing, done, returned, ended, nframes>>

\* the writer goroutine (relay.go:164-183)
WTake(d) ==
  /\ W[d] = "idle" /\ out[d] > 0 /\ out' = [out EXCEPT ![d] = @ - 1]
  /\ W' = [W EXCEPT ![d] = IF werr[d] THEN "idle" ELSE "writing"]
  /\ UNCHANGED <<conn, wfail, drains, inbox, F, R, todo, heldq, werr, wsig, closing, done, returned, ended, nframes>>
WWriteOK(d) ==
  /\ W[d] = "writing" /\ conn[Dst(d)] \in {"open", "peerGone"} /\ ~wfail[Dst(d)] /\ drains[Dst(d)]
  /\ W' = [W EXCEPT ![d] = "idle"]
  /\ UNCHANGED <<conn, wfail, drains, inbox, F, R, todo, heldq, werr, wsig, out, closing, done, returned, ended, nframes>>
\* (reference: the writer that fails ends the session itself - its reader may be blocked outside its select)
WWriteErr(d) ==
  /\ W[d] = "writing" /\ (conn[Dst(d)] # "open" \/ wfail[Dst(d)])
  /\ W' = [W EXCEPT ![d] = "idle"] /\ werr' = [werr EXCEPT ![d] = TRUE] /\ wsig' = [wsig EXCEPT ![d] = TRUE]
  /\ IF StopOnEnd THEN done' = TRUE /\ conn' = [c \in Conns |-> "closed"] ELSE UNCHANGED <<done, conn>>
  /\ UNCHANGED <<wfail, drains, inbox, F, R, todo, heldq, out, closing, returned, ended, nframes>>
\* readerDone handshake: R's deferred send meets the writer's select
WExit(d) ==
  /\ W[d] = "idle" /\ R[d] = "retWait"
  /\ W' = [W EXCEPT ![d] = "exited"] /\ R' = [R EXCEPT ![d] = "ret"]
  /\ UNCHANGED <<conn, wfail, drains, inbox, F, todo, heldq, werr, wsig, out, closing, done, returned, ended, nframes>>

\* reference: the session stops as a whole.  A direction that has decided to return first closes
\* both connections and `done` (deferred in relayFrames, before the readerDone handshake) ...
RLeave(d) ==
  /\ R[d] = "leaving" /\ R' = [R EXCEPT ![d] = "retWait"]
  /\ IF StopOnEnd THEN done' = TRUE /\ conn' = [c \in Conns |-> "closed"] ELSE UNCHANGED <<done, conn>>
  /\ UNCHANGED <<wfail, drains, inbox, F, todo, heldq, W, werr, wsig, out, closing, returned, ended, nframes>>
\* ... and a watcher does the same on shutdown, for directions that are blocked outside their select
Stop ==
  /\ StopOnEnd /\ ~done /\ closing
  /\ done' = TRUE /\ conn' = [c \in Conns |-> "closed"]
  /\ UNCHANGED <<wfail, drains, inbox, F, R, todo, heldq, W, werr, wsig, out, closing, returned, ended, nframes>>
ProxyReturn ==
  /\ ~returned /\ \A d \in Dirs : R[d] = "ret"
  /\ returned' = TRUE
  /\ UNCHANGED <<conn, wfail, drains, inbox, F, R, todo, heldq, W, werr, wsig, out, closing, done, ended, nframes>>

RelayStep == \/ \E d \in Dirs : FRead(d) \/ RTake(d) \/ RSignal(d) \/ RPush(d) \/ RAbort(d) \/ RLeave(d) \/ RCreditOK(d) \/ RCreditErr(d) \/ WTake(d) \/ WWriteOK(d) \/ WWriteErr(d) \/ WExit(d)
             \/ Stop \/ ProxyReturn
Env == \/ \E d \in Dirs, k \in {"fwd", "data", "held", "rel"} : EnvSend(d, k)
       \/ \E c \in Conns : EnvStopDraining(c) \/ EnvClose(c) \/ EnvWriteFail(c)
       \/ \E d \in Dirs : EnvBad(d)
       \/ EnvShutdown \/ CallerClose
Next == RelayStep \/ Env
Fair == /\ \A d \in Dirs : /\ WF_vars(FRead(d)) /\ WF_vars(RTake(d)) /\ WF_vars(RSignal(d)) /\ WF_vars(RPush(d)) /\ WF_vars(RAbort(d)) /\ WF_vars(RLeave(d)) /\ WF_vars(RCreditOK(d)) /\ WF_vars(RCreditErr(d))
                          /\ WF_vars(WTake(d)) /\ WF_vars(WWriteOK(d)) /\ WF_vars(WWriteErr(d)) /\ WF_vars(WExit(d))
        /\ WF_vars(Stop) /\ WF_vars(ProxyReturn) /\ WF_vars(CallerClose)
Spec == Init /\ [][Next]_vars /\ Fair

---------------------------------------------------------------------------
TypeOK ==
  /\ \A d \in Dirs : out[d] \in 0..Cap
  /\ \A d \in Dirs : R[d] \in {"select", "credit", "pushOwn", "pushPeer", "leaving", "retWait", "ret"} /\ W[d] \in {"idle", "writing", "exited"}
\* the relay has noticed that the session is over: a direction left its loop, a write failed, or shutdown
Noticed == closing \/ \E d \in Dirs : werr[d] \/ R[d] \in {"leaving", "retWait", "ret"}
\* C10: once noticed, Proxy returns
ReturnsOnceNoticed == Noticed ~> returned
\* C10: when Proxy returns, the upstream connection it opened has been closed
UpstreamClosed == returned => conn["sc"] = "closed"
\* C10: after the return (and the caller's close of the client connection) no goroutine of the session stays blocked
Blocked == {d \in Dirs : F[d] \in {"reading", "abandoned"}} \cup {d \in Dirs : W[d] # "exited"} \cup {d \in Dirs : R[d] # "ret"}
GoroutinesEnd == returned ~> (Blocked = {})
\* the writer never leaves before its reader
WriterOutlivesReader == \A d \in Dirs : W[d] = "exited" => R[d] = "ret"
=============================================================================
