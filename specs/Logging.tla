------------------------------ MODULE Logging ------------------------------
(***************************************************************************)
(* The three loggers of martian (har.Logger, marbl.Modifier,               *)
(* martianlog.Logger) and messageview snapshots, as far as they DECIDE     *)
(* things: which exchanges are recorded, what of a message is captured,    *)
(* how post data is represented, and what they may do to the message that  *)
(* is forwarded (nothing).  Byte equality is not expressible here: the     *)
(* harness evaluates it and reports it as flags that the trace             *)
(* specification requires to be TRUE.                                      *)
(*                                                                         *)
(* An exchange passes through: request modifiers (skip marker, then the    *)
(* loggers in stack order), round trip (the origin receives the request),  *)
(* response modifiers (loggers again), client receives.  Exchanges         *)
(* interleave freely: the loggers share one HAR log, one marbl stream and  *)
(* one text sink.                                                          *)
(*                                                                         *)
(* Deviations (the code before the repairs; each must violate an           *)
(* invariant):                                                             *)
(*   MarblIgnoresSkip     marbl.Modifier records exchanges marked to skip  *)
(*   NoBodyReplaced       a snapshot or the marbl body wrapper replaces    *)
(*                        http.NoBody: a POST with Content-Length: 0 is    *)
(*                        forwarded with chunked framing                   *)
(*   PostDataKeepsChunks  HAR post data of a chunked upload contains the   *)
(*                        chunk framing                                    *)
(***************************************************************************)
EXTENDS Naturals, Sequences, FiniteSets, TLC

CONSTANTS Ids, Cfgs,              \* Cfgs: logger configurations to explore
          ReqKinds, ResKinds,     \* message attribute records to explore
          MarblIgnoresSkip, NoBodyReplaced, PostDataKeepsChunks

Listed == {"text", "json"}        \* content types named in opt-in / opt-out lists
Selected(opt, ct) == CASE opt = "all" -> TRUE [] opt = "none" -> FALSE
                       [] opt = "optin" -> ct \in Listed [] opt = "optout" -> ct \notin Listed
HasBody(req) == req.framing \in {"cl", "chunked"}
\* har.postData (har.go:740-828)
PostKind(cfg, req) ==
  IF ~HasBody(req) THEN "absent"
  ELSE IF ~Selected(cfg.harPost, req.ct) THEN "mime"
  ELSE IF req.ct \in {"form", "multipart"} THEN "params" ELSE "text"
\* what the post data text holds for a chunked upload
PostText(cfg, req) == IF PostDataKeepsChunks /\ req.framing = "chunked" THEN "chunk-framed" ELSE "body"
\* har.NewResponse (har.go:587-627): the decoded body when body logging selects the content type
BodyCaptured(cfg, res) == Selected(cfg.harBody, res.ct)
\* does any logger read (snapshot or wrap) the request body?
ReadsRequestBody(cfg, req) ==
  \/ cfg.marbl
  \/ cfg.text /\ ~cfg.textHeadersOnly
  \/ cfg.har /\ HasBody(req) /\ Selected(cfg.harPost, req.ct)
\* framing of the request as the origin sees it
ForwardedFraming(cfg, req, skip) ==
  IF NoBodyReplaced /\ req.framing = "cl0" /\ req.method = "POST"
     /\ (cfg.marbl \/ (~skip /\ cfg.text /\ ~cfg.textHeadersOnly))
  THEN "chunked" ELSE req.framing

VARIABLES
  cfg,        \* the configuration of this run
  ex,         \* [Ids -> exchange record]
  harLog,     \* sequence of ids in the HAR log, in the order requests were recorded
  harResp,    \* ids whose HAR entry has a response
  marblIds, textIds,   \* ids recorded by the other two loggers
  originSaw,  \* [Ids -> framing the origin received, "-" before the round trip]
  clientGot   \* ids whose response reached the client
vars == <<cfg, ex, harLog, harResp, marblIds, textIds, originSaw, clientGot>>

NoEx == [st |-> "none", skip |-> FALSE]
Init == /\ cfg \in Cfgs /\ ex = [i \in Ids |-> NoEx] /\ harLog = <<>> /\ harResp = {}
        /\ marblIds = {} /\ textIds = {} /\ originSaw = [i \in Ids |-> "-"] /\ clientGot = {}

Begin(i, req, res, skip) ==
  /\ ex[i].st = "none"
  /\ ex' = [ex EXCEPT ![i] = [st |-> "reqmod", skip |-> skip, req |-> req, res |-> res]]
  /\ UNCHANGED <<cfg, harLog, harResp, marblIds, textIds, originSaw, clientGot>>
\* request modifiers: every configured logger sees the request unless the exchange skips logging
ReqMod(i) ==
  /\ ex[i].st = "reqmod"
  /\ harLog' = IF cfg.har /\ ~ex[i].skip THEN Append(harLog, i) ELSE harLog
  /\ marblIds' = IF cfg.marbl /\ (~ex[i].skip \/ MarblIgnoresSkip) THEN marblIds \cup {i} ELSE marblIds
  /\ textIds' = IF cfg.text /\ ~ex[i].skip THEN textIds \cup {i} ELSE textIds
  /\ ex' = [ex EXCEPT ![i].st = "roundtrip"]
  /\ UNCHANGED <<cfg, harResp, originSaw, clientGot>>
RoundTrip(i) ==
  /\ ex[i].st = "roundtrip"
  /\ originSaw' = [originSaw EXCEPT ![i] = ForwardedFraming(cfg, ex[i].req, ex[i].skip)]
  /\ ex' = [ex EXCEPT ![i].st = "resmod"]
  /\ UNCHANGED <<cfg, harLog, harResp, marblIds, textIds, clientGot>>
ResMod(i) ==
  /\ ex[i].st = "resmod"
  /\ harResp' = IF cfg.har /\ ~ex[i].skip THEN harResp \cup {i} ELSE harResp
  /\ ex' = [ex EXCEPT ![i].st = "write"]
  /\ UNCHANGED <<cfg, harLog, marblIds, textIds, originSaw, clientGot>>
ClientRecv(i) ==
  /\ ex[i].st = "write"
  /\ clientGot' = clientGot \cup {i}
  /\ ex' = [ex EXCEPT ![i].st = "done"]
  /\ UNCHANGED <<cfg, harLog, harResp, marblIds, textIds, originSaw>>

Next == \E i \in Ids : \/ \E req \in ReqKinds, res \in ResKinds, skip \in BOOLEAN : Begin(i, req, res, skip)
                       \/ ReqMod(i) \/ RoundTrip(i) \/ ResMod(i) \/ ClientRecv(i)
Spec == Init /\ [][Next]_vars

---------------------------------------------------------------------------
InLog(i) == \E k \in DOMAIN harLog : harLog[k] = i
\* C15: an exchange marked to skip logging is recorded by none of the loggers
SkipMeansUnrecorded == \A i \in Ids : ex[i].st # "none" /\ ex[i].skip => ~InLog(i) /\ i \notin marblIds /\ i \notin textIds /\ i \notin harResp
\* C15: the origin receives the framing the client sent, whatever is attached
ForwardedFramingUnchanged == \A i \in Ids : originSaw[i] # "-" => originSaw[i] = ex[i].req.framing
\* every exchange that does not skip is recorded by every configured logger once its request modifiers ran
RecordedWhenConfigured ==
  \A i \in Ids : ex[i].st \in {"roundtrip", "resmod", "write", "done"} /\ ~ex[i].skip =>
       /\ cfg.har => InLog(i)
       /\ cfg.marbl => i \in marblIds
       /\ cfg.text => i \in textIds
\* C16/C17: one HAR entry per exchange
NoDuplicateEntries == \A a, b \in DOMAIN harLog : harLog[a] = harLog[b] => a = b
\* C16: post data of an upload is the body, not its transfer coding
PostDataIsBody == \A i \in Ids : InLog(i) /\ PostKind(cfg, ex[i].req) = "text" => PostText(cfg, ex[i].req) = "body"
=============================================================================
