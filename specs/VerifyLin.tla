----------------------------- MODULE VerifyLin -----------------------------
(* Linearizability of traffic / API traffic / query / reset against Verify, *)
(* one verifier at a time.  call/ret events of concurrent goroutines; the   *)
(* effect is a silent Lin(p) step between them.  "newrun" events carry the  *)
(* tree of an independent run and the leaf in focus: a query's reply is     *)
(* compared for that verifier only.  The code locks each verifier (and each *)
(* group) separately, and the verify and reset handlers make two calls, so  *)
(* a query or reset that overlaps other calls is atomic per verifier, not   *)
(* for the tree as a whole; the property asks that no failure recorded      *)
(* before a query began is lost and none is duplicated, which per-verifier  *)
(* linearizability gives.  The harness submits every run once per leaf.     *)
EXTENDS Verify, Json, IOUtils, TLC

Trace == ndJsonDeserialize(IOEnv.TRACE)
Procs == {Trace[k].p : k \in {j \in DOMAIN Trace : Trace[j].ev # "newrun"}}

VARIABLES l, pend, focus
lvars == <<vars, l, pend, focus>>
None == [op |-> "none", lin |-> FALSE]
All == <<0, 0>>     \* focus of a sequential history: every leaf is compared (no path contains 0)

LInit == /\ l = 1 /\ pend = [p \in Procs |-> None] /\ focus = <<1>> /\ TLCSet(1, 0)
         /\ tree = V("expReq") /\ nops = 0
         /\ cnt = [p \in Leaves(tree, <<>>) |-> 0]
         /\ seen = [p \in Leaves(tree, <<>>) |-> FALSE]
         /\ last = [p \in Leaves(tree, <<>>) |-> 0]

NewRun == /\ l <= Len(Trace) /\ Trace[l].ev = "newrun"
          /\ \A p \in Procs : pend[p].op = "none"
          /\ tree' = Trace[l].tree /\ nops' = 0
          /\ cnt' = [p \in Leaves(Trace[l].tree, <<>>) |-> 0]
          /\ seen' = [p \in Leaves(Trace[l].tree, <<>>) |-> FALSE]
          /\ last' = [p \in Leaves(Trace[l].tree, <<>>) |-> 0]
          /\ focus' = IF "focus" \in DOMAIN Trace[l] THEN Trace[l].focus ELSE All
          /\ l' = l + 1 /\ UNCHANGED pend

Call == /\ l <= Len(Trace) /\ Trace[l].ev = "call"
        /\ pend[Trace[l].p].op = "none"
        /\ pend' = [pend EXCEPT ![Trace[l].p] =
                      [op |-> Trace[l].op, phase |-> Trace[l].phase, m |-> Trace[l].m, c |-> Trace[l].c,
                       lin |-> FALSE, res |-> last]]
        /\ l' = l + 1 /\ UNCHANGED <<vars, focus>>

Lin(p) == /\ pend[p].op # "none" /\ ~pend[p].lin
          /\ LET q == pend[p] IN
               CASE q.op = "traffic" -> Traffic(q.phase, q.m, q.c)
                 [] q.op = "api"     -> ApiTraffic(q.phase, q.m, q.c)
                 [] q.op = "query"   -> Query
                 [] q.op = "reset"   -> Reset
          /\ pend' = [pend EXCEPT ![p].lin = TRUE, ![p].res = last']
          /\ UNCHANGED <<l, focus>>

\* a query's reply lists, per verifier leaf, the number of errors reported
Ret == /\ l <= Len(Trace) /\ Trace[l].ev = "ret"
       /\ LET q == pend[Trace[l].p] IN
            /\ q.op # "none" /\ q.lin
            /\ q.op = "query" =>
                 /\ Len(Trace[l].out) = Cardinality(DOMAIN q.res)
                 /\ \A i \in DOMAIN Trace[l].out :
                      /\ Trace[l].out[i][1] \in DOMAIN q.res
                      /\ (focus = All \/ Trace[l].out[i][1] = focus) => q.res[Trace[l].out[i][1]] = Trace[l].out[i][2]
       /\ pend' = [pend EXCEPT ![Trace[l].p] = None]
       /\ l' = l + 1 /\ UNCHANGED <<vars, focus>>

LNext == Call \/ Ret \/ NewRun \/ \E p \in Procs : Lin(p)
LSpec == LInit /\ [][LNext]_lvars

NotAccepted == l <= Len(Trace)
HW == IF l > TLCGet(1) THEN TLCSet(1, l) ELSE TRUE
PrintHW == PrintT("HIGHWATER " \o ToString(TLCGet(1)))
=============================================================================
