SPECIFICATION TSpec
CONSTANTS
  MaxWidth = 2
  MaxPosts = 2
INVARIANT NotAccepted
CONSTRAINT HW
POSTCONDITION PrintHW
CHECK_DEADLOCK FALSE
