SPECIFICATION Spec
CONSTANTS Validity = 1
INVARIANTS NotAccepted NamesMatch
CONSTRAINT HW
POSTCONDITION PrintHW
CHECK_DEADLOCK FALSE
