SPECIFICATION TSpec
CONSTANTS
  Cap = 1
  MaxFrames = 100000
  StopOnEnd = TRUE
  AbortableSend = TRUE
INVARIANTS NotAccepted UpstreamClosed WriterOutlivesReader
CONSTRAINT HW
POSTCONDITION PrintHW
CHECK_DEADLOCK FALSE
