------------------------------- MODULE Verify -------------------------------
(***************************************************************************)
(* Verification state of a configuration containing verifiers              *)
(* (verify/verify_handlers.go, filter/filter.go:158-217,                   *)
(* fifo/fifo_group.go:150-222, martianhttp/martianhttp.go:81-140 and the   *)
(* verifiers status/header/method/url/querystring/failure/pingback).       *)
(*                                                                         *)
(* Tree nodes (uniform records): t = "ver" | "fifo" | "filter".            *)
(* A verifier leaf has a kind:                                             *)
(*   "expReq"  expectation on requests  (method, url, querystring)         *)
(*   "expRes"  expectation on responses (status)                           *)
(*   "expBoth" expectation on both      (header)                           *)
(*   "always"  every request is a failure (failure.Verifier)               *)
(*   "ping"    unmet until a matching request was seen (pingback)          *)
(* A message is "good" (meets every expectation, matches the pingback URL) *)
(* or "bad" (meets none); cnd is the truth value it gives the one filter   *)
(* condition.  Traffic is split in its two phases because the              *)
(* implementation evaluates them in separate critical sections.            *)
(* Property C13.                                                           *)
(***************************************************************************)
EXTENDS Naturals, Sequences, FiniteSets, SequencesExt

CONSTANTS MaxOps

Node(t, k, ks) == [t |-> t, k |-> k, kids |-> ks]
V(k) == Node("ver", k, <<>>)
F(ks) == Node("fifo", "", ks)
C(ks) == Node("filter", "", ks)     \* kids = <<then>> or <<then, else>>

Trees == { V("expReq"), V("expRes"), V("expBoth"), V("always"), V("ping"),
           F(<<V("expReq"), V("expBoth")>>),
           F(<<V("always"), V("ping"), V("expRes")>>),
           C(<<V("expBoth"), V("expRes")>>),
           C(<<V("expReq"), V("always")>>),
           C(<<V("ping")>>),
           F(<<C(<<V("expRes"), V("expBoth")>>), V("expReq")>>),
           C(<<F(<<V("expReq"), V("expRes")>>), F(<<V("always"), V("expBoth")>>)>>),
           F(<<F(<<V("expBoth")>>), F(<<F(<<V("expReq")>>), V("expRes")>>)>>) }

RECURSIVE Leaves(_, _)
Leaves(n, path) == IF n.t = "ver" THEN {path}
                   ELSE UNION {Leaves(n.kids[i], Append(path, i)) : i \in DOMAIN n.kids}
RECURSIVE At(_, _)
At(n, path) == IF path = <<>> THEN n ELSE At(n.kids[Head(path)], Tail(path))

\* verifier leaves a message with condition value c reaches
RECURSIVE Reached(_, _, _)
Reached(n, path, c) ==
  CASE n.t = "ver" -> {path}
    [] n.t = "fifo" -> UNION {Reached(n.kids[i], Append(path, i), c) : i \in DOMAIN n.kids}
    [] n.t = "filter" -> IF c THEN Reached(n.kids[1], Append(path, 1), c)
                         ELSE IF Len(n.kids) = 2 THEN Reached(n.kids[2], Append(path, 2), c) ELSE {}

VARIABLES tree,
          cnt,     \* [leaf path -> failures recorded since the last reset]
          seen,    \* [leaf path -> pingback seen since the last reset]
          last,    \* result of the last query: [leaf path -> number of errors reported]
          nops
vars == <<tree, cnt, seen, last, nops>>

Zero == [p \in Leaves(tree, <<>>) |-> 0]
Init == /\ tree \in Trees /\ nops = 0
        /\ cnt = [p \in Leaves(tree, <<>>) |-> 0]
        /\ seen = [p \in Leaves(tree, <<>>) |-> FALSE]
        /\ last = [p \in Leaves(tree, <<>>) |-> 0]

Tick == nops < MaxOps /\ nops' = nops + 1

\* failures one phase of one message adds at verifier kind k
Adds(k, phase, m) ==
  CASE k = "expReq"  -> IF phase = "req" /\ m = "bad" THEN 1 ELSE 0
    [] k = "expRes"  -> IF phase = "res" /\ m = "bad" THEN 1 ELSE 0
    [] k = "expBoth" -> IF m = "bad" THEN 1 ELSE 0
    [] k = "always"  -> IF phase = "req" THEN 1 ELSE 0
    [] k = "ping"    -> 0

Traffic(phase, m, c) ==
  /\ Tick
  /\ LET R == Reached(tree, <<>>, c) IN
       /\ cnt' = [p \in DOMAIN cnt |-> IF p \in R THEN cnt[p] + Adds(At(tree, p).k, phase, m) ELSE cnt[p]]
       /\ seen' = [p \in DOMAIN seen |-> seen[p] \/ (p \in R /\ At(tree, p).k = "ping" /\ phase = "req" /\ m = "good")]
  /\ UNCHANGED <<tree, last>>

\* requests addressed to the proxy's own API are never counted
\* (failure.Verifier counts every request that "hits" it; an API request must not)
ApiTraffic(phase, m, c) == Tick /\ UNCHANGED <<tree, cnt, seen, last>>

Errors(p) == IF At(tree, p).k = "ping" THEN (IF seen[p] THEN 0 ELSE 1) ELSE cnt[p]

Query == /\ Tick
         /\ last' = [p \in DOMAIN cnt |-> Errors(p)]
         /\ UNCHANGED <<tree, cnt, seen>>

Reset == /\ Tick
         /\ cnt' = [p \in DOMAIN cnt |-> 0]
         /\ seen' = [p \in DOMAIN seen |-> FALSE]
         /\ UNCHANGED <<tree, last>>

Next == \/ \E ph \in {"req", "res"}, m \in {"good", "bad"}, c \in BOOLEAN : Traffic(ph, m, c)
        \/ \E ph \in {"req", "res"}, c \in BOOLEAN : ApiTraffic(ph, "bad", c)
        \/ ApiTraffic("req", "good", TRUE)
        \/ Query \/ Reset
Spec == Init /\ [][Next]_vars

---------------------------------------------------------------------------
ResetClearsAll == [][Reset => \A p \in DOMAIN cnt : cnt'[p] = 0 /\ ~seen'[p]]_vars
QueryExact == [][Query => \A p \in DOMAIN cnt : last'[p] = Errors(p)]_vars
ApiNeverCounted == [][\A ph \in {"req", "res"}, m \in {"good", "bad"}, c \in BOOLEAN :
                        ApiTraffic(ph, m, c) => cnt' = cnt /\ seen' = seen]_vars
TypeOK == \A p \in DOMAIN cnt : cnt[p] <= MaxOps
=============================================================================
