----------------------------- MODULE CertCache -----------------------------
(***************************************************************************)
(* Forged-certificate cache of the MITM configuration (mitm/mitm.go:       *)
(* TLS 186-200, TLSForHost 205-224, cert 243-308).                         *)
(*                                                                         *)
(* Hosts are canonical names (port stripped, brackets removed); "" stands  *)
(* for "no SNI and no fallback host".  Time advances in ticks; a           *)
(* certificate issued at tick t is valid while now - t < Validity.         *)
(* certs is the sequence of certificates ever issued (index = serial).     *)
(*                                                                         *)
(* Fine-grained part (Concurrent = TRUE): requesters run the steps of      *)
(* cert() - Lookup under the read lock, VerifyHit, Issue, Store under the  *)
(* write lock - interleaved arbitrarily with each other and with Tick.     *)
(* Atomic part (Concurrent = FALSE): Get(h) is one whole call; it may      *)
(* reuse a certificate issued earlier for the same host only while it is   *)
(* valid (which of several valid ones is not prescribed: spellings of one  *)
(* host may be cached separately), otherwise it issues a fresh one (reuse  *)
(* is an optimisation the property does not demand, so a fresh certificate *)
(* is always allowed).  Property C06.                                      *)
(***************************************************************************)
EXTENDS Naturals, Sequences, FiniteSets, SequencesExt

CONSTANTS Hosts,        \* canonical host names, "" included when the no-name case is explored
          Validity, MaxTick, MaxCerts, MaxOps,
          Requesters,   \* ids of concurrent requesters
          Concurrent

VARIABLES now, certs, cache, last, nops,
          req            \* [r -> [host, pc, hit, got]]
vars == <<now, certs, cache, last, nops, req>>

Valid(s) == s # 0 /\ now - certs[s].at < Validity
NoLast == [refused |-> FALSE, serial |-> 0, fresh |-> FALSE, host |-> ""]

Init == /\ now = 0 /\ certs = <<>> /\ cache = [h \in Hosts |-> 0] /\ last = NoLast /\ nops = 0
        /\ req = [r \in Requesters |-> [host |-> "", pc |-> "idle", hit |-> 0, got |-> 0]]

Tick == /\ now < MaxTick /\ now' = now + 1 /\ nops < MaxOps /\ nops' = nops + 1
        /\ UNCHANGED <<certs, cache, last, req>>

\* ---- atomic view of one call
Get(h) ==
  /\ ~Concurrent /\ nops < MaxOps /\ nops' = nops + 1
  /\ IF h = "" THEN /\ last' = [NoLast EXCEPT !.refused = TRUE]
                    /\ UNCHANGED <<certs, cache>>
     ELSE \/ \E s \in DOMAIN certs :                              \* reuse, only while valid: any
             /\ certs[s].name = h /\ Valid(s)                      \* certificate issued for this host
             /\ last' = [refused |-> FALSE, serial |-> s, fresh |-> FALSE, host |-> h]
             /\ UNCHANGED <<certs, cache>>
          \/ /\ Len(certs) < MaxCerts                              \* issue and store
             /\ certs' = Append(certs, [name |-> h, at |-> now])
             /\ cache' = [cache EXCEPT ![h] = Len(certs) + 1]
             /\ last' = [refused |-> FALSE, serial |-> Len(certs) + 1, fresh |-> TRUE, host |-> h]
  /\ UNCHANGED <<now, req>>

\* ---- fine-grained view (mitm.go:249-307)
Start(r, h) == /\ Concurrent /\ req[r].pc = "idle" /\ h # "" /\ nops < MaxOps /\ nops' = nops + 1
               /\ req' = [req EXCEPT ![r] = [host |-> h, pc |-> "lookup", hit |-> 0, got |-> 0]]
               /\ UNCHANGED <<now, certs, cache, last>>
Lookup(r) == /\ req[r].pc = "lookup"
             /\ req' = [req EXCEPT ![r].hit = cache[req[r].host],
                                   ![r].pc = IF cache[req[r].host] # 0 THEN "verify" ELSE "issue"]
             /\ UNCHANGED <<now, certs, cache, last, nops>>
VerifyHit(r) == /\ req[r].pc = "verify"
                /\ req' = [req EXCEPT ![r].pc = IF Valid(req[r].hit) THEN "done" ELSE "issue",
                                      ![r].got = IF Valid(req[r].hit) THEN req[r].hit ELSE 0]
                /\ UNCHANGED <<now, certs, cache, last, nops>>
Issue(r) == /\ req[r].pc = "issue" /\ Len(certs) < MaxCerts
            /\ certs' = Append(certs, [name |-> req[r].host, at |-> now])
            /\ req' = [req EXCEPT ![r].got = Len(certs) + 1, ![r].pc = "store"]
            /\ UNCHANGED <<now, cache, last, nops>>
Store(r) == /\ req[r].pc = "store"
            /\ cache' = [cache EXCEPT ![req[r].host] = req[r].got]
            /\ req' = [req EXCEPT ![r].pc = "done"]
            /\ UNCHANGED <<now, certs, last, nops>>
\* the handshake uses the certificate at the moment the call returns
Return(r) == /\ req[r].pc = "done"
             /\ last' = [refused |-> FALSE, serial |-> req[r].got, fresh |-> FALSE, host |-> req[r].host]
             /\ req' = [req EXCEPT ![r].pc = "idle"]
             /\ UNCHANGED <<now, certs, cache, nops>>

Next == \/ Tick
        \/ \E h \in Hosts : Get(h)
        \/ \E r \in Requesters : (\E h \in Hosts : Start(r, h)) \/ Lookup(r) \/ VerifyHit(r) \/ Issue(r) \/ Store(r) \/ Return(r)
Spec == Init /\ [][Next]_vars

---------------------------------------------------------------------------
\* the certificate handed to a requester was issued for the host it asked for
ReturnedCertMatchesRequester == last.serial # 0 => certs[last.serial].name = last.host
\* ... and is inside its validity window when the call returns
ValidAtReturn == [][\A h \in Hosts : Get(h) => (last'.serial # 0 => now - certs'[last'.serial].at < Validity)]_vars
\* in the fine-grained view a certificate verified under the read lock may expire before
\* Return: the window is one Tick wide at most (checked as: it was valid when verified/issued)
ValidWhenChosen == \A r \in Requesters : (req[r].pc \in {"store", "done"} /\ req[r].got # 0) =>
                       certs[req[r].got].name = req[r].host
RefuseWhenNoName == [][Get("") => last'.refused /\ last'.serial = 0]_vars
CacheHoldsOwnName == \A h \in Hosts : cache[h] # 0 => certs[cache[h]].name = h
=============================================================================
