SPECIFICATION TSpec
CONSTANTS
  Ids = {1, 2, 3, 4, 5, 6, 7, 8, 9}
  Cfgs <- TraceCfgs
  ReqKinds = {}
  ResKinds = {}
  MarblIgnoresSkip = FALSE
  NoBodyReplaced = FALSE
  PostDataKeepsChunks = FALSE
INVARIANTS NotAccepted SkipMeansUnrecorded ForwardedFramingUnchanged NoDuplicateEntries
CONSTRAINT HW
POSTCONDITION PrintHW
CHECK_DEADLOCK FALSE
