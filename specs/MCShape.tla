------------------------------ MODULE MCShape ------------------------------
(* Model-checking instance of Shape: a small family of configurations.     *)
EXTENDS Shape
H(b, d, c) == [b |-> b, d |-> d, cnt |-> c]
C(b, c) == [b |-> b, cnt |-> c]
T(s, e, bw) == [s |-> s, e |-> e, bw |-> bw]
Sh(re, thr, halts, closes) == [re |-> re, maxbw |-> 0, thr |-> thr, halts |-> halts, closes |-> closes]
Cfg(shapes) == [wellformed |-> TRUE, defaultsOK |-> TRUE, shapes |-> shapes]
MCConfigs == {
  Cfg(<<Sh("A", <<>>, <<H(1, 2, 1)>>, <<C(2, 1)>>)>>),
  Cfg(<<Sh("A", <<T(0, 2, 1)>>, <<>>, <<C(1, -1)>>), Sh("B", <<T(1, -1, 1)>>, <<H(0, 1, 2)>>, <<>>)>>),
  Cfg(<<Sh("A", <<T(0, 2, 1), T(1, 3, 1)>>, <<>>, <<>>)>>),          \* overlapping throttles
  Cfg(<<Sh("B", <<>>, <<H(1, 1, 0)>>, <<>>)>>),                        \* zero count
  [wellformed |-> TRUE, defaultsOK |-> FALSE, shapes |-> <<Sh("A", <<>>, <<>>, <<C(0, 1)>>)>>]
}
\* a larger family, used only to simulate behaviours (scripts for the harness)
ShM(re, mb, thr, halts, closes) == [re |-> re, maxbw |-> mb, thr |-> thr, halts |-> halts, closes |-> closes]
SimConfigs == MCConfigs \cup {
  Cfg(<<ShM("A", 1, <<>>, <<>>, <<>>)>>),                                   \* small global bandwidth, shared by connections
  Cfg(<<ShM("A", 1, <<T(1, 2, 2)>>, <<H(2, 1, -1)>>, <<>>), Sh("B", <<>>, <<>>, <<C(0, 1)>>)>>),
  Cfg(<<Sh("A", <<T(0, 1, 1), T(1, 2, 1), T(3, -1, 1)>>, <<H(1, 1, 1), H(1, 2, 1)>>, <<C(1, 1), C(3, 2)>>)>>),
  Cfg(<<Sh("B", <<>>, <<H(0, 1, 1), H(3, 1, 1)>>, <<C(4, -1)>>)>>),
  Cfg(<<Sh("A", <<>>, <<>>, <<C(2, 2)>>), Sh("A", <<>>, <<H(1, 3, 1)>>, <<>>)>>),   \* the later shape replaces the earlier
  Cfg(<<Sh("bad", <<>>, <<>>, <<>>)>>),                                       \* url_regex does not compile
  Cfg(<<Sh("", <<>>, <<>>, <<>>)>>),                                          \* empty url_regex
  Cfg(<<Sh("A", <<T(2, 2, 1)>>, <<>>, <<>>)>>),                               \* empty throttle interval
  Cfg(<<Sh("A", <<T(0, 1, 0)>>, <<>>, <<>>)>>),                               \* zero bandwidth
  Cfg(<<Sh("A", <<T(0, -1, 1), T(2, 3, 1)>>, <<>>, <<>>)>>),                  \* open-ended throttle that is not the last
  Cfg(<<Sh("A", <<>>, <<H(0 - 1, 1, 1)>>, <<>>)>>),                           \* negative halt byte
  Cfg(<<Sh("B", <<>>, <<>>, <<C(1, 0)>>)>>),                                  \* zero count close
  Cfg(<<ShM("A", 0 - 1, <<>>, <<>>, <<>>)>>),                                 \* negative max bandwidth
  [wellformed |-> FALSE, defaultsOK |-> TRUE, shapes |-> <<>>]
}
=============================================================================
