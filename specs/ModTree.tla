------------------------------ MODULE ModTree ------------------------------
(***************************************************************************)
(* JSON modifier configuration trees (parse/parse.go:46-147,               *)
(* fifo/fifo_group.go:91-148,226-258, priority/priority_group.go:78-100,   *)
(* 167-225, filter/filter.go:124-157 and the *_filter.go JSON builders,    *)
(* martianhttp/martianhttp.go:162-191).                                    *)
(*                                                                         *)
(* A node is a record with uniform fields:                                 *)
(*   t     "leaf" | "fifo" | "prio" | "filter" | "unknown"                 *)
(*   sc    scope: "none" (absent) | "req" | "res" | "both" | "bogus"       *)
(*   fail  leaf returns an error         agg   fifo aggregates errors      *)
(*   cond  "c1" | "c2" for filters       kids  children (filter: then,else)*)
(*   prios priority of each child of a priority group                      *)
(* A leaf is identified by its path (child indices from the root).         *)
(* Eval gives the depth-first meaning of a tree for one message kind and   *)
(* one valuation of the filter conditions: the sequence of leaves that ran *)
(* and the sequence of errors reported.                                    *)
(*                                                                         *)
(* Mode "eval": one tree, one message.  Mode "reconf": a sequence of POSTs *)
(* of valid and invalid configurations to the configuration endpoint       *)
(* followed by a probe of both message kinds.  Property C12.               *)
(***************************************************************************)
EXTENDS Naturals, Sequences, FiniteSets, SequencesExt

CONSTANTS MaxWidth, MaxPosts

VARIABLES mode, tree, kind, env, phase, out,     \* eval part
          active, posts, lastStatus               \* reconf part
vars == <<mode, tree, kind, env, phase, out, active, posts, lastStatus>>

Node(t, sc, f, a, c, ks, ps) == [t |-> t, sc |-> sc, fail |-> f, agg |-> a, cond |-> c, kids |-> ks, prios |-> ps]
Leaf(sc, f)      == Node("leaf", sc, f, FALSE, "", <<>>, <<>>)
Fifo(ks, sc, a)  == Node("fifo", sc, FALSE, a, "", ks, <<>>)
Prio(ks, ps, sc) == Node("prio", sc, FALSE, FALSE, "", ks, ps)
Filt(c, ks, sc)  == Node("filter", sc, FALSE, FALSE, c, ks, <<>>)
NoTree           == Node("none", "none", FALSE, FALSE, "", <<>>, <<>>)

Scopes == {"none", "req", "res", "both"}
Conds == {"c1", "c2"}
SeqsUpTo(S, n) == UNION {[1..k -> S] : k \in 0..n}

T0 == {Leaf(sc, f) : sc \in Scopes, f \in BOOLEAN}
T1 == T0
      \cup {Fifo(ks, sc, a) : ks \in SeqsUpTo(T0, MaxWidth), sc \in Scopes, a \in BOOLEAN}
      \cup UNION {{Prio(ks, ps, sc) : ps \in [1..Len(ks) -> {1, 2}], sc \in Scopes} : ks \in SeqsUpTo(T0, MaxWidth)}
      \cup {Filt(c, ks, sc) : c \in Conds, ks \in [1..1 -> T0] \cup [1..2 -> T0], sc \in Scopes}

---------------------------------------------------------------------------
\* Meaning of a tree

Acts(n, k) == n.sc \in {"none", "both", k}
Empty == [tr |-> <<>>, er |-> <<>>]

\* children of a priority group in evaluation order: descending priority, the
\* later-listed first among equals (priority_group.go:86-93 inserts before the
\* first element with a priority <= the new one)
PrioOrder(n) == SortSeq([i \in 1..Len(n.kids) |-> i],
                        LAMBDA a, b : n.prios[a] > n.prios[b] \/ (n.prios[a] = n.prios[b] /\ a > b))

RECURSIVE Eval(_, _, _, _), EvalSeq(_, _, _, _, _, _, _)
Eval(n, path, k, e) ==
  IF ~Acts(n, k) THEN Empty
  ELSE CASE n.t = "leaf"   -> [tr |-> <<path>>, er |-> IF n.fail THEN <<path>> ELSE <<>>]
         [] n.t = "fifo"   -> EvalSeq(n, [i \in 1..Len(n.kids) |-> i], path, k, e, n.agg, Empty)
         [] n.t = "prio"   -> EvalSeq(n, PrioOrder(n), path, k, e, FALSE, Empty)
         [] n.t = "filter" -> IF e[n.cond] THEN Eval(n.kids[1], Append(path, 1), k, e)
                              ELSE IF Len(n.kids) = 2 THEN Eval(n.kids[2], Append(path, 2), k, e)
                              ELSE Empty
         [] OTHER -> Empty

\* children `order` of n evaluated left to right; the first error stops unless agg
EvalSeq(n, order, path, k, e, agg, acc) ==
  IF order = <<>> THEN acc
  ELSE LET i == Head(order)
           r == Eval(n.kids[i], Append(path, i), k, e)
           acc2 == [tr |-> acc.tr \o r.tr, er |-> acc.er \o r.er]
       IN IF r.er # <<>> /\ ~agg THEN acc2
          ELSE EvalSeq(n, Tail(order), path, k, e, agg, acc2)

\* A configuration is rejected as a whole if any node is unknown or has an unsupported scope.
RECURSIVE Valid(_)
Valid(n) == /\ n.t \in {"leaf", "fifo", "prio", "filter"}
            /\ n.sc \in Scopes
            /\ \A i \in DOMAIN n.kids : Valid(n.kids[i])

---------------------------------------------------------------------------
\* configurations offered to the reconfiguration endpoint
Cfgs == { Leaf("req", FALSE), Leaf("res", FALSE), Leaf("none", FALSE),
          Fifo(<<Leaf("none", FALSE), Leaf("res", TRUE)>>, "none", TRUE),
          Filt("c1", <<Leaf("req", FALSE), Leaf("none", FALSE)>>, "none"),
          Node("unknown", "none", FALSE, FALSE, "", <<>>, <<>>),                       \* unknown modifier
          Fifo(<<Leaf("none", FALSE), Node("unknown", "none", FALSE, FALSE, "", <<>>, <<>>)>>, "none", FALSE),
          Leaf("bogus", FALSE),                                                          \* unsupported scope
          Prio(<<Leaf("none", FALSE), Leaf("bogus", FALSE)>>, <<1, 2>>, "none"),
          Node("malformed", "none", FALSE, FALSE, "", <<>>, <<>>) }                     \* not JSON

Init == /\ phase = "in" /\ out = Empty
        /\ \/ /\ mode = "eval" /\ tree \in T1 /\ kind \in {"req", "res"} /\ env \in [Conds -> BOOLEAN]
              /\ active = NoTree /\ posts = 0 /\ lastStatus = 0
           \/ /\ mode = "reconf" /\ tree = NoTree /\ kind = "req" /\ env \in {[c \in Conds |-> TRUE], [c \in Conds |-> FALSE]}
              /\ active = NoTree /\ posts = 0 /\ lastStatus = 0

Evaluate == /\ mode = "eval" /\ phase = "in" /\ phase' = "out"
            /\ out' = Eval(tree, <<>>, kind, env)
            /\ UNCHANGED <<mode, tree, kind, env, active, posts, lastStatus>>

\* martianhttp.go:162-191: parse first; only a fully parsed configuration is installed
Post(c) == /\ mode = "reconf" /\ posts < MaxPosts /\ posts' = posts + 1
           /\ IF Valid(c) THEN active' = c /\ lastStatus' = 200
              ELSE active' = active /\ lastStatus' = 400
           /\ out' = Empty /\ phase' = "in"
           /\ UNCHANGED <<mode, tree, kind, env>>

Probe(k) == /\ mode = "reconf" /\ posts > 0 /\ phase = "in" /\ phase' = "out" /\ kind' = k
            /\ out' = Eval(active, <<>>, k, env)
            /\ UNCHANGED <<mode, tree, env, active, posts, lastStatus>>

Next == Evaluate \/ (\E c \in Cfgs : Post(c)) \/ (\E k \in {"req", "res"} : Probe(k))
Spec == Init /\ [][Next]_vars

---------------------------------------------------------------------------
\* Sanity of the meaning function (C12 is decided by binding Eval to the code)
RECURSIVE LeafPaths(_, _)
LeafPaths(n, path) == IF n.t = "leaf" THEN {path}
                      ELSE UNION {LeafPaths(n.kids[i], Append(path, i)) : i \in DOMAIN n.kids}
OnlyLeavesRun == phase = "out" => \A i \in DOMAIN out.tr :
                   out.tr[i] \in LeafPaths(IF mode = "eval" THEN tree ELSE active, <<>>)
EachLeafAtMostOnce == phase = "out" => \A i, j \in DOMAIN out.tr : i # j => out.tr[i] # out.tr[j]
ErrorsAreFailingLeavesOnce == phase = "out" =>
     /\ \A i, j \in DOMAIN out.er : i # j => out.er[i] # out.er[j]
     /\ \A i \in DOMAIN out.er : \E j \in DOMAIN out.tr : out.tr[j] = out.er[i]
RejectedKeepsActive == [][\A c \in Cfgs : (Post(c) /\ ~Valid(c)) => active' = active]_vars
=============================================================================
