SPECIFICATION Spec
CONSTANTS
  MaxMsgs = 2
  Lens = {0, 1, 2}
  LoseEmptyAtEnd = TRUE
  MarkerAsMessage = FALSE
INVARIANTS InOrder EndOnce AllAtEnd SinkFaithful Untouched TypeOK
