SPECIFICATION TSpec
CONSTANTS
  Streams = {1, 2, 3}
  MaxPerStream = 1000
  DataSizes = {}
  Pads = {}
  InitWin = 65535
  ConnInit = 65535
  Grants = {}
  MaxGrant = 1000000
  OutCap = 15
  SettingsDeltas = {}
  Ctls = {}
  Kinds = {"H", "D", "R", "P"}
  ContForcesES = FALSE
  EncodeAtEnqueue = FALSE
  CreditPayloadOnly = FALSE
INVARIANTS NotAccepted PerStreamFaithful Conservation ControlForwarded
CONSTRAINT HW
POSTCONDITION PrintHW
CHECK_DEADLOCK FALSE
