------------------------------- MODULE Range -------------------------------
(***************************************************************************)
(* Range requests answered by martian's synthetic-body modifiers           *)
(* (body/body_modifier.go:109-203, static/static_file_modifier.go:80-228)  *)
(* and path resolution of the static-file modifier (:80-86).               *)
(*                                                                         *)
(* Part 1 - a decision table: content length L, a list of byte-range specs *)
(*   FromTo(a,b) "a-b", From(a) "a-", Suffix(n) "-n", Bad (malformed).     *)
(* Serve resolves the list per RFC 7233 with the clamp rule of C20 and     *)
(* yields the set of allowed outcomes; the implementation must produce one *)
(* of them: Full (200, whole content), Partial(ranges) (206, exactly these *)
(* byte ranges, one part per range), or Unsat (416).                       *)
(*                                                                         *)
(* Part 2 - a path algebra: a request path is a sequence of segments; the  *)
(* static modifier must serve the file the cleaned path names beneath the  *)
(* root, or 404 - never anything outside the root.                         *)
(***************************************************************************)
EXTENDS Integers, Sequences, FiniteSets, SequencesExt

CONSTANTS MaxLen,      \* content lengths 0..MaxLen
          MaxSpecs,    \* range specs per header
          Huge,        \* stands for a number far beyond any content (and beyond int64)
          MaxSegs      \* path segments per request path

VARIABLES mode,   \* "range" | "path"
          len, specs,        \* range part: content length, Seq(spec)
          segs,              \* path part: Seq(segment)
          phase,             \* "ask" | "done"
          out                \* outcome chosen among the allowed ones
vars == <<mode, len, specs, segs, phase, out>>

Nums == 0..(MaxLen + 1) \cup {Huge}
FromTo(a, b) == [k |-> "fromto", a |-> a, b |-> b]
From(a)      == [k |-> "from", a |-> a, b |-> 0]
Suffix(n)    == [k |-> "suffix", a |-> n, b |-> 0]
Bad          == [k |-> "bad", a |-> 0, b |-> 0]
SpecSet == {FromTo(a, b) : a \in Nums, b \in Nums} \cup {From(a) : a \in Nums}
           \cup {Suffix(n) : n \in Nums} \cup {Bad}

RMin(x, y) == IF x < y THEN x ELSE y
RMax(x, y) == IF x > y THEN x ELSE y

\* Resolution of one spec against content length L:
\*   [v |-> "inv"]            syntactically invalid (header may be ignored or refused)
\*   [v |-> "unsat"]          cannot be satisfied
\*   [v |-> "ok", a, b]       first and last byte position, last clamped to L-1
Resolve(s, L) ==
  CASE s.k = "bad" -> [v |-> "inv", a |-> 0, b |-> 0]
    [] s.k = "fromto" ->
         IF s.a > s.b THEN [v |-> "inv", a |-> 0, b |-> 0]
         ELSE IF s.a >= L THEN [v |-> "unsat", a |-> 0, b |-> 0]
         ELSE [v |-> "ok", a |-> s.a, b |-> RMin(s.b, L - 1)]
    [] s.k = "from" ->
         IF s.a >= L THEN [v |-> "unsat", a |-> 0, b |-> 0]
         ELSE [v |-> "ok", a |-> s.a, b |-> L - 1]
    [] s.k = "suffix" ->
         IF s.a = 0 \/ L = 0 THEN [v |-> "unsat", a |-> 0, b |-> 0]
         ELSE [v |-> "ok", a |-> RMax(0, L - s.a), b |-> L - 1]

Full == [t |-> "full", r |-> <<>>]
Unsat == [t |-> "unsat", r |-> <<>>]
Partial(rs) == [t |-> "partial", r |-> rs]

Allowed(ss, L) ==
  LET res == [i \in DOMAIN ss |-> Resolve(ss[i], L)]
      ok  == SelectSeq(res, LAMBDA x : x.v = "ok")
      rng == [i \in DOMAIN ok |-> <<ok[i].a, ok[i].b>>]
  IN IF ss = <<>> THEN {Full}
     ELSE IF \E i \in DOMAIN res : res[i].v = "inv" THEN {Full, Unsat}
     ELSE IF ok = <<>> THEN (IF L = 0 THEN {Full, Unsat} ELSE {Unsat})
     ELSE IF Len(ok) = Len(res) THEN {Partial(rng)}
     ELSE {Partial(rng), Unsat}          \* some ranges unsatisfiable: serve the rest or refuse

---------------------------------------------------------------------------
\* Path algebra.  The tree:   <parent>/secret   <parent>/root/f   <parent>/root/sub/g
\* Segments are what the URL path holds after percent-decoding.
Segments == {"f", "sub", "g", "secret", "root", "..", ".", ""}

RECURSIVE Clean(_, _)
\* rooted clean: ".." at the root stays at the root (path.Clean of a rooted path)
Clean(ss, acc) ==
  IF ss = <<>> THEN acc
  ELSE LET h == Head(ss) IN
       IF h = "." \/ h = "" THEN Clean(Tail(ss), acc)
       ELSE IF h = ".." THEN Clean(Tail(ss), IF acc = <<>> THEN <<>> ELSE SubSeq(acc, 1, Len(acc) - 1))
       ELSE Clean(Tail(ss), Append(acc, h))

Served(ss) == LET c == Clean(ss, <<>>) IN
  IF c = <<"f">> THEN "f" ELSE IF c = <<"sub", "g">> THEN "g" ELSE "404"

---------------------------------------------------------------------------
Init == /\ phase = "ask" /\ out = Full
        /\ \/ /\ mode = "range" /\ len \in 0..MaxLen /\ segs = <<>>
              /\ specs \in UNION {[1..n -> SpecSet] : n \in 0..MaxSpecs}
           \/ /\ mode = "path" /\ len = 0 /\ specs = <<>>
              /\ segs \in UNION {[1..n -> Segments] : n \in 0..MaxSegs}

Serve == /\ phase = "ask" /\ phase' = "done"
         /\ IF mode = "range" THEN out' \in Allowed(specs, len)
            ELSE out' = [t |-> Served(segs), r |-> <<>>]
         /\ UNCHANGED <<mode, len, specs, segs>>

Next == Serve
Spec == Init /\ [][Next]_vars

---------------------------------------------------------------------------
\* C20 as invariants over the decision table
InContent == (mode = "range" /\ phase = "done" /\ out.t = "partial") =>
               \A i \in DOMAIN out.r : 0 <= out.r[i][1] /\ out.r[i][1] <= out.r[i][2] /\ out.r[i][2] < len
OnePartPerRange == (mode = "range" /\ phase = "done" /\ out.t = "partial") => Len(out.r) <= Len(specs) /\ Len(out.r) >= 1
UnderRoot == (mode = "path" /\ phase = "done") => out.t \in {"f", "g", "404"}
NeverSecret == (mode = "path" /\ phase = "done" /\ out.t # "404") =>
               LET c == Clean(segs, <<>>) IN \A i \in DOMAIN c : c[i] \notin {"secret", "root", ".."}
=============================================================================
