---------------------------- MODULE ShapeTrace ----------------------------
(***************************************************************************)
(* Validates what clients of a shaped listener saw against Shape.  Events: *)
(*   newrun                                                                *)
(*   post cfg accepted     a configuration was posted to the handler; cfg  *)
(*                         is the configuration as a record in real units  *)
(*                         (bytes, milliseconds); accepted = HTTP 200      *)
(*   accept c              a client connected                              *)
(*   req c m s n           the client asks for a URL matching shape m      *)
(*                         ("none": no shape) with range start s; the body *)
(*                         it will get has n bytes                         *)
(*   done c deliv closed ms ok   what arrived: deliv = 1 for a complete    *)
(*                         head (heads are normalised to length 1) plus    *)
(*                         the body bytes; closed = the connection ended   *)
(*                         before the response was complete; ms = time     *)
(*                         from request to end; ok = the body bytes are    *)
(*                         the requested ones, in order                    *)
(*   close c               the client closes its connection                *)
(*   resources leaked      bucket drain goroutines left over after every   *)
(*                         connection was closed                           *)
(* The write loop is silent; one Write call carries the whole response     *)
(* (the result does not depend on how the bytes are cut: checked by TLC on *)
(* Shape itself, and on the code by the harness's API mode).               *)
(***************************************************************************)
EXTENDS Shape, Json, IOUtils

Trace == ndJsonDeserialize(IOEnv.TRACE)
VARIABLES l, deadReq    \* deadReq: connections with a request outstanding on a connection that a close action has ended
tvars == <<vars, l, deadReq>>
Ev == Trace[l]
Is(e) == l <= Len(Trace) /\ Trace[l].ev = e
Consume == l' = l + 1
Keep == UNCHANGED deadReq

TInit == Init /\ l = 1 /\ deadReq = {} /\ TLCSet(1, 0)
NewRun == /\ Is("newrun") /\ Consume
          /\ active' = NoConfig /\ ver' = 0 /\ cnt' = [r \in Regexes |-> <<>>] /\ lastPost' = [cfg |-> NoConfig, accepted |-> TRUE]
          /\ nposts' = 0 /\ conn' = [c \in Conns |-> InitConn] /\ deadReq' = {}
TPost == Is("post") /\ Consume /\ Keep /\ Post(Ev.cfg) /\ Valid(Ev.cfg) = Ev.accepted
TAccept == Is("accept") /\ Consume /\ Keep /\ Accept(Ev.c)
TReq == Is("req") /\ Consume /\ Keep /\ Respond(Ev.c, Ev.m, Ev.s, 1, Ev.n)
\* a close action that fell on the last byte of the previous response ended the connection without
\* the client noticing: its next request gets nothing
ClosedAtEnd(c) == /\ conn[c].st = "closed" /\ conn[c].closedBy >= 0
                  /\ LET e == conn[c].log[Len(conn[c].log)] IN e.deliv = e.h + e.n
TReqDead == Is("req") /\ Consume /\ ClosedAtEnd(Ev.c) /\ deadReq' = deadReq \cup {Ev.c} /\ UNCHANGED vars
TDoneDead == Is("done") /\ Consume /\ Ev.c \in deadReq /\ Ev.closed /\ Ev.deliv = 0 /\ deadReq' = deadReq \ {Ev.c} /\ UNCHANGED vars
\* the response arrived completely ...
TDoneFull == /\ Is("done") /\ Consume /\ Keep /\ ~Ev.closed /\ Ev.ok
             /\ conn[Ev.c].deliv = Ev.deliv /\ Ev.ms >= conn[Ev.c].dlast
             /\ Finish(Ev.c)
\* ... or the connection was closed by a close action
TDoneCut == /\ Is("done") /\ Consume /\ Keep /\ Ev.ok /\ Ev.c \notin deadReq
            /\ conn[Ev.c].st = "closed" /\ conn[Ev.c].closedBy >= 0
            /\ LET e == conn[Ev.c].log[Len(conn[Ev.c].log)]
               IN e.deliv = Ev.deliv /\ Ev.ms >= e.dlast /\ (Ev.closed \/ e.deliv = e.h + e.n)
            /\ UNCHANGED vars
TClose == Is("close") /\ Consume /\ Keep /\ IF conn[Ev.c].st = "open" THEN CloseConn(Ev.c) ELSE UNCHANGED vars
TResources == Is("resources") /\ Consume /\ Keep /\ Ev.leaked = 0 /\ UNCHANGED vars
Silent(c) == /\ \/ WriteStep(c)
                \/ (conn[c].left > 0 /\ WriteCall(c, conn[c].left))
             /\ UNCHANGED <<l, deadReq>>
TNext == NewRun \/ TPost \/ TAccept \/ TReq \/ TReqDead \/ TDoneDead \/ TDoneFull \/ TDoneCut \/ TClose \/ TResources \/ \E c \in Conns : Silent(c)
TSpec == TInit /\ [][TNext]_tvars
NotAccepted == l <= Len(Trace)
HW == IF l > TLCGet(1) THEN TLCSet(1, l) ELSE TRUE
PrintHW == PrintT("HIGHWATER " \o ToString(TLCGet(1)))
=============================================================================
