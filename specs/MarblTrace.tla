---------------------------- MODULE MarblTrace ----------------------------
(* Validates a parsed marbl stream produced by concurrent loggers against  *)
(* Marbl: "newrun" gives each message's body script and header count,      *)
(* "frame" events are the frames in stream order, "done" gives what each   *)
(* consumer's Read calls returned.  TLC infers the interleaving.           *)
EXTENDS Marbl, Json, IOUtils, TLC

Trace == ndJsonDeserialize(IOEnv.TRACE)
VARIABLE l
tvars == <<vars, l>>

TInit == /\ l = 1 /\ TLCSet(1, 0)
         /\ mode = "log" /\ stream = <<>> /\ outcome = "none"
         /\ script = [m \in Msgs |-> <<>>] /\ nhdr = [m \in Msgs |-> 0]
         /\ hdrs = [m \in Msgs |-> 0] /\ step = [m \in Msgs |-> 0] /\ closed = [m \in Msgs |-> FALSE]
         /\ rets = [m \in Msgs |-> <<>>] /\ input = [type |-> "unknown", len |-> "zero", avail |-> "none"]

NewRun == /\ l <= Len(Trace) /\ Trace[l].ev = "newrun"
          /\ script' = [m \in Msgs |-> Trace[l].scripts[m]]
          /\ nhdr' = [m \in Msgs |-> Trace[l].nhdr[m]]
          /\ hdrs' = [m \in Msgs |-> 0] /\ step' = [m \in Msgs |-> 0] /\ closed' = [m \in Msgs |-> FALSE]
          /\ rets' = [m \in Msgs |-> <<>>] /\ stream' = <<>>
          /\ l' = l + 1 /\ UNCHANGED <<mode, input, outcome>>

Frame == /\ l <= Len(Trace) /\ Trace[l].ev = "frame"
         /\ LET f == Trace[l] IN
              /\ f.ok                                \* both parsers agree and the bytes are the body's
              /\ \/ f.k = "hdr" /\ SendHeader(f.m)
                 \/ f.k = "data" /\ Read(f.m)
              /\ LET g == stream'[Len(stream')] IN
                   g.m = f.m /\ g.k = f.k /\ g.idx = f.idx /\ g.term = f.term /\ g.n = f.n
         /\ l' = l + 1

Done == /\ l <= Len(Trace) /\ Trace[l].ev = "done"
        /\ rets[Trace[l].m] = Trace[l].rets
        /\ step[Trace[l].m] = Trace[l].reads        \* every Read produced its frame
        /\ hdrs[Trace[l].m] = nhdr[Trace[l].m]
        /\ l' = l + 1 /\ UNCHANGED vars

TNext == NewRun \/ Frame \/ Done
TSpec == TInit /\ [][TNext]_tvars
NotAccepted == l <= Len(Trace)
HW == IF l > TLCGet(1) THEN TLCSet(1, l) ELSE TRUE
PrintHW == PrintT("HIGHWATER " \o ToString(TLCGet(1)))
=============================================================================
