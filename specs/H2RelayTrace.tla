--------------------------- MODULE H2RelayTrace ---------------------------
(***************************************************************************)
(* Validates the events of ONE direction of a recorded HTTP/2 relay        *)
(* session against H2Relay (the harness splits a session into its "up"     *)
(* and "down" directions).  Events:                                        *)
(*   newrun iw cw      initial stream / connection window of the relay     *)
(*   src  k s es n pad cont prio     the source endpoint writes a frame    *)
(*   dst  k s es n prio ok           the destination read a frame; ok =    *)
(*                                   header fields decoded (with its own   *)
(*                                   HPACK state) / DATA bytes are those   *)
(*                                   that were sent                        *)
(*   grant s n         the destination writes WINDOW_UPDATE (s = 0: conn)  *)
(*   settings delta    the destination changes its initial window size     *)
(*   credit s n        the source read a WINDOW_UPDATE from the relay      *)
(*   ctl c / dctl c    a SETTINGS / PING / GOAWAY frame written / read     *)
(*   stall             something did not arrive although windows allow it  *)
(*   quiet / end       quiescence (during / at the end of a run)           *)
(* The relay's own steps (reading, queueing, applying grants, refilling    *)
(* the channel) are silent.                                                *)
(***************************************************************************)
EXTENDS H2Relay, Json, IOUtils

Trace == ndJsonDeserialize(IOEnv.TRACE)
VARIABLES l, creditSeen, creditSeenConn
tvars == <<vars, l, creditSeen, creditSeenConn>>
Ev == Trace[l]
Is(e) == l <= Len(Trace) /\ Trace[l].ev = e
Consume == l' = l + 1
Same == UNCHANGED <<creditSeen, creditSeenConn>>

TInit == Init /\ l = 1 /\ creditSeen = [s \in Streams |-> 0] /\ creditSeenConn = 0 /\ TLCSet(1, 0)

NewRun == /\ Is("newrun") /\ Consume
          /\ sent' = [s \in Streams |-> <<>>] /\ pipe' = <<>> /\ q' = [s \in Streams |-> <<>>]
          /\ out' = <<>> /\ wire' = <<>>
          /\ win' = [s \in Streams |-> Ev.iw] /\ connWin' = Ev.cw
          /\ granted' = [s \in Streams |-> Ev.iw] /\ grantedConn' = Ev.cw /\ gpipe' = <<>>
          /\ encCtr' = 0 /\ nGrants' = 0
          /\ accepted' = [s \in Streams |-> 0] /\ acceptedConn' = 0
          /\ credit' = [s \in Streams |-> 0] /\ creditConn' = 0
          /\ ctlSent' = <<>> /\ ctlPipe' = <<>> /\ ctlWire' = <<>>
          /\ creditSeen' = [s \in Streams |-> 0] /\ creditSeenConn' = 0

TSrc == /\ Is("src") /\ Consume /\ Same
        /\ LET f == Frame(Ev.k, Ev.s, Ev.es, Ev.n, Ev.pad, Ev.cont, Ev.prio) IN
             /\ sent' = [sent EXCEPT ![Ev.s] = Append(@, f)] /\ pipe' = Append(pipe, f)
        /\ UNCHANGED <<q, out, wire, win, connWin, granted, grantedConn, gpipe, encCtr, accepted, acceptedConn, credit, creditConn, nGrants, ctlSent, ctlPipe, ctlWire>>

TDst == /\ Is("dst") /\ Consume /\ Same /\ Ev.ok
        /\ out # <<>>
        /\ LET h == Head(out) IN h.k = Ev.k /\ h.s = Ev.s /\ h.es = Ev.es /\ h.n = Ev.n /\ h.prio = Ev.prio
        /\ WriterSend

TGrant == /\ Is("grant") /\ Consume /\ Same
          /\ gpipe' = Append(gpipe, [s |-> Ev.s, n |-> Ev.n])
          /\ IF Ev.s = 0 THEN grantedConn' = grantedConn + Ev.n /\ UNCHANGED granted
             ELSE granted' = [granted EXCEPT ![Ev.s] = @ + Ev.n] /\ UNCHANGED grantedConn
          /\ UNCHANGED <<sent, pipe, q, out, wire, win, connWin, encCtr, accepted, acceptedConn, credit, creditConn, nGrants, ctlSent, ctlPipe, ctlWire>>
TSettings == /\ Is("settings") /\ Consume /\ Same
             /\ gpipe' = Append(gpipe, [s |-> -1, n |-> Ev.delta])
             /\ granted' = [s \in Streams |-> granted[s] + Ev.delta]
             /\ UNCHANGED <<sent, pipe, q, out, wire, win, connWin, grantedConn, encCtr, accepted, acceptedConn, credit, creditConn, nGrants, ctlSent, ctlPipe, ctlWire>>
\* the source can only see credit the relay has issued
TCredit == /\ Is("credit") /\ Consume /\ UNCHANGED vars
           /\ IF Ev.s = 0 THEN /\ creditSeenConn' = creditSeenConn + Ev.n /\ creditSeenConn' <= creditConn /\ UNCHANGED creditSeen
              ELSE /\ creditSeen' = [creditSeen EXCEPT ![Ev.s] = @ + Ev.n] /\ creditSeen'[Ev.s] <= credit[Ev.s] /\ UNCHANGED creditSeenConn
TCtl == Is("ctl") /\ Consume /\ Same /\ SrcCtl(Ev.c)
TDctl == Is("dctl") /\ Consume /\ Same /\ ctlPipe # <<>> /\ Head(ctlPipe) = Ev.c /\ RelayCtl

\* quiescence: everything that the windows allow has arrived, and the credit is exact
\* (H2_CREDIT=off drops the credit conjuncts: the harness uses it to tell "credit inexact" from
\* "frames missing" when a trace was rejected at quiescence)
CreditChecked == IOEnv.H2_CREDIT # "off"
Settled == /\ pipe = <<>> /\ out = <<>> /\ gpipe = <<>> /\ ctlPipe = <<>>
           /\ \A s \in Streams : q[s] # <<>> => (OutFC(Head(q[s])) > win[s] \/ OutFC(Head(q[s])) > connWin)
           /\ CreditChecked => /\ \A s \in Streams : creditSeen[s] = accepted[s]
                               /\ creditSeenConn = acceptedConn
TEnd == Is("end") /\ Consume /\ Settled /\ UNCHANGED vars /\ Same
\* the harness saw no traffic for a while in the middle of a run: the same condition must hold
TQuiet == Is("quiet") /\ Consume /\ Settled /\ UNCHANGED vars /\ Same
Silent(A) == A /\ UNCHANGED <<l, creditSeen, creditSeenConn>>

TNext == NewRun \/ TSrc \/ TDst \/ TGrant \/ TSettings \/ TCredit \/ TCtl \/ TDctl \/ TEnd \/ TQuiet
         \/ Silent(RelayRead) \/ Silent(RelayGrant) \/ (\E s \in Streams : Silent(Refill(s)))
TSpec == TInit /\ [][TNext]_tvars
NotAccepted == l <= Len(Trace)
HW == IF l > TLCGet(1) THEN TLCSet(1, l) ELSE TRUE
PrintHW == PrintT("HIGHWATER " \o ToString(TLCGet(1)))
=============================================================================
