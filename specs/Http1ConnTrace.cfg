SPECIFICATION TSpec
CONSTANTS
  MaxReq = 12
  Faults = TRUE
  Mods = FALSE
  Shutdown = TRUE
  IgnoreWriteError = FALSE
INVARIANTS NotAccepted
CONSTRAINT HW
POSTCONDITION PrintHW
CHECK_DEADLOCK FALSE
