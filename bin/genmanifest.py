#!/usr/bin/env python3
# Regenerates /verif/MANIFEST.json from the table below (keeps it valid at all times).
import json
props=[json.loads(l) for l in open('/verif/properties.jsonl')]
B={
"C17":("model_checking",
 "HarLog.tla is checked exhaustively by TLC (all operation sequences up to the bound); every transition of its state graph and every behaviour up to depth 5 (quick) / 6 (thorough) is executed on a real har.Logger with the full projected log compared; concurrent histories (with harness body gates forcing overlap) are validated for linearizability against the same spec by TLC and run under the race detector.",
 "Trusted: TLC, the projection of Export() into (id, token, response tag). Concurrency coverage depends on the Go scheduler plus harness body gates.",
 "TLA+ spec HarLog + TLC exhaustive; state-graph and behaviour replay into har.Logger; linearizability trace validation by TLC; -race"),
"C11":("model_checking",
 "GrpcFraming.tla (parser/emitter over an abstract token stream) is checked exhaustively by TLC for every message list and every cut into DATA frames; deviation constants prove the invariants non-vacuous. Every graph transition and thousands of whole behaviours (cut sets) are executed on the real adapter+emitter for 4 encodings x 2 directions x payload block sizes up to 9000 (quick) / 70000 (thorough) bytes; the sink is reparsed by an independent length-prefix parser and decoders.",
 "Trusted: TLC; harness decoders (compress/gzip, compress/flate, snappy stream format); payload cuts are block-aligned (prefix cuts are byte-exact).",
 "TLA+ spec GrpcFraming + TLC exhaustive; state-graph and behaviour replay into h2/grpc adapter via verif hook"),
}
import os
extra=os.path.join('/verif/bin','manifest_table.json')
if os.path.exists(extra):
    for k,v in json.load(open(extra)).items(): B[k]=tuple(v)
checks=[]
for p in props:
    id=p['id']
    if id in B:
        cat,text,note,tech=B[id]
        checks.append({"property_id":id,"quick_cmd":"bin/check %s --tier quick"%id,"thorough_cmd":"bin/check %s --tier thorough"%id,
          "evidence_file":"/verif/evidence/%s.json"%id,"replay_cmd_template":"bin/check %s --replay {path}"%id,"engine":"tlc+go-harness",
          "level_claimed":{"category":cat,"text":text,"design_ref":"DESIGN.md §4 "+id},"level_note":note,"technique":tech})
na=[{"property_id":p['id'],"reason":"check not built yet in this round (planned, see DESIGN.md §4); not claimed until it passes on the unchanged tree"} for p in props if p['id'] not in B]
hooks=[l.split()[0] for l in os.popen("git -C /repo log --format='%h %s' | grep 'verif hook'").read().splitlines()]
m={"version":1,"setup_cmd":"bin/setup",
 "hooks":{"guard":"verif","enable":"go build -tags verif (bin/check builds the harness with the tag against /repo's working tree)","baseline_off_cmd":"cd /repo && go test -mod=mod -vet=off -count=1 -timeout 25m ./...","source_commits":hooks,"add_only":True},
 "engines":[{"name":"tlc+go-harness","path":"/verif/harness","serves_properties":sorted(B),"kind_free_text":"TLA+ specifications in /verif/specs checked by TLC; Go harness replays TLC state graphs/behaviours into the real code and validates recorded traces against trace specifications"}],
 "checks":checks,"not_applicable":na,
 "notes":"See DESIGN.md. Exit codes: 0 held, 1 VIOLATION, 2 inconclusive (infrastructure)."}
json.dump(m,open('/verif/MANIFEST.json','w'),indent=1)
print("claimed:",sorted(B))
