// Package c13 decides property C13 (verification state): histories of traffic, API traffic,
// queries and resets enumerated by Verify.tla are replayed on real verifier configurations
// (through martianhttp.Modifier and the verify handlers), and concurrent histories are
// validated for linearizability by TLC, with the concurrent driver built with -race.
package c13

import (
	"bufio"
	"encoding/json"
	"fmt"
	"io/ioutil"
	"math/rand"
	"net"
	"net/http"
	"net/http/httptest"
	"os"
	"path/filepath"
	"regexp"
	"sort"
	"strconv"
	"strings"
	"sync"
	"time"

	"github.com/google/martian/v3"
	"github.com/google/martian/v3/api"
	_ "github.com/google/martian/v3/failure"
	"github.com/google/martian/v3/fifo"
	_ "github.com/google/martian/v3/header"
	"github.com/google/martian/v3/martianhttp"
	_ "github.com/google/martian/v3/martianurl"
	_ "github.com/google/martian/v3/method"
	_ "github.com/google/martian/v3/pingback"
	"github.com/google/martian/v3/proxyutil"
	_ "github.com/google/martian/v3/querystring"
	"github.com/google/martian/v3/servemux"
	_ "github.com/google/martian/v3/status"
	"github.com/google/martian/v3/verify"

	"verif/harness/core"
)

func init() {
	core.Register("C13", Run)
	core.RegisterChild("c13-conc", concChild)
}

type node struct {
	T    string  `json:"t"`
	K    string  `json:"k"`
	Kids []*node `json:"kids"`
}

func nodeOf(v core.Val) *node {
	n := &node{T: v.Get("t").S, K: v.Get("k").S, Kids: []*node{}}
	for _, k := range v.Get("kids").Elems {
		n.Kids = append(n.Kids, nodeOf(k))
	}
	return n
}

// leaf describes one verifier leaf of a rendered tree.
type leaf struct {
	path  []int
	kind  string
	ident string
}

// goodHost is the host the "good" message is addressed to (the live origin in live mode).
var goodHost = "good.example"

type rendered struct {
	json   string
	leaves []leaf
}

func pathKey(p []int) string {
	s := "r"
	for _, i := range p {
		s += "." + strconv.Itoa(i)
	}
	return s
}

// render builds the JSON configuration; distinct=true picks concrete verifier types whose
// error messages identify the leaf.
func render(n *node, variant int, distinct bool) *rendered {
	r := &rendered{}
	idx := 0
	var rec func(n *node, path []int) string
	rec = func(n *node, path []int) string {
		switch n.T {
		case "ver":
			idx++
			lf := leaf{path: append([]int{}, path...), kind: n.K}
			var js string
			switch n.K {
			case "expReq":
				choice := (variant + idx) % 3
				if distinct {
					choice = 2
				}
				switch choice {
				case 0:
					js, lf.ident = `{"method.Verifier":{"method":"GET"}}`, "method"
				case 1:
					js, lf.ident = `{"url.Verifier":{"host":"`+goodHost+`"}}`, "url"
				default:
					js, lf.ident = fmt.Sprintf(`{"querystring.Verifier":{"name":"k%d","value":"v"}}`, idx), fmt.Sprintf("q%d", idx)
				}
			case "expRes":
				js, lf.ident = `{"status.Verifier":{"statusCode":200}}`, "status"
			case "expBoth":
				js, lf.ident = fmt.Sprintf(`{"header.Verifier":{"name":"X-Exp-%d","value":"v"}}`, idx), fmt.Sprintf("h%d", idx)
			case "always":
				js, lf.ident = fmt.Sprintf(`{"failure.Verifier":{"message":"fail-%d"}}`, idx), fmt.Sprintf("f%d", idx)
			case "ping":
				js, lf.ident = `{"pingback.Verifier":{"host":"`+goodHost+`","path":"/ok"}}`, "ping"
			}
			r.leaves = append(r.leaves, lf)
			return js
		case "fifo":
			var ks []string
			for i, k := range n.Kids {
				ks = append(ks, rec(k, append(append([]int{}, path...), i+1)))
			}
			return `{"fifo.Group":{"modifiers":[` + strings.Join(ks, ",") + `]}}`
		case "filter":
			s := `{"header.Filter":{"name":"X-C1","value":"yes","modifier":` + rec(n.Kids[0], append(append([]int{}, path...), 1))
			if len(n.Kids) == 2 {
				s += `,"else":` + rec(n.Kids[1], append(append([]int{}, path...), 2))
			}
			return s + "}}"
		}
		return "{}"
	}
	r.json = rec(n, nil)
	return r
}

var (
	reQ = regexp.MustCompile(`key (k\d+)`)
	reH = regexp.MustCompile(`X-Exp-(\d+)`)
	reF = regexp.MustCompile(`fail-(\d+)`)
)

func identOf(msg string) string {
	switch {
	case strings.Contains(msg, "method verification"):
		return "method"
	case strings.Contains(msg, "url verify failure"):
		return "url"
	case strings.Contains(msg, "status code verify"):
		return "status"
	case strings.Contains(msg, "pingback never occurred"):
		return "ping"
	}
	if m := reQ.FindStringSubmatch(msg); m != nil {
		return "q" + m[1][1:]
	}
	if m := reH.FindStringSubmatch(msg); m != nil {
		return "h" + m[1]
	}
	if m := reF.FindStringSubmatch(msg); m != nil {
		return "f" + m[1]
	}
	return "?" + msg
}

// sys is a live configuration with its verification endpoints.
type sys struct {
	cfg *martianhttp.Modifier
	vh  *verify.Handler
	rh  *verify.ResetHandler
	r   *rendered
	n   int
}

func newSys(r *rendered) (*sys, error) {
	s := &sys{cfg: martianhttp.NewModifier(), vh: verify.NewHandler(), rh: verify.NewResetHandler(), r: r}
	rec := httptest.NewRecorder()
	s.cfg.ServeHTTP(rec, httptest.NewRequest("POST", "/configure", strings.NewReader(r.json)))
	if rec.Code != 200 {
		return nil, fmt.Errorf("configuration rejected (%d): %s: %s", rec.Code, rec.Body.String(), r.json)
	}
	s.vh.SetRequestVerifier(s.cfg)
	s.vh.SetResponseVerifier(s.cfg)
	s.rh.SetRequestVerifier(s.cfg)
	s.rh.SetResponseVerifier(s.cfg)
	return s, nil
}

func (s *sys) message(m string, c bool, tag string) (*http.Request, *http.Response) {
	cv := "no"
	if c {
		cv = "yes"
	}
	var req *http.Request
	if m == "good" {
		q := []string{}
		for i := 1; i <= 8; i++ {
			q = append(q, fmt.Sprintf("k%d=v", i))
		}
		req, _ = http.NewRequest("GET", "http://good.example/ok?"+strings.Join(q, "&"), nil)
		for i := 1; i <= 8; i++ {
			req.Header.Set(fmt.Sprintf("X-Exp-%d", i), "v")
		}
	} else {
		req, _ = http.NewRequest("DELETE", "http://bad.example/nope/"+tag, nil)
	}
	req.Header.Set("X-C1", cv)
	status := 200
	if m == "bad" {
		status = 500
	}
	res := proxyutil.NewResponse(status, nil, req)
	res.Header.Set("X-C1", cv)
	if m == "good" {
		for i := 1; i <= 8; i++ {
			res.Header.Set(fmt.Sprintf("X-Exp-%d", i), "v")
		}
	}
	return req, res
}

// traffic runs one phase of one message through the configuration.
func (s *sys) traffic(phase, m string, c, api bool) {
	s.n++
	req, res := s.message(m, c, strconv.Itoa(s.n))
	ctx, rm, _ := martian.TestContext(req, nil, nil)
	defer rm()
	if api {
		ctx.APIRequest()
	}
	if phase == "req" {
		s.cfg.ModifyRequest(req)
	} else {
		s.cfg.ModifyResponse(res)
	}
}

func (s *sys) query() (map[string]int, error) {
	rec := httptest.NewRecorder()
	s.vh.ServeHTTP(rec, httptest.NewRequest("GET", "/verify", nil))
	var out struct {
		Errors []struct {
			Message string `json:"message"`
		} `json:"errors"`
	}
	if err := json.Unmarshal(rec.Body.Bytes(), &out); err != nil {
		return nil, fmt.Errorf("verify handler returned %q: %v", rec.Body.String(), err)
	}
	bag := map[string]int{}
	for _, e := range out.Errors {
		bag[identOf(e.Message)]++
	}
	return bag, nil
}

func (s *sys) reset() error {
	rec := httptest.NewRecorder()
	s.rh.ServeHTTP(rec, httptest.NewRequest("POST", "/verify/reset", nil))
	if rec.Code != 204 {
		return fmt.Errorf("reset handler status %d", rec.Code)
	}
	return nil
}

func bagString(b map[string]int) string {
	var ks []string
	for k, n := range b {
		if n > 0 {
			ks = append(ks, fmt.Sprintf("%s=%d", k, n))
		}
	}
	sort.Strings(ks)
	return "[" + strings.Join(ks, " ") + "]"
}

type machine struct {
	s      *sys
	last   string
	detail string
}

func (m *machine) Apply(action string, args []core.Val) error {
	switch action {
	case "Traffic":
		m.s.traffic(args[0].S, args[1].S, args[2].B, false)
	case "ApiTraffic":
		m.s.traffic(args[0].S, args[1].S, args[2].B, true)
	case "Query":
		b, err := m.s.query()
		if err != nil {
			return err
		}
		m.last = bagString(b)
	case "Reset":
		return m.s.reset()
	default:
		return fmt.Errorf("unknown action %s", action)
	}
	return nil
}
func (m *machine) Project() string { return "last=" + m.last }
func (m *machine) Detail() string  { return m.s.r.json }

func leavesOf(r *rendered) map[string]string {
	out := map[string]string{}
	for _, l := range r.leaves {
		out[pathKey(l.path)] = l.ident
	}
	return out
}

func abstractFor(variant int) func(core.State) string {
	return func(s core.State) string {
		r := render(nodeOf(s["tree"]), variant, false)
		ids := leavesOf(r)
		bag := map[string]int{}
		for _, p := range s["last"].Pairs {
			bag[ids[pathKey(p[0].Ints())]] += p[1].Int()
		}
		if s["last"].K == core.KSeq { // a function with domain 1..n prints as a tuple; not expected here
			return "last=?"
		}
		return "last=" + bagString(bag)
	}
}

// Run is the C13 check.
func Run(c *core.Ctx) {
	c.Describe(
		"TLC enumerates, for 13 verifier-bearing trees (verifiers at the root, under fifo groups, under both branches of filters, nested groups) every history of <= MaxOps operations over request/response phases of good and bad traffic with both filter valuations, API traffic, queries and resets. Each tree is rendered to JSON over status/header/method/url/querystring/failure/pingback verifiers, fifo.Group and header.Filter, installed through martianhttp.Modifier, and driven through ModifyRequest/ModifyResponse and the verify and reset HTTP handlers; every (state, action) pair and sampled whole behaviours are replayed and the bag of reported errors compared. Concurrent histories (traffic goroutines vs queries and resets) are recorded as call/ret events and validated for linearizability by TLC (VerifyLin); the concurrent driver runs with the race detector. Non-trivial = transitions that query or reset after at least one recorded failure, API traffic.",
		"Verify.tla action properties ResetClearsAll, QueryExact, ApiNeverCounted checked by TLC; binding: graph/behaviour replay (model->code) and linearizability witness search (code->model) under -race.",
		true,
		"errors are attributed to verifier leaves by their message text; leaves whose messages cannot be told apart (two method/url/status verifiers) are compared as one bag entry",
		"concurrency coverage depends on the Go scheduler")
	maxOps := c.Pick(4, 5)
	cfg := fmt.Sprintf("SPECIFICATION Spec\nCONSTANTS MaxOps = %d\nINVARIANTS TypeOK\nPROPERTIES ResetClearsAll QueryExact ApiNeverCounted\n", maxOps)
	os.WriteFile(filepath.Join(c.Work, "Verify_run.cfg"), []byte(cfg), 0o644)
	dot := filepath.Join(c.Work, "verify.dot")
	res, err := core.RunTLC(c.Work, core.TLCOpts{Module: "Verify", Cfg: "Verify_run.cfg", Workers: 8, Timeout: 20 * time.Minute,
		Args: []string{"-dump", "dot,actionlabels", dot}})
	if err != nil || !res.OK() {
		c.Inconclusive("TLC on Verify failed: %v %s", err, tail(res))
		return
	}
	c.Model(res)
	g, err := core.ParseDot(dot)
	if err != nil {
		c.Inconclusive("parse graph: %v", err)
		return
	}
	c.ModelGraph(g)
	variants := c.Pick(3, 6)
	for v := 0; v < variants; v++ {
		variant := v + int(c.Seed%3)
		opts := core.ReplayOpts{
			SigPrefix: fmt.Sprintf("v%d:", variant),
			NewFor: func(init core.State) core.Machine {
				s, err := newSys(render(nodeOf(init["tree"]), variant, false))
				if err != nil {
					panic(err)
				}
				return &machine{s: s, last: "[]"}
			},
			Abstract: abstractFor(variant),
			NonTrivial: func(from core.State, e core.Edge, to core.State) string {
				total := 0
				for _, p := range from["cnt"].Pairs {
					total += p[1].Int()
				}
				if (e.Action == "Query" || e.Action == "Reset") && total > 0 || e.Action == "ApiTraffic" {
					return from["tree"].String() + from["cnt"].String() + from["seen"].String() + e.Label
				}
				return ""
			},
		}
		core.ReplayGraph(c, g, opts)
		opts.SigPrefix = fmt.Sprintf("beh%d:", variant)
		core.ReplayPaths(c, g, opts, maxOps, c.Pick(15000, 150000))
	}
	concurrent(c)
	live(c)
}

// ---- live proxy wired like cmd/proxy: API forwarder in front of the configurable modifier;
// ordinary exchanges, API calls (verify / reset through the proxy's own API host) and queries
// share keep-alive client connections. The sequential history is validated by TLC.
type liveConn struct {
	conn net.Conn
	br   *bufio.Reader
}

func (lc *liveConn) do(req *http.Request) (int, []byte, error) {
	lc.conn.SetDeadline(time.Now().Add(10 * time.Second))
	if err := req.WriteProxy(lc.conn); err != nil {
		return 0, nil, err
	}
	res, err := http.ReadResponse(lc.br, req)
	if err != nil {
		return 0, nil, err
	}
	defer res.Body.Close()
	b, err := ioutil.ReadAll(res.Body)
	return res.StatusCode, b, err
}

func live(c *core.Ctx) {
	if !c.Want("live:") {
		return
	}
	origin := httptest.NewServer(http.HandlerFunc(func(rw http.ResponseWriter, req *http.Request) {
		rw.Header().Set("X-C1", req.Header.Get("X-C1"))
		if req.URL.Path == "/ok" {
			for i := 1; i <= 8; i++ {
				rw.Header().Set(fmt.Sprintf("X-Exp-%d", i), "v")
			}
			rw.WriteHeader(200)
			return
		}
		rw.WriteHeader(500)
	}))
	defer origin.Close()
	goodHost = origin.Listener.Addr().String()
	defer func() { goodHost = "good.example" }()
	rec := &core.Recorder{}
	runs := c.Pick(14, 70)
	rng := rand.New(rand.NewSource(c.Seed))
	for r := 0; r < runs; r++ {
		var t node
		tj := concTrees[(r+int(c.Seed))%len(concTrees)]
		json.Unmarshal([]byte(tj), &t)
		rd := render(&t, 0, true)
		s, err := newSys(rd)
		if err != nil {
			c.Inconclusive("live: %v", err)
			return
		}
		ids := map[string][]int{}
		for _, l := range rd.leaves {
			ids[l.ident] = l.path
		}
		mux := http.NewServeMux()
		for pattern, h := range map[string]http.Handler{"/configure": s.cfg, "/verify": s.vh, "/verify/reset": s.rh} {
			mux.Handle("martian.proxy"+pattern, h)
			mux.Handle(pattern, h)
		}
		apis := httptest.NewServer(mux)
		ahost, aport, _ := net.SplitHostPort(apis.Listener.Addr().String())
		port, _ := strconv.Atoi(aport)
		proxy := martian.NewProxy()
		topg := fifo.NewGroup()
		apif := servemux.NewFilter(mux)
		apif.SetRequestModifier(api.NewForwarder(ahost, port))
		topg.AddRequestModifier(apif)
		topg.AddRequestModifier(s.cfg)
		topg.AddResponseModifier(s.cfg)
		proxy.SetRequestModifier(topg)
		proxy.SetResponseModifier(topg)
		l, err := net.Listen("tcp", "127.0.0.1:0")
		if err != nil {
			c.Inconclusive("live: %v", err)
			return
		}
		go proxy.Serve(l)
		var conns []*liveConn
		for i := 0; i < 2; i++ {
			cn, err := net.Dial("tcp", l.Addr().String())
			if err != nil {
				c.Inconclusive("live: %v", err)
				return
			}
			conns = append(conns, &liveConn{conn: cn, br: bufio.NewReader(cn)})
		}
		var leafPaths [][]int
		for _, l := range rd.leaves {
			leafPaths = append(leafPaths, l.path)
		}
		rec.Emit("newrun", "tree", json.RawMessage(tj), "leaves", leafPaths)
		ohost := origin.Listener.Addr().String()
		ok := true
		var ops []string
		for i := 0; i < 8 && ok; i++ {
			lc := conns[0]
			if rng.Intn(4) == 0 {
				lc = conns[1]
			}
			switch op := []string{"good", "bad", "bad", "query", "query", "reset"}[rng.Intn(6)]; op {
			case "good", "bad":
				cnd := rng.Intn(2) == 0
				cv := "no"
				if cnd {
					cv = "yes"
				}
				var req *http.Request
				if op == "good" {
					// the url/pingback verifiers of the distinct rendering expect host good.example: send it
					// as Host header while dialling the origin through the proxy's absolute-URI form
					q := []string{}
					for k := 1; k <= 8; k++ {
						q = append(q, fmt.Sprintf("k%d=v", k))
					}
					req, _ = http.NewRequest("GET", "http://"+ohost+"/ok?"+strings.Join(q, "&"), nil)
					for k := 1; k <= 8; k++ {
						req.Header.Set(fmt.Sprintf("X-Exp-%d", k), "v")
					}
				} else {
					req, _ = http.NewRequest("DELETE", "http://"+ohost+"/nope", nil)
				}
				req.Header.Set("X-C1", cv)
				ops = append(ops, fmt.Sprintf("%s(%v)", op, cnd))
				rec.Emit("call", "p", 1, "op", "traffic", "phase", "req", "m", op, "c", cnd)
				rec.Emit("ret", "p", 1, "out", []int{})
				rec.Emit("call", "p", 1, "op", "traffic", "phase", "res", "m", op, "c", cnd)
				rec.Emit("ret", "p", 1, "out", []int{})
				if _, _, err := lc.do(req); err != nil {
					c.Inconclusive("live exchange failed: %v", err)
					ok = false
				}
			case "query":
				ops = append(ops, "query")
				req, _ := http.NewRequest("GET", "http://martian.proxy/verify", nil)
				code, body, err := lc.do(req)
				if err != nil || code != 200 {
					c.Inconclusive("live verify query failed: %d %v", code, err)
					ok = false
					break
				}
				var out struct {
					Errors []struct {
						Message string `json:"message"`
					} `json:"errors"`
				}
				json.Unmarshal(body, &out)
				bag := map[string]int{}
				for _, e := range out.Errors {
					bag[identOf(e.Message)]++
				}
				res := [][2]interface{}{}
				for id, path := range ids {
					res = append(res, [2]interface{}{path, bag[id]})
					delete(bag, id)
				}
				for id, n := range bag {
					res = append(res, [2]interface{}{[]int{99}, fmt.Sprintf("%s x%d", id, n)})
				}
				rec.Emit("call", "p", 1, "op", "query", "phase", "req", "m", "good", "c", false)
				rec.Emit("ret", "p", 1, "out", res)
			case "reset":
				ops = append(ops, "reset")
				req, _ := http.NewRequest("POST", "http://martian.proxy/verify/reset", nil)
				code, _, err := lc.do(req)
				if err != nil || code != 204 {
					c.Inconclusive("live reset failed: %d %v", code, err)
					ok = false
					break
				}
				rec.Emit("call", "p", 1, "op", "reset", "phase", "req", "m", "good", "c", false)
				rec.Emit("ret", "p", 1, "out", []int{})
			}
		}
		for _, lc := range conns {
			lc.conn.Close()
		}
		proxy.Close()
		apis.Close()
		c.Eval(fmt.Sprintf("live:%d:%v", r%len(concTrees), ops))
		if r%5 == 0 {
			c.Sample(map[string]interface{}{"live_proxy_config": json.RawMessage(rd.json), "ops": ops})
		}
	}
	out := filepath.Join(c.Work, "live.ndjson")
	rec.WriteFile(out)
	v, err := core.ValidateTrace(c.Work, "VerifyLin", "VerifyLin.cfg", out, 10*time.Minute, nil)
	if err != nil || v.Infra {
		c.Inconclusive("trace validation failed to run: %v %s", err, tail(v.Res))
		return
	}
	c.Trace(runs)
	if !v.Accepted {
		lines := strings.Split(string(rec.Bytes()), "\n")
		lo, hi := v.HighWater-12, v.HighWater+1
		if lo < 0 {
			lo = 0
		}
		if hi > len(lines) {
			hi = len(lines)
		}
		c.Violation("live:rejected", fmt.Sprintf("history through a live proxy (API forwarder + configurable modifier, keep-alive connections) is not a behaviour of Verify; first unmatched event is line %d:\n%s", v.HighWater, strings.Join(lines[lo:hi], "\n")),
			map[string]interface{}{"line": v.HighWater})
	}
}

func tail(r *core.TLCResult) string {
	if r == nil {
		return ""
	}
	return r.Tail(30)
}

// ---- concurrency: call/ret histories validated by TLC, driver under -race

var concTrees = []string{
	`{"t":"ver","k":"expBoth","kids":[]}`,
	`{"t":"ver","k":"ping","kids":[]}`,
	`{"t":"filter","k":"","kids":[{"t":"ver","k":"expBoth","kids":[]},{"t":"ver","k":"expRes","kids":[]}]}`,
	`{"t":"filter","k":"","kids":[{"t":"ver","k":"expReq","kids":[]},{"t":"ver","k":"always","kids":[]}]}`,
	`{"t":"fifo","k":"","kids":[{"t":"ver","k":"always","kids":[]},{"t":"ver","k":"ping","kids":[]},{"t":"ver","k":"expRes","kids":[]}]}`,
	`{"t":"fifo","k":"","kids":[{"t":"filter","k":"","kids":[{"t":"ver","k":"expRes","kids":[]},{"t":"ver","k":"expBoth","kids":[]}]},{"t":"ver","k":"expReq","kids":[]}]}`,
	`{"t":"filter","k":"","kids":[{"t":"fifo","k":"","kids":[{"t":"ver","k":"expReq","kids":[]},{"t":"ver","k":"expRes","kids":[]}]},{"t":"fifo","k":"","kids":[{"t":"ver","k":"always","kids":[]},{"t":"ver","k":"expBoth","kids":[]}]}]}`,
}

func concChild(args []string) int {
	// args: seed procs ops runs outfile
	seed, _ := strconv.ParseInt(args[0], 10, 64)
	procs, _ := strconv.Atoi(args[1])
	ops, _ := strconv.Atoi(args[2])
	runs, _ := strconv.Atoi(args[3])
	rec := &core.Recorder{}
	for r := 0; r < runs; r++ {
		var t node
		tj := concTrees[(r+int(seed))%len(concTrees)]
		json.Unmarshal([]byte(tj), &t)
		rd := render(&t, 0, true)
		s, err := newSys(rd)
		if err != nil {
			fmt.Println(err)
			return 2
		}
		ids := map[string][]int{}
		for _, l := range rd.leaves {
			ids[l.ident] = l.path
		}
		rec.Emit("newrun", "tree", json.RawMessage(tj))
		var wg sync.WaitGroup
		start := make(chan struct{})
		for p := 1; p <= procs; p++ {
			wg.Add(1)
			go func(p int) {
				defer wg.Done()
				rng := rand.New(rand.NewSource(seed*7919 + int64(r*64+p)))
				<-start
				for i := 0; i < ops; i++ {
					op := []string{"traffic", "traffic", "traffic", "api", "query", "query", "reset"}[rng.Intn(7)]
					if p == 1 && op == "reset" {
						op = "query"
					}
					phase := []string{"req", "res"}[rng.Intn(2)]
					m := []string{"good", "bad", "bad"}[rng.Intn(3)]
					cnd := rng.Intn(2) == 0
					rec.Emit("call", "p", p, "op", op, "phase", phase, "m", m, "c", cnd)
					out := [][2]interface{}{}
					switch op {
					case "traffic":
						s2 := *s // own counter copy is not needed; tag uniqueness is irrelevant here
						_ = s2
						trafficConc(s, phase, m, cnd, false, p, i)
					case "api":
						trafficConc(s, phase, m, cnd, true, p, i)
					case "query":
						bag, err := s.query()
						if err != nil {
							panic(err)
						}
						for id, path := range ids {
							out = append(out, [2]interface{}{path, bag[id]})
							delete(bag, id)
						}
						for id, n := range bag {
							out = append(out, [2]interface{}{[]int{99}, fmt.Sprintf("%s x%d", id, n)})
						}
					case "reset":
						s.reset()
					}
					rec.Emit("ret", "p", p, "out", out)
				}
			}(p)
		}
		close(start)
		wg.Wait()
	}
	if err := rec.WriteFile(args[4]); err != nil {
		fmt.Println(err)
		return 2
	}
	return 0
}

func trafficConc(s *sys, phase, m string, c, api bool, p, i int) {
	req, res := s.message(m, c, fmt.Sprintf("%d-%d", p, i))
	ctx, rm, _ := martian.TestContext(req, nil, nil)
	defer rm()
	if api {
		ctx.APIRequest()
	}
	if phase == "req" {
		s.cfg.ModifyRequest(req)
	} else {
		s.cfg.ModifyResponse(res)
	}
}

func concurrent(c *core.Ctx) {
	if !c.Want("conc:") {
		return
	}
	bin, err := core.RaceBin(c)
	if err != nil {
		c.Inconclusive("%v", err)
		return
	}
	rounds := c.Pick(2, 8)
	for round := 0; round < rounds; round++ {
		procs := 3 + round%2
		runs := c.Pick(21, 42)
		out := filepath.Join(c.Work, fmt.Sprintf("conc-%d.ndjson", round))
		log, code, err := core.RunChild(bin, 3*time.Minute, []string{"GORACE=halt_on_error=1 exitcode=66"}, "c13-conc",
			strconv.FormatInt(c.Seed+int64(round), 10), strconv.Itoa(procs), "8", strconv.Itoa(runs), out)
		if code == 66 || strings.Contains(log, "WARNING: DATA RACE") {
			sig := "conc:race"
			switch {
			case strings.Contains(log, "pingback"):
				sig = "conc:race:pingback"
			case strings.Contains(log, "MultiError).Empty"):
				sig = "conc:race:MultiError.Empty"
			}
			c.Violation(sig, "race detector report while traffic, queries and resets run concurrently:\n"+firstLines(log, 40), map[string]interface{}{"round": round, "report": firstLines(log, 80)})
			continue
		}
		if err != nil || code != 0 {
			c.Inconclusive("concurrent driver: code=%d err=%v %s", code, err, firstLines(log, 20))
			continue
		}
		if err := perLeaf(out); err != nil {
			c.Inconclusive("concurrent driver trace: %v", err)
			continue
		}
		v, err := core.ValidateTrace(c.Work, "VerifyLin", "VerifyLin.cfg", out, 10*time.Minute, nil)
		if err != nil || v.Infra {
			c.Inconclusive("trace validation failed to run: %v %s", err, tail(v.Res))
			continue
		}
		for i := 0; i < runs; i++ {
			c.Eval(fmt.Sprintf("conc:%d#%d", round, i))
		}
		c.Trace(runs)
		if !v.Accepted {
			b, _ := os.ReadFile(out)
			lines := strings.Split(string(b), "\n")
			lo, hi := v.HighWater-10, v.HighWater+1
			if lo < 0 {
				lo = 0
			}
			if hi > len(lines) {
				hi = len(lines)
			}
			keep := filepath.Join(core.Root, "replays", "C13-conctrace.ndjson")
			os.MkdirAll(filepath.Dir(keep), 0o755)
			os.WriteFile(keep, b, 0o644)
			c.Violation("conc:rejected", fmt.Sprintf("no linearization of the recorded history is a behaviour of Verify; first unmatched event is line %d of %s:\n%s", v.HighWater, keep, strings.Join(lines[lo:hi], "\n")),
				map[string]interface{}{"trace": keep, "line": v.HighWater})
		}
	}
}

// perLeaf rewrites a recorded trace so that every run appears once per verifier leaf, with that
// leaf in focus: the code is atomic per verifier, not per tree (see VerifyLin.tla).
func perLeaf(path string) error {
	b, err := os.ReadFile(path)
	if err != nil {
		return err
	}
	var out []string
	var run []string
	flush := func() error {
		if len(run) == 0 {
			return nil
		}
		var head struct {
			Tree   json.RawMessage `json:"tree"`
			Leaves [][]int         `json:"leaves"`
		}
		if err := json.Unmarshal([]byte(run[0]), &head); err != nil {
			return err
		}
		for _, lf := range head.Leaves {
			if lf == nil {
				lf = []int{}
			}
			hb, _ := json.Marshal(map[string]interface{}{"ev": "newrun", "tree": head.Tree, "focus": lf})
			out = append(out, string(hb))
			out = append(out, run[1:]...)
		}
		run = nil
		return nil
	}
	for _, l := range strings.Split(strings.TrimRight(string(b), "\n"), "\n") {
		if strings.Contains(l, `"ev":"newrun"`) {
			if err := flush(); err != nil {
				return err
			}
		}
		run = append(run, l)
	}
	if err := flush(); err != nil {
		return err
	}
	return os.WriteFile(path, []byte(strings.Join(out, "\n")+"\n"), 0o644)
}

func firstLines(s string, n int) string {
	ls := strings.Split(s, "\n")
	if len(ls) > n {
		ls = ls[:n]
	}
	return strings.Join(ls, "\n")
}
