// Package c05 decides property C05 (MITM never downgrades): CONNECT tunnels through MITM
// proxies behind plain and traffic-shaped listeners, with and without a TLS handshake
// inside the tunnel, and direct TLS connections to a transparent-TLS listener, carry
// sequences of requests in all three target forms; harness modifiers log what each request
// looks like (scheme, host, secure, TLS state), origins log whether they were reached over
// TLS, hijackers answer through the connection they were handed; TLC validates the traces.
package c05

import (
	"crypto/tls"
	"fmt"
	"math/rand"
	"net"
	"net/http"
	"strings"

	"github.com/google/martian/v3"
	"github.com/google/martian/v3/trafficshape"

	"verif/harness/core"
	"verif/harness/ep"
	"verif/harness/h1"
)

func init() { core.Register("C05", Run) }

func extra(req *http.Request, ctx *martian.Context) []interface{} {
	return []interface{}{"scheme", req.URL.Scheme, "host", hostOnly(req.URL.Host), "secure", ctx.Session().IsSecure(), "tls", req.TLS != nil}
}

func hostOnly(h string) string {
	if hh, _, err := net.SplitHostPort(h); err == nil {
		return hh
	}
	return h
}

// Run is the C05 check.
func Run(c *core.Ctx) {
	c.Describe(
		"TLC model-checks Http1Conn in MITM mode and simulates behaviours (CONNECT followed by up to 3-4 inner requests with modifier behaviours incl. hijack). Each behaviour is run against MITM proxies behind a plain and a traffic-shaped listener with the client starting TLS inside the tunnel (expected: every inner request secure) and without TLS (expected: plain HTTP on an insecure session), and as a direct TLS connection to a transparent-TLS listener. Inner requests use origin-form, absolute https:// and absolute http:// targets. The request modifier logs scheme, host, session-secure and whether the connection's TLS state is attached, for every request index; the origin pair behind the dial redirector (TLS on :443, plain on :80) logs how it was reached; a hijacking modifier answers through the connection it was handed and the TLS client reports whether that answer arrived inside TLS. TLC validates the traces (Http1ConnTrace with the C05 expectations). Non-trivial = runs with >= 2 inner requests or a hijack.",
		"Http1Conn.tla (mitm mode) invariants checked by TLC; Http1ConnTrace requires for every decrypted request scheme/secure/TLS-attached/host as expected, upstream over TLS, one session for CONNECT and inner requests, hijacker on the decrypted connection.",
		false,
		"upstream TLS is observed at the origin: the TLS origin only parses requests that arrived inside a TLS session it terminated",
		"inner requests are sent sequentially (pipelining inside the tunnel is the same code path as C01)")
	if !h1.ModelCheck(c, "h1_c05", c.Pick(3, 4), false, true, false, "mitm") {
		return
	}
	rec := &core.Recorder{}
	var shaped *trafficshape.Listener
	kind := ""
	w, err := h1.NewWorld(rec, func(l net.Listener) net.Listener {
		if kind == "shaped" {
			shaped = trafficshape.NewListener(l)
			return shaped
		}
		return l
	})
	if err != nil {
		c.Inconclusive("environment: %v", err)
		return
	}
	defer w.Close()
	w.Mods.Extra = extra
	// a second world whose proxies sit behind traffic-shaped listeners
	kind = "shaped"
	ws, err := h1.NewWorld(rec, func(l net.Listener) net.Listener { return trafficshape.NewListener(l) })
	if err != nil {
		c.Inconclusive("environment: %v", err)
		return
	}
	defer ws.Close()
	ws.Mods.Extra = extra
	// transparent TLS listener on its own proxy (sharing the first world's origins and modifiers)
	tp := martian.NewProxy()
	tp.SetRequestModifier(w.Mods)
	tp.SetResponseModifier(w.Mods)
	tp.SetMITM(w.MITM)
	tp.SetDial(func(network, addr string) (net.Conn, error) {
		switch addr {
		case "origin.test:80":
			return net.Dial("tcp", w.Plain.Addr())
		case "origin.test:443":
			return net.Dial("tcp", w.TLSOrigin.Addr())
		}
		return net.Dial(network, addr)
	})
	if tr, ok := tp.GetRoundTripper().(*http.Transport); ok {
		tr.TLSClientConfig = &tls.Config{InsecureSkipVerify: true}
	}
	tl, err := net.Listen("tcp", "127.0.0.1:0")
	if err != nil {
		c.Inconclusive("listen: %v", err)
		return
	}
	go tp.Serve(tls.NewListener(tl, w.MITM.TLS()))
	defer func() { go tp.Close() }()

	envs, err := h1.SimulateEnv(c, "h1_c05_env", c.Pick(4, 5), false, true, true, c.Pick(260, 6000))
	if err != nil {
		c.Inconclusive("%v", err)
		return
	}
	rng := rand.New(rand.NewSource(c.Seed))
	var results []*h1.Result
	var tresults []*h1.Result
	seen := map[string]int{}
	yes, no := true, false
	n := 0
	for _, env := range envs {
		if len(env.Connect) < 2 || !env.Connect[0] || seen[env.Key] >= c.Pick(1, 3) {
			continue
		}
		if env.RqB != nil && len(env.RqB) > 0 && strings.HasPrefix(env.RqB[0], "hijack") {
			continue // a hijacked CONNECT never reaches the tunnel (covered by C02)
		}
		seen[env.Key]++
		n++
		sc := h1.Concretise(env, rng, "origin.test", false)
		cx := sc.Ex[0]
		cx.Req.Method = "CONNECT"
		if strings.HasPrefix(cx.RsB, "hijack") {
			cx.RsB = "pass"
		}
		cx.RqB = map[bool]string{true: "warn", false: "pass"}[cx.RqB == "warn"]
		forms := []string{}
		for j, e := range sc.Ex[1:] {
			e.Req.Host = "origin.test"
			switch (n + j) % 3 {
			case 0:
				e.Req.Target = e.Req.Path
				forms = append(forms, "origin-form")
			case 1:
				e.Req.Target = "https://origin.test" + e.Req.Path
				forms = append(forms, "https://")
			case 2:
				e.Req.Target = "http://origin.test" + e.Req.Path
				forms = append(forms, "http://")
			}
			if (n+j)%5 == 0 {
				// no Host header value other than the authority is given: origin-form without explicit port
				e.Req.Host = "origin.test"
			}
			if e.Res.Framing == "close" {
				e.Res.Framing, e.Res.Close = "cl", true
			}
		}
		variants := []struct {
			world  *h1.World
			tls    bool
			secure *bool
			name   string
		}{{w, true, &yes, "plain-listener/tls"}, {ws, true, &yes, "shaped-listener/tls"}, {w, false, &no, "plain-listener/no-tls"}}
		v := variants[n%len(variants)]
		if c.Thorough() || n%4 == 0 {
			// run every listener kind for this behaviour
			for _, vv := range variants {
				r, err := runMITM(vv.world, rec, sc, cx, vv.tls, vv.secure, vv.name+" "+env.Key)
				if err != nil {
					c.Inconclusive("driver: %v", err)
					return
				}
				results = append(results, r)
			}
		} else {
			r, err := runMITM(v.world, rec, sc, cx, v.tls, v.secure, v.name+" "+env.Key)
			if err != nil {
				c.Inconclusive("driver: %v", err)
				return
			}
			results = append(results, r)
		}
		nt := ""
		if len(sc.Ex) >= 3 || strings.Contains(env.Key, "hijack") {
			nt = env.Key
		}
		c.Eval(nt)
		if n%50 == 1 {
			d := sc.Describe()
			d["target_forms"] = forms
			c.Sample(d)
		}
		// the same inner requests over a direct TLS connection to the transparent listener
		if n%3 == 0 {
			w.UseRecorder(rec)
			w.SetExchanges(sc.Ex)
			inner := sc.Ex[1:]
			// ids must start at 1 on a connection without CONNECT
			var shifted []*ep.Exchange
			for _, e := range inner {
				ne := *e
				ne.Req.ID = e.Req.ID - 1
				shifted = append(shifted, &ne)
			}
			w.SetExchanges(shifted)
			r, err := h1.RunTransparent(h1.RunOpts{ProxyAddr: tl.Addr().String(), Origin: w.TLSOrigin, Rec: rec, Live: w.Live}, shifted, "origin.test", w.Roots, "transparent-listener "+env.Key)
			if err != nil {
				c.Inconclusive("driver: %v", err)
				return
			}
			tresults = append(tresults, r)
		}
	}
	c.Trace(len(results) + len(tresults))
	report(c, h1.Validate(c, rec, results, true, "c05mitm", "mitm"))
	report(c, h1.Validate(c, rec, tresults, true, "c05transparent"))
	_ = shaped
}

func runMITM(w *h1.World, rec *core.Recorder, sc *h1.Scenario, cx *ep.Exchange, clientTLS bool, secure *bool, describe string) (*h1.Result, error) {
	w.UseRecorder(rec)
	w.SetExchanges(sc.Ex)
	origin := w.TLSOrigin
	if !clientTLS {
		origin = w.Plain
	}
	run := &h1.ConnectRun{Mode: "mitm", Connect: cx, Authority: "origin.test:443", Inner: sc.Ex[1:], ClientTLS: clientTLS, Roots: w.Roots, Secure: secure, Describe: describe}
	r, err := h1.RunConnect(h1.RunOpts{ProxyAddr: w.MProxyAddr, Origin: origin, Rec: rec, Live: w.Live}, run)
	if err != nil {
		return nil, err
	}
	cp := *sc
	cp.Origin = describe
	r.Scenario = &cp
	// notes of the origin that was not the expected one matter too (a downgrade lands there)
	other := w.Plain
	if !clientTLS {
		other = w.TLSOrigin
	}
	r.Notes = append(r.Notes, other.Notes...)
	return r, nil
}

func report(c *core.Ctx, rej []h1.Rejection) {
	for _, r := range rej {
		at := ""
		if r.Line >= 1 && r.Line-1 < len(r.Lines) {
			at = r.Lines[r.Line-1]
		}
		kind := r.Res.Scenario.Origin
		if i := strings.Index(kind, " "); i > 0 {
			kind = kind[:i]
		}
		sig := kind + ": " + classify(at)
		lo := r.Line - 5
		if lo < 0 {
			lo = 0
		}
		hi := r.Line + 1
		if hi > len(r.Lines) {
			hi = len(r.Lines)
		}
		c.Violation(sig, fmt.Sprintf("%s; first unmatched event (#%d): %s; notes: %v; scenario: %v; trace: %v", r.Reason, r.Line, at, r.Res.Notes, r.Res.Scenario.Describe(), r.Lines[lo:hi]),
			map[string]interface{}{"scenario": r.Res.Scenario.Describe(), "trace": r.Lines})
	}
}

func classify(at string) string {
	switch {
	case strings.Contains(at, `"ev":"reqmod"`):
		idx := "first request"
		if !strings.Contains(at, `"i":1,`) && !strings.Contains(at, `"i":2,`) {
			idx = "a later request"
		} else if strings.Contains(at, `"i":2,`) {
			idx = "first inner request"
		}
		var bad []string
		if strings.Contains(at, `"tls":false`) {
			bad = append(bad, "TLS state not attached")
		}
		if strings.Contains(at, `"secure":false`) {
			bad = append(bad, "session not secure")
		}
		if strings.Contains(at, `"scheme":"http"`) {
			bad = append(bad, "scheme http")
		}
		return fmt.Sprintf("request modifier view of %s: %s", idx, strings.Join(bad, ", "))
	case strings.Contains(at, `"ev":"oresp"`) && strings.Contains(at, `"tls":false`):
		return "request forwarded upstream in cleartext"
	case strings.Contains(at, `"ev":"oresp"`):
		return "unexpected upstream contact"
	case strings.Contains(at, `"ev":"hjrecv"`):
		return "hijacker was not handed the decrypted connection"
	case strings.Contains(at, `"garbage"`):
		return "client could not parse what arrived inside the tunnel"
	}
	return "sequencing"
}
