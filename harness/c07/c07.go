// Package c07 decides property C07 (graceful shutdown): every scenario of ShutdownScen.tla -
// the progress point each of 1..3 connections is parked at when Close() is called, and the
// order in which parked exchanges are released - is staged on a fresh proxy with blocking
// harness modifiers, a blocking origin and non-reading clients; the recorded events are
// validated by TLC against ShutdownTrace.
package c07

import (
	"bufio"
	"fmt"
	"net"
	"os"
	"path/filepath"
	"strconv"
	"strings"
	"sync"
	"time"

	"github.com/google/martian/v3"
	"net/http"

	"verif/harness/core"
	"verif/harness/ep"
	"verif/harness/h1"
)

func init() { core.Register("C07", Run) }

const limit = 4 * time.Second

type scen struct {
	points []string
	order  []int
	late   bool
}

func (s scen) key() string { return fmt.Sprintf("%v/%v/%v", s.points, s.order, s.late) }

// gates park goroutines by (point, connection).
type gates struct {
	mu      sync.Mutex
	hold    map[string]chan struct{}
	arrived map[string]bool
}

func newGates() *gates { return &gates{hold: map[string]chan struct{}{}, arrived: map[string]bool{}} }

func (g *gates) arm(point string, c int) {
	g.mu.Lock()
	defer g.mu.Unlock()
	g.hold[fmt.Sprintf("%s/%d", point, c)] = make(chan struct{})
}
func (g *gates) pass(point string, c int) {
	k := fmt.Sprintf("%s/%d", point, c)
	g.mu.Lock()
	ch := g.hold[k]
	if ch != nil {
		g.arrived[k] = true
	}
	g.mu.Unlock()
	if ch != nil {
		<-ch
	}
}
func (g *gates) release(point string, c int) {
	k := fmt.Sprintf("%s/%d", point, c)
	g.mu.Lock()
	ch := g.hold[k]
	delete(g.hold, k)
	g.mu.Unlock()
	if ch != nil {
		close(ch)
	}
}
func (g *gates) hasArrived(point string, c int) bool {
	g.mu.Lock()
	defer g.mu.Unlock()
	return g.arrived[fmt.Sprintf("%s/%d", point, c)]
}
func (g *gates) releaseAll() {
	g.mu.Lock()
	defer g.mu.Unlock()
	for k, ch := range g.hold {
		close(ch)
		delete(g.hold, k)
	}
}

// client is one scripted connection with a reader that logs complete responses and EOF.
type client struct {
	c     int
	conn  net.Conn
	rec   *core.Recorder
	mu    sync.Mutex
	resps int
	eof   bool
	pause chan struct{} // when non-nil the reader waits before reading on (the "writing" point)
}

func (cl *client) reader() {
	br := bufio.NewReaderSize(cl.conn, 4096)
	for {
		cl.mu.Lock()
		p := cl.pause
		cl.mu.Unlock()
		if p != nil {
			<-p
			cl.mu.Lock()
			cl.pause = nil
			cl.mu.Unlock()
		}
		m, err, eof := ep.ReadResponse(br, func() string { return "GET" })
		if eof || err != nil || !m.Complete {
			// a reset stands for end-of-stream here (the proxy may close with unread bytes pending)
			cl.rec.Emit("crecv", "c", cl.c, "t", "eof", "close", false)
			cl.mu.Lock()
			cl.eof = true
			cl.mu.Unlock()
			return
		}
		closeHdr := false
		for _, v := range m.Headers.Get("Connection") {
			if strings.Contains(strings.ToLower(v), "close") {
				closeHdr = true
			}
		}
		cl.rec.Emit("crecv", "c", cl.c, "t", "resp", "close", closeHdr)
		cl.mu.Lock()
		cl.resps++
		cl.mu.Unlock()
	}
}

func (cl *client) state() (int, bool) {
	cl.mu.Lock()
	defer cl.mu.Unlock()
	return cl.resps, cl.eof
}

func waitFor(cond func() bool, d time.Duration) bool {
	deadline := time.Now().Add(d)
	for !cond() {
		if time.Now().After(deadline) {
			return false
		}
		time.Sleep(500 * time.Microsecond)
	}
	return true
}

func reqBytes(c, n int, origin string) []byte {
	return []byte(fmt.Sprintf("GET http://%s/c%d/r%d HTTP/1.1\r\nHost: %s\r\nX-Verif-Id: %d\r\nX-Verif-Conn: %d\r\n\r\n", origin, c, n, origin, c*10+n, c))
}

// stage runs one scenario and appends its events to rec.
func stage(sc scen, rec *core.Recorder) (notes []string) {
	rec.Emit("newrun")
	g := newGates()
	defer g.releaseAll()
	dummy := &core.Recorder{}
	origin, err := ep.NewOrigin(dummy)
	if err != nil {
		return []string{"origin: " + err.Error()}
	}
	defer origin.Close()
	big := make([]byte, 8<<20)
	var ex []*ep.Exchange
	for c := 1; c <= len(sc.points)+1; c++ {
		for n := 1; n <= 2; n++ {
			body := []byte("ok")
			if n == 2 && c <= len(sc.points) && sc.points[c-1] == "writing" {
				body = big
			}
			ex = append(ex, &ep.Exchange{Req: ep.ReqSpec{ID: c*10 + n, Method: "GET", Path: fmt.Sprintf("/c%d/r%d", c, n)},
				Res: ep.ResSpec{Status: 200, Framing: "cl", Body: body}})
		}
	}
	origin.Set(ex)
	origin.OnRequest = func(m *ep.Msg, id int) {
		c := id / 10
		rec.Emit("rt", "c", c)
		g.pass("rt", c)
	}
	mods := &h1.Mods{Rec: dummy}
	mods.Set(ex)
	p := martian.NewProxy()
	p.SetRequestModifier(martian.RequestModifierFunc(func(req *http.Request) error {
		c, _ := strconv.Atoi(req.Header.Get("X-Verif-Conn"))
		rec.Emit("reqmod", "c", c)
		g.pass("reqmod", c)
		return nil
	}))
	p.SetResponseModifier(martian.ResponseModifierFunc(func(res *http.Response) error {
		c, _ := strconv.Atoi(res.Request.Header.Get("X-Verif-Conn"))
		rec.Emit("resmod", "c", c)
		g.pass("resmod", c)
		rec.Emit("resmodret", "c", c)
		return nil
	}))
	l, err := net.Listen("tcp", "127.0.0.1:0")
	if err != nil {
		return []string{"listen: " + err.Error()}
	}
	go p.Serve(l)
	addr := l.Addr().String()
	var clients []*client
	dial := func(c int) *client {
		conn, err := net.DialTimeout("tcp", addr, 2*time.Second)
		if err != nil {
			return nil
		}
		rec.Emit("connect", "c", c)
		cl := &client{c: c, conn: conn, rec: rec}
		go cl.reader()
		return cl
	}
	stall := func(what string) []string {
		rec.Emit("stall", "what", what)
		return append(notes, what)
	}
	// warm-up exchange on every connection: afterwards its handler is certainly registered
	for c := 1; c <= len(sc.points); c++ {
		cl := dial(c)
		if cl == nil {
			return stall("cannot connect")
		}
		defer cl.conn.Close()
		clients = append(clients, cl)
		rec.Emit("csend", "c", c)
		cl.conn.Write(reqBytes(c, 1, origin.Addr()))
		if !waitFor(func() bool { n, _ := cl.state(); return n >= 1 }, limit) {
			return stall(fmt.Sprintf("warm-up exchange on connection %d got no response", c))
		}
	}
	// drive every connection to its point
	for c := 1; c <= len(sc.points); c++ {
		cl := clients[c-1]
		switch pt := sc.points[c-1]; pt {
		case "idle":
		case "midhead":
			cl.conn.Write(reqBytes(c, 2, origin.Addr())[:25])
		case "reqmod", "rt", "resmod":
			g.arm(pt, c)
			rec.Emit("csend", "c", c)
			cl.conn.Write(reqBytes(c, 2, origin.Addr()))
			if !waitFor(func() bool { return g.hasArrived(pt, c) }, limit) {
				return stall(fmt.Sprintf("connection %d never reached %s", c, pt))
			}
		case "writing":
			cl.mu.Lock()
			cl.pause = make(chan struct{})
			cl.mu.Unlock()
			g.arm("resmod", c)
			rec.Emit("csend", "c", c)
			cl.conn.Write(reqBytes(c, 2, origin.Addr()))
			if !waitFor(func() bool { return g.hasArrived("resmod", c) }, limit) {
				return stall(fmt.Sprintf("connection %d never reached the response modifier", c))
			}
			g.release("resmod", c)
			time.Sleep(150 * time.Millisecond) // the proxy is now blocked writing 8 MiB to a client that does not read
		}
	}
	// shutdown
	returned := make(chan struct{})
	rec.Emit("closecalled")
	go func() {
		p.Close()
		rec.Emit("closereturned")
		close(returned)
	}()
	time.Sleep(20 * time.Millisecond)
	if sc.late {
		lc := len(sc.points) + 1
		if cl := dial(lc); cl != nil {
			defer cl.conn.Close()
			cl.conn.Write(reqBytes(lc, 1, origin.Addr())) // must never be served
			clients = append(clients, cl)
		}
	}
	// idle and mid-head connections are closed without further ado
	for c := 1; c <= len(sc.points); c++ {
		if sc.points[c-1] == "idle" || sc.points[c-1] == "midhead" {
			cl := clients[c-1]
			if !waitFor(func() bool { _, e := cl.state(); return e }, limit) {
				return stall(fmt.Sprintf("connection %d (%s) was not closed after shutdown began", c, sc.points[c-1]))
			}
		}
	}
	// Close must not return while exchanges are parked
	select {
	case <-returned:
		if len(sc.order) > 0 {
			notes = append(notes, "Close returned while exchanges were still parked")
		}
	case <-time.After(30 * time.Millisecond):
	}
	for _, c := range sc.order {
		cl := clients[c-1]
		switch sc.points[c-1] {
		case "writing":
			cl.mu.Lock()
			pch := cl.pause
			cl.mu.Unlock()
			if pch != nil {
				close(pch)
			}
		default:
			g.release(sc.points[c-1], c)
		}
		if !waitFor(func() bool { n, e := cl.state(); return n >= 2 && e }, limit+2*time.Second) {
			n, e := cl.state()
			return stall(fmt.Sprintf("connection %d parked at %s: %d responses, eof=%v after release", c, sc.points[c-1], n, e))
		}
	}
	select {
	case <-returned:
	case <-time.After(limit):
		return stall("Close did not return after every parked exchange had finished")
	}
	if sc.late && len(clients) > len(sc.points) {
		lcl := clients[len(clients)-1]
		if !waitFor(func() bool { _, e := lcl.state(); return e }, limit) {
			return stall("a connection made after shutdown began was neither served nor closed")
		}
	}
	rec.Emit("end")
	return notes
}

func scenarios(c *core.Ctx) ([]scen, *core.TLCResult, error) {
	n := c.Pick(2, 3)
	cfg := fmt.Sprintf("SPECIFICATION Spec\nCONSTANTS MaxConns = %d\n", n)
	os.WriteFile(filepath.Join(c.Work, "scen.cfg"), []byte(cfg), 0o644)
	dot := filepath.Join(c.Work, "scen.dot")
	res, err := core.RunTLC(c.Work, core.TLCOpts{Module: "ShutdownScen", Cfg: "scen.cfg", Workers: 4, Timeout: 10 * time.Minute, Args: []string{"-dump", "dot,actionlabels", dot}})
	if err != nil || !res.OK() {
		return nil, res, fmt.Errorf("TLC on ShutdownScen failed: %v", err)
	}
	g, err := core.ParseDot(dot)
	if err != nil {
		return nil, res, err
	}
	var out []scen
	for _, id := range g.Order {
		st := g.States[id]
		out = append(out, scen{points: st["points"].Strs(), order: st["order"].Ints(), late: st["late"].B})
	}
	return out, res, nil
}

// Run is the C07 check.
func Run(c *core.Ctx) {
	c.Describe(
		"TLC model-checks Shutdown.tla (Serve loop, handlers, Close with connsMu and the WaitGroup, per-connection client queues) for StartedGetsResponse, NoReqModAfterReturn, ReturnsAfterRegisteredClosed and the liveness CloseEventuallyReturns, and shows that the same invariant over merely accepted connections fails. ShutdownScen.tla enumerates the scenario space: 1..N connections x 6 progress points (idle, mid request head, inside the request modifier, during the round trip, inside the response modifier, while an 8 MiB response is being written to a client that does not read) x every release order of the parked exchanges x a late connection arriving after Close() was called. Each scenario is staged on a fresh proxy (every connection first completes a warm-up exchange so that its handler is registered) with gate-blocking modifiers and origin; events are validated by TLC against ShutdownTrace: every parked exchange gets its complete response, marked close when the decision came after Close(), then EOF; idle / half-request connections are closed; no request modifier starts after Close() returned; Close() returns only after every registered connection is closed; the late connection is closed unserved. Non-trivial = scenarios with at least one parked exchange.",
		"Shutdown.tla invariants and liveness checked by TLC; binding: every enumerated scenario (quick: all 1-2 connection scenarios; thorough: 3 connections) staged on the real proxy and validated by TLC.",
		true,
		"'accepted' is read as 'registered' (handler has executed conns.Add): Close does not own the listener, see DESIGN.md; a response whose head was already written when Close() was called need not be marked close",
		"time limit 4 s per awaited step")
	conns := "{1, 2}"
	if c.Thorough() {
		conns = "{1, 2, 3}"
	}
	mcfg := "SPECIFICATION Spec\nCONSTANTS\n  Conns = " + conns + "\n  MaxReq = 2\nINVARIANTS StartedGetsResponse NoReqModAfterReturn ReturnsAfterRegisteredClosed\nPROPERTIES CloseEventuallyReturns\n"
	os.WriteFile(filepath.Join(c.Work, "sd.cfg"), []byte(mcfg), 0o644)
	res, err := core.RunTLC(c.Work, core.TLCOpts{Module: "Shutdown", Cfg: "sd.cfg", Workers: 12, Timeout: 25 * time.Minute})
	if err != nil || !res.OK() {
		c.Inconclusive("TLC on Shutdown failed: %v %s", err, res.Tail(20))
		return
	}
	c.Model(res)
	os.WriteFile(filepath.Join(c.Work, "sd2.cfg"), []byte("SPECIFICATION Spec\nCONSTANTS\n  Conns = {1, 2}\n  MaxReq = 1\nINVARIANTS ReturnsAfterAcceptedClosed\n"), 0o644)
	r2, err := core.RunTLC(c.Work, core.TLCOpts{Module: "Shutdown", Cfg: "sd2.cfg", Workers: 4, Timeout: 5 * time.Minute})
	if err != nil || r2.Infra() || r2.Violated == "" {
		c.Inconclusive("self-test: the invariant over accepted connections was expected to fail in the model: %v", err)
		return
	}
	c.Extra("model_only_window", "ReturnsAfterAcceptedClosed is violated in the model (accept -> Close completes -> handler registers afterwards); the check's antecedent is 'registered'")
	scs, sres, err := scenarios(c)
	if err != nil {
		c.Inconclusive("%v", err)
		return
	}
	c.Model(sres)
	if !c.Thorough() {
		// all scenarios with <= 2 connections, late connection in half of them
		var keep []scen
		for i, s := range scs {
			if s.late == ((i/2)%2 == 1) {
				keep = append(keep, s)
			}
		}
		scs = keep
	} else {
		c.Rand.Shuffle(len(scs), func(i, j int) { scs[i], scs[j] = scs[j], scs[i] })
		if len(scs) > 900 {
			scs = scs[:900]
		}
	}
	rec := &core.Recorder{}
	type span struct {
		sc          scen
		first, last int
		notes       []string
	}
	var spans []span
	// scenarios are independent (own proxy, origin, gates): run a few at a time, each into its own recorder
	type job struct {
		sc    scen
		rec   *core.Recorder
		notes []string
	}
	jobs := make([]*job, len(scs))
	sem := make(chan struct{}, 6)
	var wg sync.WaitGroup
	for i, s := range scs {
		jobs[i] = &job{sc: s, rec: &core.Recorder{}}
		wg.Add(1)
		sem <- struct{}{}
		go func(j *job) {
			defer wg.Done()
			defer func() { <-sem }()
			j.notes = stage(j.sc, j.rec)
		}(jobs[i])
	}
	wg.Wait()
	var lines []string
	for i, j := range jobs {
		ls := strings.Split(strings.TrimRight(string(j.rec.Bytes()), "\n"), "\n")
		spans = append(spans, span{j.sc, len(lines) + 1, len(lines) + len(ls), j.notes})
		lines = append(lines, ls...)
		nt := ""
		if len(j.sc.order) > 0 {
			nt = j.sc.key()
		}
		c.Eval(nt)
		if i%25 == 0 {
			c.Sample(map[string]interface{}{"points": j.sc.points, "release_order": j.sc.order, "late_connection": j.sc.late})
		}
	}
	_ = rec
	c.Trace(len(spans))
	defer unregistered(c)
	alive := make([]bool, len(spans))
	for i := range alive {
		alive[i] = true
	}
	for round := 0; round < 10; round++ {
		var sb strings.Builder
		var idx []int
		for i, s := range spans {
			if !alive[i] {
				continue
			}
			for ln := s.first; ln <= s.last; ln++ {
				sb.WriteString(lines[ln-1] + "\n")
				idx = append(idx, ln)
			}
		}
		if len(idx) == 0 {
			break
		}
		path := filepath.Join(c.Work, fmt.Sprintf("shutdown-%d.ndjson", round))
		os.WriteFile(path, []byte(sb.String()), 0o644)
		v, err := core.ValidateTrace(c.Work, "ShutdownTrace", "ShutdownTrace.cfg", path, 15*time.Minute, nil)
		if err != nil || v.Infra {
			c.Inconclusive("trace validation failed to run: %v %s", err, v.Res.Tail(20))
			return
		}
		if v.Accepted {
			break
		}
		hw := v.HighWater
		if hw < 1 {
			hw = 1
		}
		if hw > len(idx) {
			hw = len(idx)
		}
		orig := idx[hw-1]
		for i, s := range spans {
			if alive[i] && orig >= s.first && orig <= s.last {
				alive[i] = false
				at := lines[orig-1]
				what := "the staged run is not a behaviour of Shutdown"
				if v.Violated != "" {
					what = "invariant " + v.Violated + " violated by the staged run"
				}
				c.Violation(classify(s.sc, at, v.Violated), fmt.Sprintf("%s; first unmatched event: %s; points=%v release order=%v late=%v notes=%v; trace: %v", what, at, s.sc.points, s.sc.order, s.sc.late, s.notes, lines[s.first-1:s.last]),
					map[string]interface{}{"points": s.sc.points, "order": s.sc.order, "late": s.sc.late, "trace": lines[s.first-1 : s.last]})
			}
		}
	}
}

// unregistered stages the window between accept and handler registration with the verif gate
// hook: the connection is accepted, its handler goroutine is parked before conns.Add, and
// Close() is called. The trace is validated with the invariant over accepted connections.
func unregistered(c *core.Ctx) {
	if !c.Want("unregistered") {
		return
	}
	rec := &core.Recorder{}
	hold := make(chan struct{})
	arrived := make(chan struct{}, 4)
	martian.VerifPoint = func(name string) {
		if name == "handleLoop:accepted" {
			arrived <- struct{}{}
			<-hold
		}
	}
	defer func() { martian.VerifPoint = nil }()
	p := martian.NewProxy()
	l, err := net.Listen("tcp", "127.0.0.1:0")
	if err != nil {
		c.Inconclusive("listen: %v", err)
		return
	}
	go p.Serve(l)
	rec.Emit("newrun")
	conn, err := net.DialTimeout("tcp", l.Addr().String(), 2*time.Second)
	if err != nil {
		c.Inconclusive("dial: %v", err)
		return
	}
	defer conn.Close()
	rec.Emit("connect", "c", 1)
	cl := &client{c: 1, conn: conn, rec: rec}
	go cl.reader()
	select {
	case <-arrived:
	case <-time.After(limit):
		c.Inconclusive("the handler goroutine never reached the verif gate")
		close(hold)
		return
	}
	rec.Emit("handlerstarted", "c", 1)
	returned := make(chan struct{})
	rec.Emit("closecalled")
	go func() {
		p.Close()
		rec.Emit("closereturned")
		close(returned)
	}()
	select {
	case <-returned:
	case <-time.After(500 * time.Millisecond):
	}
	rec.Emit("handlerreleased", "c", 1)
	close(hold)
	waitFor(func() bool { _, e := cl.state(); return e }, limit)
	select {
	case <-returned:
	case <-time.After(limit):
		rec.Emit("stall", "what", "Close did not return")
	}
	rec.Emit("end")
	path := filepath.Join(c.Work, "unregistered.ndjson")
	rec.WriteFile(path)
	v, err := core.ValidateTrace(c.Work, "ShutdownTrace", "ShutdownTraceStrict.cfg", path, 5*time.Minute, nil)
	if err != nil || v.Infra {
		c.Inconclusive("trace validation failed to run: %v", err)
		return
	}
	c.Eval("unregistered")
	c.Trace(1)
	lines := strings.Split(strings.TrimRight(string(rec.Bytes()), "\n"), "\n")
	switch {
	case v.Accepted:
	case v.Violated == "ReturnsAfterAcceptedClosed":
		c.Violation("unregistered: Close returned while an accepted connection whose handler had not registered was still open",
			fmt.Sprintf("with the handler goroutine parked between accept and conns.Add, Close() returned before the connection was closed; trace: %v", lines), map[string]interface{}{"trace": lines})
	default:
		c.Violation("unregistered: "+v.Violated+" line "+fmt.Sprint(v.HighWater), fmt.Sprintf("trace: %v", lines), map[string]interface{}{"trace": lines})
	}
}

func classify(sc scen, at, inv string) string {
	switch {
	case inv != "":
		return "invariant " + inv
	case strings.Contains(at, `"ev":"closereturned"`):
		return "Close returned while a registered connection was still open"
	case strings.Contains(at, `"ev":"crecv"`) && strings.Contains(at, `"t":"resp"`):
		return "response not marked connection-close (or unexpected response) after shutdown began"
	case strings.Contains(at, `"ev":"crecv"`):
		return "connection closed before its in-flight exchange was answered"
	case strings.Contains(at, `"ev":"stall"`):
		w := at
		if i := strings.Index(at, `"what":"`); i >= 0 {
			w = at[i+8:]
		}
		for _, d := range "0123456789" {
			w = strings.ReplaceAll(w, string(d), "#")
		}
		return "stall: " + strings.TrimRight(w, `"}`)
	case strings.Contains(at, `"ev":"reqmod"`):
		return "request modifier started for a connection that must not be served"
	}
	return "sequencing"
}
