package h1

import (
	"errors"
	"fmt"
	"io"
	"net/http"
	"strconv"
	"sync"
	"time"

	"github.com/google/martian/v3"

	"verif/harness/core"
	"verif/harness/ep"
)

// Mods are the harness-supplied request and response modifiers: they log every call with
// the context and session they see and then behave as the current scenario says.
type Mods struct {
	Rec *core.Recorder

	mu    sync.Mutex
	table map[int]*ep.Exchange
	reqs  map[int]*http.Request // request pointer seen by the request modifier
	kept  []*http.Request       // every request seen, for the retrievability check at quiescence
	// Extra lets a check add fields to the reqmod event (C05: scheme, secure, TLS state...).
	Extra func(req *http.Request, ctx *martian.Context) []interface{}
	// Gate, when set, is called inside the modifiers (C07 parks exchanges there).
	Gate func(point string, id int)
}

// Set installs the exchanges of the next scenario.
func (m *Mods) Set(ex []*ep.Exchange) {
	m.mu.Lock()
	defer m.mu.Unlock()
	m.table = map[int]*ep.Exchange{}
	for _, e := range ex {
		m.table[e.Req.ID] = e
	}
	m.reqs = map[int]*http.Request{}
	m.kept = nil
}

// Retained reports how many of the requests seen still have a retrievable context.
func (m *Mods) Retained() int {
	m.mu.Lock()
	defer m.mu.Unlock()
	n := 0
	for _, r := range m.kept {
		if martian.NewContext(r) != nil {
			n++
		}
	}
	return n
}

func idOf(req *http.Request) int {
	n, _ := strconv.Atoi(req.Header.Get("X-Verif-Id"))
	return n
}

func (m *Mods) lookup(id int) (string, string) {
	m.mu.Lock()
	defer m.mu.Unlock()
	if e := m.table[id]; e != nil {
		return e.RqB, e.RsB
	}
	return "pass", "pass"
}

func (m *Mods) hijack(ctx *martian.Context, id int) {
	conn, brw, err := ctx.Session().Hijack()
	if err != nil {
		return
	}
	if id%2 == 1 {
		// speak through the connection itself rather than the buffered reader/writer pair
		fmt.Fprintf(conn, "HTTP/1.1 299 Hijacked\r\nX-Verif-Hijack: %d\r\nContent-Length: 0\r\n\r\n", id)
	} else {
		fmt.Fprintf(brw, "HTTP/1.1 299 Hijacked\r\nX-Verif-Hijack: %d\r\nContent-Length: 0\r\n\r\n", id)
		brw.Flush()
	}
	// whatever the client sends from now on belongs to the hijacker
	conn.SetReadDeadline(time.Now().Add(80 * time.Millisecond))
	io.Copy(io.Discard, brw)
	conn.SetReadDeadline(time.Time{})
	m.Rec.Emit("hjdone")
}

// ModifyRequest implements martian.RequestModifier.
func (m *Mods) ModifyRequest(req *http.Request) error {
	id := idOf(req)
	ctx := martian.NewContext(req)
	rqb, _ := m.lookup(id)
	m.mu.Lock()
	m.reqs[id] = req
	m.kept = append(m.kept, req)
	m.mu.Unlock()
	kv := []interface{}{"i", id, "b", rqb, "ctx", ctx.ID(), "sess", ctx.Session().ID()}
	if m.Extra != nil {
		kv = append(kv, m.Extra(req, ctx)...)
	}
	m.Rec.Emit("reqmod", kv...)
	if m.Gate != nil {
		m.Gate("reqmod", id)
	}
	switch rqb {
	case "warn":
		return errors.New("verif-reqmod-error")
	case "skip":
		ctx.SkipRoundTrip()
	case "hijack":
		m.hijack(ctx, id)
	case "hijackerr":
		m.hijack(ctx, id)
		return errors.New("verif-reqmod-error after hijack")
	}
	return nil
}

// ModifyResponse implements martian.ResponseModifier.
func (m *Mods) ModifyResponse(res *http.Response) error {
	id := idOf(res.Request)
	ctx := martian.NewContext(res.Request)
	_, rsb := m.lookup(id)
	m.mu.Lock()
	same := m.reqs[id] == res.Request
	m.mu.Unlock()
	cid, sid := "", ""
	if ctx != nil {
		cid, sid = ctx.ID(), ctx.Session().ID()
	}
	m.Rec.Emit("resmod", "i", id, "b", rsb, "ctx", cid, "sess", sid, "same", same)
	if m.Gate != nil {
		m.Gate("resmod", id)
	}
	switch rsb {
	case "warn":
		return errors.New("verif-resmod-error")
	case "hijack", "hijackerr":
		if ctx != nil {
			m.hijack(ctx, id)
		}
		if rsb == "hijackerr" {
			return errors.New("verif-resmod-error after hijack")
		}
	}
	return nil
}
