package h1

import (
	"bufio"
	"crypto/tls"
	"crypto/x509"
	"fmt"
	"io"
	"net"
	"strings"
	"time"

	"verif/harness/core"
	"verif/harness/ep"
)

// ConnectRun is one client connection that starts with a CONNECT.
type ConnectRun struct {
	Mode      string         // blind | mitm
	Connect   *ep.Exchange   // id 1: the CONNECT exchange (behaviours RqB / RsB)
	Authority string         // host:port named in the CONNECT
	Inner     []*ep.Exchange // ids 2..: requests sent inside the tunnel (MITM mode)
	ClientTLS bool           // the client starts a TLS handshake inside the tunnel
	Roots     *x509.CertPool // CA the client trusts for the MITM certificate
	Payload   []byte         // blind mode: bytes sent through the tunnel (echoed by the target)
	Secure    *bool          // C05: expectation announced in the newconn event (nil: not checked)
	Describe  string
}

func emitResp(rec *core.Recorder, id int, m *ep.Msg, ex *ep.Exchange, connect bool) (closeHdr bool) {
	k, ok, warn := "ok", true, false
	for _, w := range m.Headers.Get("Warning") {
		if strings.Contains(w, "verif-resmod-error") {
			warn = true
		}
	}
	switch {
	case connect && m.Status() == 200:
		k = "connect200"
	case !m.Complete:
		k = "trunc"
	case len(m.Headers.Get("X-Verif-Id")) > 0:
	case m.Status() == 502:
		k = "502"
		ok = len(m.Headers.Get("Warning")) > 0
	case m.Status() == 200:
		k = "skip200"
	default:
		ok = false
	}
	for _, c := range m.Headers.Get("Connection") {
		if strings.Contains(strings.ToLower(c), "close") {
			closeHdr = true
		}
	}
	if k == "connect200" {
		closeHdr = false // an established tunnel is not subject to the keep-alive rule
	}
	rec.Emit("crecv", "t", "resp", "id", id, "k", k, "close", closeHdr, "warn", warn, "ok", ok)
	return closeHdr
}

func emitEOF(rec *core.Recorder) {
	rec.Emit("crecv", "t", "eof", "id", 0, "k", "", "close", false, "warn", false, "ok", true)
}

// RunConnect drives one CONNECT scenario sequentially and records its events.
func RunConnect(o RunOpts, run *ConnectRun) (*Result, error) {
	rec := o.Rec
	r := &Result{Scenario: &Scenario{Origin: run.Describe}, First: rec.Len() + 1}
	finish := func(notes ...string) (*Result, error) {
		live := 0
		if o.Live != nil {
			for i := 0; i < 300; i++ {
				if live = o.Live(); live == 0 {
					break
				}
				time.Sleep(time.Millisecond)
			}
		}
		rec.Emit("end", "live", live)
		r.Last = rec.Len()
		r.Notes = append(r.Notes, notes...)
		if o.Origin != nil {
			r.Notes = append(r.Notes, o.Origin.Notes...)
		}
		return r, nil
	}
	conn, err := net.DialTimeout("tcp", o.ProxyAddr, 3*time.Second)
	if err != nil {
		return nil, err
	}
	defer conn.Close()
	conn.SetDeadline(time.Now().Add(8 * time.Second))
	if run.Secure != nil {
		rec.Emit("newconn", "secure", *run.Secure)
	} else {
		rec.Emit("newconn")
	}
	rec.Emit("csend", "i", 1, "close", false, "connect", true)
	fmt.Fprintf(conn, "CONNECT %s HTTP/1.1\r\nHost: %s\r\nX-Verif-Id: 1\r\n\r\n", run.Authority, run.Authority)
	br := bufio.NewReader(conn)
	m, perr, eof := ep.ReadResponse(br, func() string { return "CONNECT" })
	if eof {
		emitEOF(rec)
		return finish()
	}
	if perr != nil {
		rec.Emit("crecv", "t", "resp", "id", 1, "k", "garbage", "close", false, "warn", false, "ok", false)
		return finish("client could not parse the CONNECT response: " + perr.Error())
	}
	if m.Status() == 299 {
		rec.Emit("hjrecv")
		waitEOF(conn, br, rec)
		return finish()
	}
	emitResp(rec, 1, m, run.Connect, true)
	if m.Status() != 200 {
		// the connection stays usable after a failed CONNECT: nothing more is sent here
		return finish()
	}
	if run.Mode == "blind" {
		if len(run.Payload) > 0 {
			conn.Write(run.Payload)
			got := make([]byte, len(run.Payload))
			if _, err := io.ReadFull(br, got); err != nil || string(got) != string(run.Payload) {
				r.Notes = append(r.Notes, fmt.Sprintf("tunnel echo failed: %v", err))
			}
		}
		if tc, ok := conn.(*net.TCPConn); ok {
			tc.CloseWrite()
		}
		// C04 decides when EOF must arrive; here the client just ends the tunnel
		conn.Close()
		return finish()
	}
	// MITM
	var rw io.ReadWriter = conn
	var tbr = br
	if run.ClientTLS {
		host, _, _ := net.SplitHostPort(run.Authority)
		tc := tls.Client(&prefixConn{Conn: conn, r: br}, &tls.Config{ServerName: host, RootCAs: run.Roots})
		if err := tc.Handshake(); err != nil {
			return finish("TLS handshake inside the tunnel failed: " + err.Error())
		}
		rw = tc
		tbr = bufio.NewReader(tc)
	}
	for i, e := range run.Inner {
		id := e.Req.ID
		rec.Emit("csend", "i", id, "close", e.Req.Close, "connect", false)
		if _, err := rw.Write(e.Req.Bytes()); err != nil {
			// the proxy may answer and close before it has read the whole request (for example a
			// skipped round trip with a large body): the answer is still there to be read
			r.Notes = append(r.Notes, fmt.Sprintf("writing inner request %d: %v", id, err))
		}
		method := e.Req.Method
		m, perr, eof := ep.ReadResponse(tbr, func() string { return method })
		if eof {
			emitEOF(rec)
			return finish()
		}
		if perr != nil {
			if strings.Contains(perr.Error(), "timeout") {
				rec.Emit("stall", "items", i+2)
				return finish()
			}
			rec.Emit("crecv", "t", "resp", "id", id, "k", "garbage", "close", false, "warn", false, "ok", false)
			return finish("client could not parse inner response: " + perr.Error())
		}
		if m.Status() == 299 {
			rec.Emit("hjrecv", "tls", run.ClientTLS)
			waitEOF(conn, tbr, rec)
			return finish()
		}
		if emitResp(rec, id, m, e, false) {
			waitEOF(conn, tbr, rec)
			return finish()
		}
	}
	return finish()
}

func waitEOF(conn net.Conn, br *bufio.Reader, rec *core.Recorder) {
	conn.SetReadDeadline(time.Now().Add(3 * time.Second))
	buf := make([]byte, 512)
	for {
		_, err := br.Read(buf)
		if err == nil {
			continue
		}
		if strings.Contains(err.Error(), "timeout") {
			return // no EOF: the trace will lack it and be rejected
		}
		emitEOF(rec)
		return
	}
}

// prefixConn lets TLS run over a connection whose first bytes were already buffered.
type prefixConn struct {
	net.Conn
	r *bufio.Reader
}

func (p *prefixConn) Read(b []byte) (int, error) { return p.r.Read(b) }

// RunTransparent drives requests over a TLS connection made directly to a proxy that serves a
// transparent TLS listener (no CONNECT): every request is expected to be secure.
func RunTransparent(o RunOpts, ex []*ep.Exchange, serverName string, roots *x509.CertPool, describe string) (*Result, error) {
	rec := o.Rec
	r := &Result{Scenario: &Scenario{Ex: ex, Origin: describe}, First: rec.Len() + 1}
	finish := func(notes ...string) (*Result, error) {
		live := 0
		if o.Live != nil {
			for i := 0; i < 300; i++ {
				if live = o.Live(); live == 0 {
					break
				}
				time.Sleep(time.Millisecond)
			}
		}
		rec.Emit("end", "live", live)
		r.Last = rec.Len()
		r.Notes = append(r.Notes, notes...)
		if o.Origin != nil {
			r.Notes = append(r.Notes, o.Origin.Notes...)
		}
		return r, nil
	}
	raw, err := net.DialTimeout("tcp", o.ProxyAddr, 3*time.Second)
	if err != nil {
		return nil, err
	}
	defer raw.Close()
	raw.SetDeadline(time.Now().Add(8 * time.Second))
	rec.Emit("newconn", "secure", true)
	tc := tls.Client(raw, &tls.Config{ServerName: serverName, RootCAs: roots})
	if err := tc.Handshake(); err != nil {
		return finish("TLS handshake with the transparent listener failed: " + err.Error())
	}
	br := bufio.NewReader(tc)
	for i, e := range ex {
		rec.Emit("csend", "i", e.Req.ID, "close", e.Req.Close, "connect", false)
		if _, err := tc.Write(e.Req.Bytes()); err != nil {
			r.Notes = append(r.Notes, fmt.Sprintf("writing request %d: %v", e.Req.ID, err))
		}
		method := e.Req.Method
		m, perr, eof := ep.ReadResponse(br, func() string { return method })
		if eof {
			emitEOF(rec)
			return finish()
		}
		if perr != nil {
			if strings.Contains(perr.Error(), "timeout") {
				rec.Emit("stall", "items", i+1)
				return finish()
			}
			rec.Emit("crecv", "t", "resp", "id", e.Req.ID, "k", "garbage", "close", false, "warn", false, "ok", false)
			return finish("client could not parse response: " + perr.Error())
		}
		if m.Status() == 299 {
			rec.Emit("hjrecv", "tls", true)
			waitEOF(raw, br, rec)
			return finish()
		}
		if emitResp(rec, e.Req.ID, m, e, false) {
			waitEOF(raw, br, rec)
			return finish()
		}
	}
	return finish()
}
