// Package h1 turns behaviours of Http1Conn.tla into concrete scenarios, runs them against a
// live proxy with the raw endpoints of package ep, and validates the recorded traces with
// TLC against Http1ConnTrace. It serves properties C01, C02 and C03.
package h1

import (
	"bytes"
	"compress/gzip"
	"fmt"
	"math/rand"
	"net"
	"os"
	"path/filepath"
	"sort"
	"strings"
	"time"

	"verif/harness/core"
	"verif/harness/ep"
)

// Scenario is one client connection's worth of scripted traffic.
type Scenario struct {
	Ex     []*ep.Exchange
	Sched  []ep.SchedOp
	Split  int    // write each request in this many pieces (0/1: one write)
	Origin string // behaviour trace this scenario was derived from (for reports)
	Class  string // short description of what makes the scenario interesting
}

// SimOpts selects the Http1Conn configuration to simulate.
type SimOpts struct {
	MaxReq                 int
	Faults, Mods, Shutdown bool
	Connect                string // none | blind | mitm
	N, Depth               int
}

func cm(s string) string {
	if s == "" {
		return "none"
	}
	return s
}

func tf(b bool) string {
	if b {
		return "TRUE"
	}
	return "FALSE"
}

// ModelCheck runs the exhaustive configuration and records its size.
func ModelCheck(c *core.Ctx, name string, maxReq int, faults, mods, shutdown bool, connect ...string) bool {
	mode := "none"
	if len(connect) > 0 {
		mode = connect[0]
	}
	cfg := fmt.Sprintf("SPECIFICATION Spec\nCONSTANTS\n  MaxReq = %d\n  Faults = %s\n  Mods = %s\n  Shutdown = %s\n  ConnectMode = \""+mode+"\"\n  IgnoreWriteError = FALSE\n"+
		"INVARIANTS OneToOneInOrder OriginInOrder CloseAfter NothingAfterEOF CloseHonoured NoDesync ModsOnce ReqModBeforeUpstream SkipMeansNoContact WarnSurfaces NoCtxAtRest NoTouchAfterHijack\nPROPERTIES KeepAlive\n",
		maxReq, tf(faults), tf(mods), tf(shutdown))
	os.WriteFile(filepath.Join(c.Work, name+".cfg"), []byte(cfg), 0o644)
	res, err := core.RunTLC(c.Work, core.TLCOpts{Module: "Http1Conn", Cfg: name + ".cfg", Workers: 8, Timeout: 20 * time.Minute})
	if err != nil || !res.OK() {
		c.Inconclusive("TLC on Http1Conn (%s) failed: %v %s", name, err, tailOf(res))
		return false
	}
	c.Model(res)
	return true
}

// DeviationCaught checks that the IgnoreWriteError deviation violates NoDesync (non-vacuity).
func DeviationCaught(c *core.Ctx) bool {
	cfg := "SPECIFICATION Spec\nCONSTANTS\n  MaxReq = 2\n  Faults = TRUE\n  Mods = FALSE\n  Shutdown = FALSE\n  ConnectMode = \"none\"\n  IgnoreWriteError = TRUE\nINVARIANTS NoDesync\n"
	os.WriteFile(filepath.Join(c.Work, "h1_dev.cfg"), []byte(cfg), 0o644)
	res, err := core.RunTLC(c.Work, core.TLCOpts{Module: "Http1Conn", Cfg: "h1_dev.cfg", Workers: 4, Timeout: 5 * time.Minute})
	if err != nil || res.Infra() {
		c.Inconclusive("TLC deviation run failed: %v %s", err, tailOf(res))
		return false
	}
	if res.Violated != "NoDesync" {
		c.Inconclusive("self-test: IgnoreWriteError deviation did not violate NoDesync (vacuous?)")
		return false
	}
	c.Extra("deviation_IgnoreWriteError_violates", res.Violated)
	return true
}

// Simulate asks TLC for random behaviours of Http1Conn.
func Simulate(c *core.Ctx, name string, o SimOpts) ([][]core.Step, error) {
	cfg := fmt.Sprintf("SPECIFICATION Spec\nCONSTANTS\n  MaxReq = %d\n  Faults = %s\n  Mods = %s\n  Shutdown = %s\n  ConnectMode = \"%s\"\n  IgnoreWriteError = FALSE\n",
		o.MaxReq, tf(o.Faults), tf(o.Mods), tf(o.Shutdown), cm(o.Connect))
	os.WriteFile(filepath.Join(c.Work, name+".cfg"), []byte(cfg), 0o644)
	base := filepath.Join(c.Work, name+"_sim")
	res, err := core.RunTLC(c.Work, core.TLCOpts{Module: "Http1Conn", Cfg: name + ".cfg", Workers: 1, Timeout: 10 * time.Minute,
		Args: []string{"-simulate", fmt.Sprintf("file=%s,num=%d", base, o.N), "-depth", fmt.Sprint(o.Depth), "-seed", fmt.Sprint(c.Seed)}})
	if err != nil {
		return nil, err
	}
	if res.Infra() || res.Violated != "" {
		return nil, fmt.Errorf("simulation failed: %s", res.Tail(20))
	}
	files, _ := filepath.Glob(base + "_*")
	sort.Strings(files)
	var out [][]core.Step
	for _, f := range files {
		st, err := core.ParseSimFile(f)
		if err != nil {
			return nil, err
		}
		out = append(out, st)
		os.Remove(f)
	}
	return out, nil
}

// EnvOf extracts the environment's choices from a behaviour.
type Env struct {
	Close   []bool   // per request
	Connect []bool   // per request: it is a CONNECT
	Origin  []string // ok | okclose | refuse | reached502 | trunc   ("" = never reached)
	RqB     []string
	RsB     []string
	Sched   []ep.SchedOp
	Finish  bool
	CloseAt int // index in Sched before which proxy.Close() is called (-1: never)
	Key     string
}

// EnvOf projects a behaviour onto the environment.
func EnvOf(steps []core.Step) Env {
	e := Env{CloseAt: -1}
	recv := 0
	var key []string
	set := func(s *[]string, i int, v string) {
		for len(*s) < i {
			*s = append(*s, "")
		}
		(*s)[i-1] = v
	}
	for _, st := range steps {
		switch st.Action {
		case "ClientSend":
			e.Close = append(e.Close, st.Args[0].B)
			e.Connect = append(e.Connect, len(st.Args) > 1 && st.Args[1].B)
			if recv > 0 {
				e.Sched = append(e.Sched, ep.SchedOp{Op: "wait", I: recv})
			}
			e.Sched = append(e.Sched, ep.SchedOp{Op: "send", I: len(e.Close)})
			key = append(key, fmt.Sprintf("S%v@%d", st.Args[0].B, recv))
		case "ClientRecv":
			recv++
		case "ClientFinish":
			if recv > 0 {
				e.Sched = append(e.Sched, ep.SchedOp{Op: "wait", I: recv})
			}
			e.Sched = append(e.Sched, ep.SchedOp{Op: "finish"})
			e.Finish = true
			key = append(key, "F")
		case "ReqMod":
			set(&e.RqB, st.State["rqRan"].Len(), "")
			cur := curOf(st)
			set(&e.RqB, cur, st.Args[0].S)
			key = append(key, "q"+st.Args[0].S)
		case "ResMod":
			set(&e.RsB, curOf(st), st.Args[0].S)
			key = append(key, "s"+st.Args[0].S)
		case "RoundTrip":
			k := st.Args[0].S
			if k == "ok" && st.Args[1].B {
				k = "okclose"
			}
			set(&e.Origin, lastOrigin(st), k)
			key = append(key, "o"+k)
		case "RoundTripReached":
			set(&e.Origin, lastOrigin(st), "reached502")
			key = append(key, "o502")
		case "ConnectDial":
			k := "dialok"
			if !st.Args[0].B {
				k = "dialfail"
			}
			set(&e.Origin, 1, k)
			key = append(key, k)
		case "CloseCalled":
			e.CloseAt = len(e.Sched)
			key = append(key, "X")
		}
	}
	e.Key = strings.Join(key, ",")
	return e
}

func curOf(st core.Step) int {
	// after ReqMod/ResMod the request is still current unless it was hijacked; recover the id from
	// the behaviour maps instead: the largest key of rqb / rsb
	max := 0
	for _, name := range []string{"rqb", "rsb"} {
		v := st.State[name]
		for _, p := range v.Pairs {
			if p[0].Int() > max {
				max = p[0].Int()
			}
		}
		if v.K == core.KSeq && len(v.Elems) > max {
			max = len(v.Elems)
		}
	}
	return max
}

func lastOrigin(st core.Step) int {
	v := st.State["ores"]
	max := 0
	for _, p := range v.Pairs {
		if p[0].Int() > max {
			max = p[0].Int()
		}
	}
	if v.K == core.KSeq && len(v.Elems) > max {
		max = len(v.Elems)
	}
	return max
}

var methods = []string{"GET", "GET", "POST", "PUT", "DELETE", "OPTIONS", "HEAD", "BREW"}
var sizes = []int{0, 1, 17, 4095, 4096, 4097, 65537}
var bigSizes = []int{1 << 20, 3<<20 + 11}

func randBody(rng *rand.Rand, n int) []byte {
	b := make([]byte, n)
	rng.Read(b)
	// make sure the interesting bytes are present
	if n > 8 {
		copy(b, []byte("\r\n\x00\r\n0\r\n\r\n"))
	}
	return b
}

func randHeaders(rng *rand.Rand, tag string) ep.H {
	h := ep.H{}
	if rng.Intn(2) == 0 {
		h = append(h, [2]string{"X-Multi-" + tag, "first"}, [2]string{"x-multi-" + tag, "second, with comma"}, [2]string{"X-MULTI-" + tag, "third"})
	}
	if rng.Intn(2) == 0 {
		h = append(h, [2]string{"X-Empty-" + tag, ""})
	}
	if rng.Intn(3) == 0 {
		h = append(h, [2]string{"X-Long-" + tag, strings.Repeat("v", 3000+rng.Intn(2000))})
	}
	if rng.Intn(2) == 0 {
		h = append(h, [2]string{"Accept-Encoding", "gzip"})
	}
	h = append(h, [2]string{"X-mIxEd-CaSe-" + tag, "Value With  Spaces"}, [2]string{"Cookie", "a=1; b=2"})
	return h
}

func chunksFor(rng *rand.Rand, n int) []int {
	var out []int
	for n > 0 && len(out) < 6 {
		k := 1 + rng.Intn(n)
		out = append(out, k)
		n -= k
	}
	return out
}

// ClosedPort returns an address nobody listens on.
func ClosedPort() string {
	l, err := net.Listen("tcp", "127.0.0.1:0")
	if err != nil {
		return "127.0.0.1:1"
	}
	a := l.Addr().String()
	l.Close()
	return a
}

var paths = []string{"/plain", "/a/b/c?x=1&y=two", "/files/a%2Fb/meta?x=1", "/m%3Bv=1/p", "/lower%2fhex", "/search?", "/sp%20ace?q=a+b%26c", "/"}

// Concretise builds a scenario for an environment.
func Concretise(env Env, rng *rand.Rand, originAddr string, thorough bool) *Scenario {
	sc := &Scenario{Sched: env.Sched, Origin: env.Key}
	if rng.Intn(3) == 0 {
		sc.Split = 2 + rng.Intn(5)
	}
	// pipelined neighbours may be coalesced: request i and half of request i+1 in one segment,
	// the rest only after response i has arrived
	if rng.Intn(3) == 0 {
		for j := 0; j+1 < len(sc.Sched); j++ {
			if sc.Sched[j].Op == "send" && sc.Sched[j+1].Op == "send" && !env.Close[sc.Sched[j].I-1] {
				i := sc.Sched[j].I
				coalesced := append([]ep.SchedOp{}, sc.Sched[:j]...)
				coalesced = append(coalesced, ep.SchedOp{Op: "send+half", I: i}, ep.SchedOp{Op: "wait", I: i}, ep.SchedOp{Op: "resthalf", I: i + 1})
				sc.Sched = append(coalesced, sc.Sched[j+2:]...)
				sc.Origin += ",coalesced"
				break
			}
		}
	}
	for i := range env.Close {
		id := i + 1
		e := &ep.Exchange{RqB: "pass", RsB: "pass"}
		if i < len(env.RqB) && env.RqB[i] != "" {
			e.RqB = env.RqB[i]
		}
		if i < len(env.RsB) && env.RsB[i] != "" {
			e.RsB = env.RsB[i]
		}
		m := methods[rng.Intn(len(methods))]
		p := paths[rng.Intn(len(paths))]
		host := originAddr
		okind := "ok"
		if i < len(env.Origin) && env.Origin[i] != "" {
			okind = env.Origin[i]
		}
		if okind == "refuse" {
			host = ClosedPort()
			e.Refuse = true
		}
		target := p
		if rng.Intn(2) == 0 {
			target = "http://" + host + p
		}
		req := ep.ReqSpec{ID: id, Method: m, Target: target, Path: p, Host: host, Version: "HTTP/1.1", Headers: randHeaders(rng, fmt.Sprint(id)), Close: env.Close[i], Framing: "none"}
		if env.Close[i] && rng.Intn(3) == 0 {
			req.Version = "HTTP/1.0"
		}
		if strings.HasPrefix(e.RqB, "hijack") || strings.HasPrefix(e.RsB, "hijack") {
			// whatever follows the request head on a hijacked connection is the hijacker's business
			m, req.Method = "GET", "GET"
		}
		if m == "POST" || m == "PUT" || m == "BREW" || (m == "DELETE" && rng.Intn(2) == 0) {
			n := sizes[rng.Intn(len(sizes))]
			if thorough && rng.Intn(6) == 0 {
				n = bigSizes[rng.Intn(len(bigSizes))]
			}
			req.Body = randBody(rng, n)
			req.Framing = "cl"
			if rng.Intn(2) == 0 && req.Version == "HTTP/1.1" {
				req.Framing = "chunked"
				req.Chunks = chunksFor(rng, n)
			}
			req.Headers = append(req.Headers, [2]string{"Content-Type", "application/octet-stream"})
		}
		e.Req = req
		res := ep.ResSpec{Status: []int{200, 200, 201, 404, 500}[rng.Intn(5)], Headers: randHeaders(rng, fmt.Sprintf("r%d", id))}
		n := sizes[rng.Intn(len(sizes))]
		if thorough && rng.Intn(6) == 0 {
			n = bigSizes[rng.Intn(len(bigSizes))]
		}
		res.Body = randBody(rng, n)
		res.Headers = append(res.Headers, [2]string{"Content-Type", "application/octet-stream"})
		if rng.Intn(4) == 0 && n > 0 {
			// an already content-encoded representation: must pass through untouched
			var zb bytes.Buffer
			zw := gzip.NewWriter(&zb)
			zw.Write(res.Body)
			zw.Close()
			res.Body = zb.Bytes()
			res.Headers = append(res.Headers, [2]string{"Content-Encoding", "gzip"})
		}
		switch rng.Intn(5) {
		case 0:
			res.Framing = "chunked"
			res.Chunks = chunksFor(rng, n)
		case 1:
			res.Framing = "none"
			res.Status = []int{204, 304}[rng.Intn(2)]
			res.Body = nil
		default:
			res.Framing = "cl"
		}
		if m == "HEAD" {
			if okind == "trunc" {
				// the answer to a HEAD has no body to break off in: make it a plain GET
				m, e.Req.Method = "GET", "GET"
			} else {
				res.Framing = "none"
				if res.Status == 204 || res.Status == 304 {
					res.Status = 200
				}
			}
		}
		switch okind {
		case "okclose":
			res.Close = true
			if rng.Intn(2) == 0 && res.Framing != "none" {
				res.Framing = "close"
				res.Close = false // the framing itself says so
			}
		case "reached502":
			if rng.Intn(2) == 0 {
				res.Fault = "garbage"
			} else {
				res.Fault = "cut"
				raw := res.Bytes(id)
				head := strings.Index(string(raw), "\r\n\r\n") + 4
				res.CutAt = rng.Intn(head) // 0 .. head-1: before the head is complete
			}
		case "trunc":
			if res.Framing == "none" || len(res.Body) < 4 {
				res.Framing = "cl"
				res.Status = 200
				res.Body = randBody(rng, 10+rng.Intn(5000))
			}
			if res.Framing == "chunked" {
				res.Chunks = chunksFor(rng, len(res.Body))
			}
			raw := res.Bytes(id)
			head := strings.Index(string(raw), "\r\n\r\n") + 4
			res.Fault = "cut"
			res.CutAt = head + rng.Intn(len(raw)-head-1) // at least the head, never the whole body
			if res.Framing == "chunked" && res.CutAt > len(raw)-5 {
				res.CutAt = len(raw) - 5 // before the terminating chunk
			}
		}
		e.Res = res
		sc.Ex = append(sc.Ex, e)
	}
	return sc
}

// Result of one scenario run.
type Result struct {
	Scenario *Scenario
	First    int // first trace line (1-based) of this scenario
	Last     int
	Notes    []string
	Timeout  bool
}

// Rejection is a scenario whose trace TLC rejected.
type Rejection struct {
	Res    *Result
	Line   int
	Lines  []string
	Reason string
}

// Validate checks the recorded file scenario by scenario: on a rejection the offending
// scenario is cut out and validation resumes on the rest.
func Validate(c *core.Ctx, rec *core.Recorder, results []*Result, mods bool, name string, connect ...string) []Rejection {
	mode := "none"
	if len(connect) > 0 {
		mode = connect[0]
	}
	var rej []Rejection
	cfgName := "Http1ConnTrace_" + name + ".cfg"
	cfg := fmt.Sprintf("SPECIFICATION TSpec\nCONSTANTS\n  MaxReq = 12\n  Faults = TRUE\n  Mods = %s\n  Shutdown = TRUE\n  ConnectMode = \""+mode+"\"\n  IgnoreWriteError = FALSE\n"+
		"INVARIANTS NotAccepted OneToOneInOrder CloseAfter NothingAfterEOF NoDesync ModsOnce ReqModBeforeUpstream SkipMeansNoContact\nCONSTRAINT HW\nPOSTCONDITION PrintHW\nCHECK_DEADLOCK FALSE\n", tf(mods))
	os.WriteFile(filepath.Join(c.Work, cfgName), []byte(cfg), 0o644)
	lines := strings.Split(strings.TrimRight(string(rec.Bytes()), "\n"), "\n")
	alive := make([]bool, len(results))
	for i := range alive {
		alive[i] = true
	}
	for round := 0; round < 12; round++ {
		var sb strings.Builder
		var idx []int // kept line -> original line
		for ri, r := range results {
			if !alive[ri] {
				continue
			}
			for ln := r.First; ln <= r.Last; ln++ {
				sb.WriteString(lines[ln-1])
				sb.WriteByte('\n')
				idx = append(idx, ln)
			}
		}
		if len(idx) == 0 {
			return rej
		}
		path := filepath.Join(c.Work, fmt.Sprintf("%s-%d.ndjson", name, round))
		os.WriteFile(path, []byte(sb.String()), 0o644)
		v, err := core.ValidateTrace(c.Work, "Http1ConnTrace", cfgName, path, 10*time.Minute, nil)
		if err != nil || v.Infra {
			c.Inconclusive("trace validation (%s) failed to run: %v %s", name, err, tailOf(v.Res))
			return rej
		}
		if v.Accepted {
			return rej
		}
		hw := v.HighWater
		if hw < 1 {
			hw = 1
		}
		if hw > len(idx) {
			hw = len(idx)
		}
		orig := idx[hw-1]
		for ri, r := range results {
			if alive[ri] && orig >= r.First && orig <= r.Last {
				alive[ri] = false
				reason := "the recorded run is not a behaviour of Http1Conn"
				if v.Violated != "" {
					reason = "invariant " + v.Violated + " is violated by the recorded run"
				}
				rej = append(rej, Rejection{Res: r, Line: orig - r.First + 1, Lines: lines[r.First-1 : r.Last], Reason: reason})
			}
		}
	}
	return rej
}

func tailOf(r *core.TLCResult) string {
	if r == nil {
		return ""
	}
	return r.Tail(25)
}

// RunOpts tunes RunScenarios.
type RunOpts struct {
	ProxyAddr string
	Origin    *ep.Origin
	Rec       *core.Recorder
	Quiet     time.Duration
	// Live returns the number of request->context links held (C02), -1 if not observed.
	Live func() int
	// Before/After are called around each scenario (to install per-scenario modifier behaviour).
	Before func(sc *Scenario)
	After  func(sc *Scenario)
}

// RunScenarios drives every scenario over its own client connection and records the events.
func RunScenarios(scs []*Scenario, o RunOpts) ([]*Result, error) {
	if o.Quiet == 0 {
		o.Quiet = 3 * time.Second
	}
	var out []*Result
	for _, sc := range scs {
		o.Origin.Set(sc.Ex)
		if o.Before != nil {
			o.Before(sc)
		}
		r := &Result{Scenario: sc, First: o.Rec.Len() + 1}
		o.Rec.Emit("newconn")
		cr, err := ep.RunClient(o.ProxyAddr, o.Rec, sc.Ex, sc.Sched, sc.Split, o.Quiet)
		if err != nil {
			return out, err
		}
		live := 0
		if o.Live != nil {
			// contexts are unlinked by deferred calls just after the response was flushed
			for i := 0; i < 200; i++ {
				if live = o.Live(); live == 0 {
					break
				}
				time.Sleep(time.Millisecond)
			}
		}
		o.Rec.Emit("end", "live", live)
		r.Last = o.Rec.Len()
		r.Notes = append(append(r.Notes, cr.Notes...), o.Origin.Notes...)
		r.Timeout = cr.Timeout
		if o.After != nil {
			o.After(sc)
		}
		out = append(out, r)
	}
	return out, nil
}

// Describe renders a scenario compactly for reports.
func (sc *Scenario) Describe() map[string]interface{} {
	var ex []string
	for _, e := range sc.Ex {
		f := e.Res.Fault
		if e.Refuse {
			f = "refused"
		}
		ex = append(ex, fmt.Sprintf("#%d %s %s %s body=%d/%s close=%v mods=%s/%s -> %d %s body=%d close=%v fault=%s@%d/%d",
			e.Req.ID, e.Req.Method, e.Req.Target, e.Req.Version, len(e.Req.Body), e.Req.Framing, e.Req.Close, e.RqB, e.RsB,
			e.Res.Status, e.Res.Framing, len(e.Res.Body), e.Res.Close, f, e.Res.CutAt, len(e.Res.Bytes(e.Req.ID))))
	}
	var sch []string
	for _, s := range sc.Sched {
		sch = append(sch, fmt.Sprintf("%s(%d)", s.Op, s.I))
	}
	return map[string]interface{}{"exchanges": ex, "schedule": strings.Join(sch, " "), "split_writes": sc.Split, "behaviour": sc.Origin}
}

// SimulateEnv samples environment scripts from H1Env.tla (the environment of Http1Conn on
// its own), which reaches long connections that random walks over the full system rarely do.
func SimulateEnv(c *core.Ctx, name string, maxReq int, faults, mods, connectFirst bool, n int) ([]Env, error) {
	cfg := fmt.Sprintf("SPECIFICATION Spec\nCONSTANTS\n  MaxReq = %d\n  Faults = %s\n  Mods = %s\n  ConnectFirst = %s\n", maxReq, tf(faults), tf(mods), tf(connectFirst))
	os.WriteFile(filepath.Join(c.Work, name+".cfg"), []byte(cfg), 0o644)
	base := filepath.Join(c.Work, name+"_sim")
	res, err := core.RunTLC(c.Work, core.TLCOpts{Module: "H1Env", Cfg: name + ".cfg", Workers: 1, Timeout: 10 * time.Minute,
		Args: []string{"-simulate", fmt.Sprintf("file=%s,num=%d", base, n), "-depth", fmt.Sprint(maxReq + 3), "-seed", fmt.Sprint(c.Seed)}})
	if err != nil {
		return nil, err
	}
	if res.Infra() || res.Violated != "" {
		return nil, fmt.Errorf("simulation of H1Env failed: %s", res.Tail(20))
	}
	files, _ := filepath.Glob(base + "_*")
	sort.Strings(files)
	var out []Env
	for _, f := range files {
		st, err := core.ParseSimFile(f)
		os.Remove(f)
		if err != nil || len(st) == 0 {
			continue
		}
		script := st[len(st)-1].State["script"]
		e := Env{CloseAt: -1}
		var key []string
		for i, r := range script.Elems {
			e.Close = append(e.Close, r.Get("close").B)
			e.Connect = append(e.Connect, r.Get("connect").B)
			e.RqB = append(e.RqB, r.Get("rqb").S)
			e.RsB = append(e.RsB, r.Get("rsb").S)
			e.Origin = append(e.Origin, r.Get("origin").S)
			if r.Get("ahead").Int() == 1 && i > 0 {
				e.Sched = append(e.Sched, ep.SchedOp{Op: "wait", I: i})
			}
			e.Sched = append(e.Sched, ep.SchedOp{Op: "send", I: i + 1})
			key = append(key, fmt.Sprintf("[%v %v %s/%s %s a%d]", r.Get("close").B, r.Get("connect").B, r.Get("rqb").S, r.Get("rsb").S, r.Get("origin").S, r.Get("ahead").Int()))
		}
		e.Key = strings.Join(key, "")
		if len(e.Close) > 0 {
			out = append(out, e)
		}
	}
	return out, nil
}
