package h1

import (
	"crypto/tls"
	"crypto/x509"
	"fmt"
	"io"
	"net"
	"net/http"
	"time"

	"github.com/google/martian/v3"
	"github.com/google/martian/v3/mitm"

	"verif/harness/core"
	"verif/harness/ep"
)

// World is a complete live environment: plain and TLS origins, an echo target for blind
// tunnels, proxies with and without MITM, the harness modifiers and a dial redirector, so
// that "was the origin reached over TLS or TCP" is an observation.
type World struct {
	Rec        *core.Recorder
	Plain      *ep.Origin // reached as origin.test:80 (and by its loopback address)
	TLSOrigin  *ep.Origin // reached as origin.test:443
	Echo       net.Listener
	Mods       *Mods
	CA         *x509.Certificate
	Roots      *x509.CertPool
	MITM       *mitm.Config
	Proxy      *martian.Proxy // no MITM
	ProxyAddr  string
	MProxy     *martian.Proxy // MITM enabled
	MProxyAddr string
	closers    []func()
}

// NewWorld builds the environment. wrapListener may wrap the proxies' listeners (C05: shaped).
func NewWorld(rec *core.Recorder, wrapListener func(net.Listener) net.Listener) (*World, error) {
	w := &World{Rec: rec, Mods: &Mods{Rec: rec}}
	var err error
	if w.Plain, err = ep.NewOrigin(rec); err != nil {
		return nil, err
	}
	w.closers = append(w.closers, w.Plain.Close)
	ocert, okey, err := mitm.NewAuthority("origin.test", "origin", time.Hour)
	if err != nil {
		return nil, err
	}
	if w.TLSOrigin, err = ep.NewTLSOrigin(rec, tls.Certificate{Certificate: [][]byte{ocert.Raw}, PrivateKey: okey}); err != nil {
		return nil, err
	}
	w.closers = append(w.closers, w.TLSOrigin.Close)
	if w.Echo, err = net.Listen("tcp", "127.0.0.1:0"); err != nil {
		return nil, err
	}
	w.closers = append(w.closers, func() { w.Echo.Close() })
	go func() {
		for {
			c, err := w.Echo.Accept()
			if err != nil {
				return
			}
			go func() { defer c.Close(); io.Copy(c, c) }()
		}
	}()
	ca, cakey, err := mitm.NewAuthority("verif MITM CA", "verif", time.Hour)
	if err != nil {
		return nil, err
	}
	w.CA = ca
	w.Roots = x509.NewCertPool()
	w.Roots.AddCert(ca)
	if w.MITM, err = mitm.NewConfig(ca, cakey); err != nil {
		return nil, err
	}
	dial := func(network, addr string) (net.Conn, error) {
		switch addr {
		case "origin.test:80":
			return net.DialTimeout("tcp", w.Plain.Addr(), 3*time.Second)
		case "origin.test:443":
			return net.DialTimeout("tcp", w.TLSOrigin.Addr(), 3*time.Second)
		case "tunnel.test:443":
			c, err := net.DialTimeout("tcp", w.Echo.Addr().String(), 3*time.Second)
			w.Rec.Emit("dial", "ok", err == nil)
			return c, err
		case "dead.test:443":
			w.Rec.Emit("dial", "ok", false)
			return nil, fmt.Errorf("dial %s: connection refused (harness)", addr)
		}
		return net.DialTimeout(network, addr, 3*time.Second)
	}
	mk := func(withMITM bool) (*martian.Proxy, string, error) {
		p := martian.NewProxy()
		p.SetDial(dial)
		if tr, ok := p.GetRoundTripper().(*http.Transport); ok {
			tr.TLSClientConfig = &tls.Config{InsecureSkipVerify: true}
		}
		// after SetDial, which only reaches a bare *http.Transport
		p.SetRoundTripper(cloningRT{p.GetRoundTripper()})
		p.SetRequestModifier(w.Mods)
		p.SetResponseModifier(w.Mods)
		if withMITM {
			p.SetMITM(w.MITM)
		}
		l, err := net.Listen("tcp", "127.0.0.1:0")
		if err != nil {
			return nil, "", err
		}
		addr := l.Addr().String()
		if wrapListener != nil {
			l = wrapListener(l)
		}
		go p.Serve(l)
		return p, addr, nil
	}
	if w.Proxy, w.ProxyAddr, err = mk(false); err != nil {
		return nil, err
	}
	if w.MProxy, w.MProxyAddr, err = mk(true); err != nil {
		return nil, err
	}
	return w, nil
}

// cloningRT behaves like the wrapping transports found in the wild (oauth2.Transport and the
// like): for every other exchange it sends a clone of the request, so the response it returns
// refers to the clone and not to the request the proxy handed in. The proxy has to present the
// response modifier with the request its request modifier saw whatever the transport does (C02).
type cloningRT struct{ base http.RoundTripper }

func (c cloningRT) RoundTrip(req *http.Request) (*http.Response, error) {
	if idOf(req)%2 == 0 {
		return c.base.RoundTrip(req)
	}
	return c.base.RoundTrip(req.Clone(req.Context()))
}

// UseRecorder switches every event source of the environment to a new recorder.
func (w *World) UseRecorder(r *core.Recorder) {
	w.Rec, w.Mods.Rec, w.Plain.Rec, w.TLSOrigin.Rec = r, r, r, r
}

// SetExchanges installs a scenario on every origin and on the modifiers.
func (w *World) SetExchanges(ex []*ep.Exchange) {
	w.Plain.Set(ex)
	w.TLSOrigin.Set(ex)
	w.Mods.Set(ex)
}

// Live is the number of contexts still linked or retrievable.
func (w *World) Live() int {
	n := martian.VerifLiveContexts()
	if r := w.Mods.Retained(); r > n {
		n = r
	}
	return n
}

// Close tears the environment down. Proxies are closed in the background: Close waits for
// connections, which is not what is being checked here.
func (w *World) Close() {
	go w.Proxy.Close()
	go w.MProxy.Close()
	for _, f := range w.closers {
		f()
	}
}
