// Package c12 decides property C12: configuration trees enumerated by ModTree.tla are
// rendered to real JSON over the registered groups, filters and modifiers, parsed by
// parse.FromJSON / posted to martianhttp.Modifier, evaluated on real requests and
// responses, and the order of leaves that ran and the errors reported must equal the
// specification's Eval. Deep random trees are checked in the other direction: the
// implementation's observations are validated by TLC against Eval.
package c12

import (
	"bytes"
	"crypto/sha1"
	"encoding/hex"
	"encoding/json"
	"fmt"
	"math/rand"
	"net/http"
	"net/http/httptest"
	"os"
	"path/filepath"
	"regexp"
	"strings"
	"time"

	"github.com/google/martian/v3"
	_ "github.com/google/martian/v3/cookie"
	_ "github.com/google/martian/v3/fifo"
	_ "github.com/google/martian/v3/header"
	"github.com/google/martian/v3/martianhttp"
	_ "github.com/google/martian/v3/martianurl"
	_ "github.com/google/martian/v3/method"
	"github.com/google/martian/v3/parse"
	_ "github.com/google/martian/v3/priority"
	"github.com/google/martian/v3/proxyutil"
	_ "github.com/google/martian/v3/querystring"

	"verif/harness/core"
)

const traceHeader = "X-Verif-Trace"

func init() {
	core.Register("C12", Run)
	parse.Register("verif.Probe", probeFromJSON)
}

// probe is the harness leaf: it appends its path to the trace header and may fail.
type probe struct {
	Path  string               `json:"path"`
	Fail  bool                 `json:"fail"`
	Scope []parse.ModifierType `json:"scope"`
}

func (p *probe) ModifyRequest(req *http.Request) error {
	req.Header.Add(traceHeader, p.Path)
	if p.Fail {
		return fmt.Errorf("probe %s failed", p.Path)
	}
	return nil
}
func (p *probe) ModifyResponse(res *http.Response) error {
	res.Header.Add(traceHeader, p.Path)
	if p.Fail {
		return fmt.Errorf("probe %s failed", p.Path)
	}
	return nil
}
func probeFromJSON(b []byte) (*parse.Result, error) {
	p := &probe{}
	if err := json.Unmarshal(b, p); err != nil {
		return nil, err
	}
	return parse.NewResult(p, p.Scope)
}

// node mirrors the specification's uniform record.
type node struct {
	T     string  `json:"t"`
	Sc    string  `json:"sc"`
	Fail  bool    `json:"fail"`
	Agg   bool    `json:"agg"`
	Cond  string  `json:"cond"`
	Kids  []*node `json:"kids"`
	Prios []int   `json:"prios"`
}

func nodeOf(v core.Val) *node {
	n := &node{T: v.Get("t").S, Sc: v.Get("sc").S, Fail: v.Get("fail").B, Agg: v.Get("agg").B, Cond: v.Get("cond").S,
		Kids: []*node{}, Prios: []int{}}
	for _, k := range v.Get("kids").Elems {
		n.Kids = append(n.Kids, nodeOf(k))
	}
	n.Prios = append(n.Prios, v.Get("prios").Ints()...)
	return n
}

func scopeJSON(sc string) string {
	switch sc {
	case "req":
		return `,"scope":["request"]`
	case "res":
		return `,"scope":["response"]`
	case "both":
		return `,"scope":["request","response"]`
	case "bogus":
		return `,"scope":["bogus"]`
	}
	return ""
}

// condition variants: which registered filter type plays c1 and c2
type condVariant struct {
	c1, c2 string
}

var condVariants = []condVariant{{"url-host", "header"}, {"query", "method"}, {"cookie", "url-path"}}

func filterJSON(kind, cond string) (name, fields string) {
	switch kind {
	case "url-host":
		return "url.Filter", `"host":"` + cond + `.example"`
	case "url-path":
		return "url.Filter", `"path":"/` + cond + `"`
	case "header":
		return "header.Filter", `"name":"X-` + cond + `","value":"yes"`
	case "query":
		return "querystring.Filter", `"name":"` + cond + `","value":"yes"`
	case "method":
		return "method.Filter", `"method":"POST"`
	case "cookie":
		return "cookie.Filter", `"name":"` + cond + `","value":"yes"`
	}
	panic(kind)
}

func pathStr(p []int) string {
	s := "r"
	for _, i := range p {
		s += fmt.Sprintf(".%d", i)
	}
	return s
}

// render produces the configuration JSON for a tree.
func render(n *node, path []int, cv condVariant, leafStyle int) string {
	sc := scopeJSON(n.Sc)
	switch n.T {
	case "leaf":
		if !n.Fail && (leafStyle+len(path))%2 == 1 {
			return fmt.Sprintf(`{"header.Append":{"name":%q,"value":%q%s}}`, traceHeader, pathStr(path), sc)
		}
		return fmt.Sprintf(`{"verif.Probe":{"path":%q,"fail":%v%s}}`, pathStr(path), n.Fail, sc)
	case "fifo":
		var ks []string
		for i, k := range n.Kids {
			ks = append(ks, render(k, append(append([]int{}, path...), i+1), cv, leafStyle))
		}
		return fmt.Sprintf(`{"fifo.Group":{"aggregateErrors":%v,"modifiers":[%s]%s}}`, n.Agg, strings.Join(ks, ","), sc)
	case "prio":
		var ks []string
		for i, k := range n.Kids {
			ks = append(ks, fmt.Sprintf(`{"priority":%d,"modifier":%s}`, n.Prios[i], render(k, append(append([]int{}, path...), i+1), cv, leafStyle)))
		}
		return fmt.Sprintf(`{"priority.Group":{"modifiers":[%s]%s}}`, strings.Join(ks, ","), sc)
	case "filter":
		kind := cv.c1
		if n.Cond == "c2" {
			kind = cv.c2
		}
		name, fields := filterJSON(kind, n.Cond)
		s := fmt.Sprintf(`{%q:{%s,"modifier":%s`, name, fields, render(n.Kids[0], append(append([]int{}, path...), 1), cv, leafStyle))
		if len(n.Kids) == 2 {
			s += `,"else":` + render(n.Kids[1], append(append([]int{}, path...), 2), cv, leafStyle)
		}
		return s + sc + "}}"
	case "unknown":
		return `{"nosuch.Modifier":{"x":1}}`
	case "malformed":
		return `{"fifo.Group": {"modifiers": [`
	}
	return `{}`
}

// message builds a request (and response) that gives the conditions the wanted truth values.
func message(kind string, env map[string]bool, cv condVariant) (*http.Request, *http.Response) {
	host, path, method := "other.example", "/p", "GET"
	q := []string{}
	hdr := http.Header{}
	var cookies []*http.Cookie
	for c, kindc := range map[string]string{"c1": cv.c1, "c2": cv.c2} {
		v := env[c]
		switch kindc {
		case "url-host":
			if v {
				host = c + ".example"
			}
		case "url-path":
			if v {
				path = "/" + c
			}
		case "header":
			if v {
				hdr.Set("X-"+c, "yes")
			} else {
				hdr.Set("X-"+c, "no")
			}
		case "query":
			if v {
				q = append(q, c+"=yes")
			} else {
				q = append(q, c+"=no")
			}
		case "method":
			if v {
				method = "POST"
			}
		case "cookie":
			val := "no"
			if v {
				val = "yes"
			}
			cookies = append(cookies, &http.Cookie{Name: c, Value: val})
		}
	}
	u := "http://" + host + path
	if len(q) > 0 {
		u += "?" + strings.Join(q, "&")
	}
	req, _ := http.NewRequest(method, u, nil)
	for k, v := range hdr {
		req.Header[k] = v
	}
	for _, ck := range cookies {
		req.AddCookie(ck)
	}
	res := proxyutil.NewResponse(200, nil, req)
	for k, v := range hdr {
		res.Header[k] = v
	}
	for _, ck := range cookies {
		res.Header.Add("Set-Cookie", ck.String())
	}
	return req, res
}

var probeErr = regexp.MustCompile(`probe (\S+) failed`)

func flattenErr(err error) []string {
	if err == nil {
		return nil
	}
	if me, ok := err.(*martian.MultiError); ok {
		var out []string
		for _, e := range me.Errors() {
			out = append(out, flattenErr(e)...)
		}
		return out
	}
	if m := probeErr.FindStringSubmatch(err.Error()); m != nil && err.Error() == m[0] {
		return []string{m[1]}
	}
	return []string{"?" + err.Error()}
}

// evalImpl runs one message of the given kind through the modifiers.
func evalImpl(reqmod martian.RequestModifier, resmod martian.ResponseModifier, kind string, env map[string]bool, cv condVariant) string {
	req, res := message(kind, env, cv)
	_, rm, _ := martian.TestContext(req, nil, nil)
	defer rm()
	var tr []string
	var err error
	if kind == "req" {
		if reqmod != nil {
			err = reqmod.ModifyRequest(req)
		}
		tr = req.Header[traceHeader]
	} else {
		if resmod != nil {
			err = resmod.ModifyResponse(res)
		}
		tr = res.Header[traceHeader]
	}
	return fmt.Sprintf("tr=%v er=%v", tr, flattenErr(err))
}

type machine struct {
	init      core.State
	cv        condVariant
	leafStyle int
	viaHTTP   bool
	cfg       *martianhttp.Modifier
	result    string
	detail    string
}

func envOf(v core.Val) map[string]bool {
	return map[string]bool{"c1": v.Get("c1").B, "c2": v.Get("c2").B}
}

func (m *machine) Apply(action string, args []core.Val) error {
	switch action {
	case "Evaluate":
		n := nodeOf(m.init["tree"])
		js := render(n, nil, m.cv, m.leafStyle)
		m.detail = js
		var reqmod martian.RequestModifier
		var resmod martian.ResponseModifier
		if m.viaHTTP {
			cfg := martianhttp.NewModifier()
			rec := httptest.NewRecorder()
			cfg.ServeHTTP(rec, httptest.NewRequest("POST", "/configure", strings.NewReader(js)))
			if rec.Code != 200 {
				m.result = fmt.Sprintf("REJECTED status=%d %s", rec.Code, rec.Body.String())
				return nil
			}
			reqmod, resmod = cfg, cfg
		} else {
			r, err := parse.FromJSON([]byte(js))
			if err != nil {
				m.result = "REJECTED " + err.Error()
				return nil
			}
			reqmod, resmod = r.RequestModifier(), r.ResponseModifier()
		}
		m.result = evalImpl(reqmod, resmod, m.init["kind"].S, envOf(m.init["env"]), m.cv)
	case "Post":
		if m.cfg == nil {
			m.cfg = martianhttp.NewModifier()
		}
		js := render(nodeOf(args[0]), nil, m.cv, m.leafStyle)
		m.detail += " POST " + js
		rec := httptest.NewRecorder()
		m.cfg.ServeHTTP(rec, httptest.NewRequest("POST", "/configure", strings.NewReader(js)))
		get := httptest.NewRecorder()
		m.cfg.ServeHTTP(get, httptest.NewRequest("GET", "/configure", nil))
		m.result = fmt.Sprintf("status=%d config=%s", rec.Code, cfgHash(get.Body.Bytes()))
	case "Probe":
		m.result = evalImpl(m.cfg, m.cfg, args[0].S, envOf(m.init["env"]), m.cv)
	default:
		return fmt.Errorf("unknown action %s", action)
	}
	return nil
}

func cfgHash(b []byte) string {
	var buf bytes.Buffer
	if len(bytes.TrimSpace(b)) == 0 {
		return "none"
	}
	if err := json.Compact(&buf, b); err != nil {
		return "unparseable"
	}
	h := sha1.Sum(buf.Bytes())
	return hex.EncodeToString(h[:5])
}

func (m *machine) Project() string {
	if m.result == "" {
		return "in"
	}
	return m.result
}
func (m *machine) Detail() string { return m.detail }

func pathsStr(v core.Val) string {
	var out []string
	for _, p := range v.Elems {
		out = append(out, pathStr(p.Ints()))
	}
	return fmt.Sprint(out)
}

func abstractFor(cv condVariant, leafStyle int) func(core.State) string {
	return func(s core.State) string {
		if s["phase"].S == "out" {
			return fmt.Sprintf("tr=%s er=%s", pathsStr(s["out"].Get("tr")), pathsStr(s["out"].Get("er")))
		}
		if s["mode"].S == "reconf" && s["posts"].Int() > 0 {
			cfg := "none"
			if s["active"].Get("t").S != "none" {
				cfg = cfgHash([]byte(render(nodeOf(s["active"]), nil, cv, leafStyle)))
			}
			return fmt.Sprintf("status=%d config=%s", s["lastStatus"].Int(), cfg)
		}
		return "in"
	}
}

// Run is the C12 check.
func Run(c *core.Ctx) {
	c.Describe(
		"TLC enumerates every configuration tree of depth <= 1 over the full alphabet (leaves with 4 scope values x failing or not; fifo groups with aggregateErrors on/off, priority groups with priorities {1,2}, filters over 2 conditions with and without else-branch, each with 4 scope values; width <= MaxWidth) x message kind x condition valuation, plus every sequence of <= MaxPosts POSTs of valid and invalid configurations followed by probes. Each tree is rendered to JSON over fifo.Group, priority.Group, url/header/querystring/method/cookie.Filter, header.Append and the harness-registered verif.Probe, parsed (parse.FromJSON or POST to martianhttp.Modifier) and run on a real request/response built to give the conditions their truth values. Random trees of depth <= 4 and width <= 3 are evaluated by the implementation and the recorded observations are validated by TLC against Eval (ModTreeTrace). Non-trivial = trees with at least one group or filter.",
		"ModTree.tla defines Eval (depth-first meaning) and Valid; invariants OnlyLeavesRun, EachLeafAtMostOnce, ErrorsAreFailingLeavesOnce, RejectedKeepsActive checked by TLC. Binding both ways: graph replay (model->code) and trace validation of random deep trees (code->model).",
		true,
		"conditions c1/c2 are realised by three rotating pairs of registered filter types; a self-test checks each realisation is true/false as intended")
	maxWidth := 2
	cfg := fmt.Sprintf("SPECIFICATION Spec\nCONSTANTS\n  MaxWidth = %d\n  MaxPosts = %d\nINVARIANTS OnlyLeavesRun EachLeafAtMostOnce ErrorsAreFailingLeavesOnce\nPROPERTIES RejectedKeepsActive\n", maxWidth, c.Pick(2, 3))
	os.WriteFile(filepath.Join(c.Work, "ModTree_run.cfg"), []byte(cfg), 0o644)
	dot := filepath.Join(c.Work, "modtree.dot")
	res, err := core.RunTLC(c.Work, core.TLCOpts{Module: "ModTree", Cfg: "ModTree_run.cfg", Workers: 8, Timeout: 20 * time.Minute,
		Args: []string{"-dump", "dot,actionlabels", dot}})
	if err != nil || !res.OK() {
		c.Inconclusive("TLC on ModTree failed: %v %s", err, tail(res))
		return
	}
	c.Model(res)
	g, err := core.ParseDot(dot)
	if err != nil {
		c.Inconclusive("parse graph: %v", err)
		return
	}
	c.ModelGraph(g)
	// self-test of the condition realisations
	for _, cv := range condVariants {
		for _, kind := range []string{"req", "res"} {
			for _, v1 := range []bool{false, true} {
				for _, v2 := range []bool{false, true} {
					env := map[string]bool{"c1": v1, "c2": v2}
					for _, cond := range []string{"c1", "c2"} {
						t := &node{T: "filter", Sc: "none", Cond: cond, Kids: []*node{{T: "leaf", Sc: "none"}, {T: "leaf", Sc: "none"}}}
						r, err := parse.FromJSON([]byte(render(t, nil, cv, 0)))
						if err != nil {
							c.Inconclusive("self-test config rejected: %v", err)
							return
						}
						want := "tr=[r.2] er=[]"
						if env[cond] {
							want = "tr=[r.1] er=[]"
						}
						if got := evalImpl(r.RequestModifier(), r.ResponseModifier(), kind, env, cv); got != want {
							c.Violation(fmt.Sprintf("cond:%v/%s/%s", cv, kind, cond), fmt.Sprintf("a %s filter (%v) on a %s with env %v gave %s, want %s", cond, cv, kind, env, got, want), nil)
						}
					}
				}
			}
		}
	}
	variants := c.Pick(3, 6)
	for v := 0; v < variants; v++ {
		cv := condVariants[(v+int(c.Seed))%len(condVariants)]
		leafStyle := v
		viaHTTP := v%2 == 1
		core.ReplayGraph(c, g, core.ReplayOpts{
			SigPrefix: fmt.Sprintf("v%d:", v),
			NewFor: func(init core.State) core.Machine {
				return &machine{init: init, cv: cv, leafStyle: leafStyle, viaHTTP: viaHTTP}
			},
			Abstract: abstractFor(cv, leafStyle),
			NonTrivial: func(from core.State, e core.Edge, to core.State) string {
				if e.Action == "Evaluate" && from["tree"].Get("t").S != "leaf" {
					return "eval:" + from["tree"].String() + from["kind"].S + from["env"].String()
				}
				if e.Action == "Probe" {
					return "probe:" + from["active"].String() + e.Label
				}
				return ""
			},
		})
	}
	deep(c)
}

// ---- direction V: random deep trees, implementation observations validated by TLC

func randTree(rng *rand.Rand, depth, width int) *node {
	scopes := []string{"none", "none", "req", "res", "both"}
	sc := scopes[rng.Intn(len(scopes))]
	if depth == 0 || rng.Intn(4) == 0 {
		return &node{T: "leaf", Sc: sc, Fail: rng.Intn(4) == 0, Kids: []*node{}, Prios: []int{}}
	}
	n := &node{Sc: sc, Kids: []*node{}, Prios: []int{}}
	switch rng.Intn(3) {
	case 0:
		n.T, n.Agg = "fifo", rng.Intn(2) == 0
		for i := rng.Intn(width + 1); i > 0; i-- {
			n.Kids = append(n.Kids, randTree(rng, depth-1, width))
		}
	case 1:
		n.T = "prio"
		for i := rng.Intn(width + 1); i > 0; i-- {
			n.Kids = append(n.Kids, randTree(rng, depth-1, width))
			n.Prios = append(n.Prios, 1+rng.Intn(3))
		}
	default:
		n.T, n.Cond = "filter", []string{"c1", "c2"}[rng.Intn(2)]
		n.Kids = append(n.Kids, randTree(rng, depth-1, width))
		if rng.Intn(2) == 0 {
			n.Kids = append(n.Kids, randTree(rng, depth-1, width))
		}
	}
	return n
}

var trRe = regexp.MustCompile(`r(?:\.\d+)*`)

func parsePaths(ss []string) [][]int {
	out := [][]int{}
	for _, s := range ss {
		p := []int{}
		for _, f := range strings.Split(s, ".")[1:] {
			var i int
			fmt.Sscanf(f, "%d", &i)
			p = append(p, i)
		}
		out = append(out, p)
	}
	return out
}

func deep(c *core.Ctx) {
	if !c.Want("deep:") {
		return
	}
	rng := rand.New(rand.NewSource(c.Seed))
	n := c.Pick(1500, 20000)
	rec := &core.Recorder{}
	for i := 0; i < n; i++ {
		cv := condVariants[i%len(condVariants)]
		t := randTree(rng, 2+rng.Intn(3), 3)
		js := render(t, nil, cv, i)
		kind := []string{"req", "res"}[rng.Intn(2)]
		env := map[string]bool{"c1": rng.Intn(2) == 0, "c2": rng.Intn(2) == 0}
		r, err := parse.FromJSON([]byte(js))
		if err != nil {
			c.Violation("deep:rejected", fmt.Sprintf("valid configuration rejected: %v: %s", err, js), map[string]string{"config": js})
			continue
		}
		req, res := message(kind, env, cv)
		_, rm, _ := martian.TestContext(req, nil, nil)
		var tr []string
		var merr error
		if kind == "req" {
			if m := r.RequestModifier(); m != nil {
				merr = m.ModifyRequest(req)
			}
			tr = req.Header[traceHeader]
		} else {
			if m := r.ResponseModifier(); m != nil {
				merr = m.ModifyResponse(res)
			}
			tr = res.Header[traceHeader]
		}
		rm()
		er := flattenErr(merr)
		bad := false
		for _, e := range er {
			if strings.HasPrefix(e, "?") {
				bad = true
			}
		}
		if bad {
			c.Violation("deep:foreign-error", fmt.Sprintf("unexpected error %v from %s", er, js), map[string]string{"config": js})
			continue
		}
		rec.Emit("eval", "tree", t, "kind", kind, "env", env, "tr", parsePaths(tr), "er", parsePaths(er), "cfg", js)
		c.Eval(fmt.Sprintf("deep:%d", i))
		if i%400 == 0 {
			c.Sample(map[string]interface{}{"config": json.RawMessage(js), "kind": kind, "env": env, "ran": tr, "errors": er})
		}
	}
	path := filepath.Join(c.Work, "deep.ndjson")
	rec.WriteFile(path)
	v, err := core.ValidateTrace(c.Work, "ModTreeTrace", "ModTreeTrace.cfg", path, 15*time.Minute, nil)
	if err != nil || v.Infra {
		c.Inconclusive("trace validation failed to run: %v %s", err, tail(v.Res))
		return
	}
	c.Trace(rec.Len())
	if !v.Accepted {
		lines := strings.Split(string(rec.Bytes()), "\n")
		line := ""
		if v.HighWater >= 1 && v.HighWater <= len(lines) {
			line = lines[v.HighWater-1]
		}
		c.Violation("deep:mismatch", fmt.Sprintf("the implementation's observation for random tree #%d is not Eval's: %s", v.HighWater, line), map[string]string{"event": line})
	}
}

func tail(r *core.TLCResult) string {
	if r == nil {
		return ""
	}
	return r.Tail(30)
}
