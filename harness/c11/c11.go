// Package c11 decides property C11 (gRPC reframing) by replaying the state graph and
// behaviours of GrpcFraming.tla - every cut of a length-prefixed message stream into DATA
// frames - on the real adapter/emitter pair of h2/grpc, built through the verif hook
// h2.NewProcessorsForVerif.
package c11

import (
	"bytes"
	"compress/flate"
	"compress/gzip"
	"encoding/binary"
	"fmt"
	"io/ioutil"
	"math/rand"
	"net/url"
	"os"
	"path/filepath"
	"strings"
	"sync"
	"time"

	"github.com/golang/snappy"
	"github.com/google/martian/v3/h2"
	mgrpc "github.com/google/martian/v3/h2/grpc"
	"golang.org/x/net/http2"
	"golang.org/x/net/http2/hpack"

	"verif/harness/core"
)

func init() { core.Register("C11", Run) }

var encodings = []string{"identity", "gzip", "deflate", "snappy"}

type call struct {
	data []byte
	nilD bool
	es   bool
}

// passthru is the recording pass-through gRPC processor.
type passthru struct {
	next  mgrpc.Processor
	calls *[]call
}

func (p *passthru) Header(h []hpack.HeaderField, es bool, pr http2.PriorityParam) error {
	return p.next.Header(h, es, pr)
}
func (p *passthru) Message(data []byte, es bool) error {
	*p.calls = append(*p.calls, call{data: append([]byte(nil), data...), nilD: data == nil, es: es})
	return p.next.Message(data, es)
}

// sink records what reaches the destination side.
type sink struct {
	frames  []call
	headers int
}

func (s *sink) Data(data []byte, es bool) error {
	s.frames = append(s.frames, call{data: append([]byte(nil), data...), es: es})
	return nil
}
func (s *sink) Header(h []hpack.HeaderField, es bool, pr http2.PriorityParam) error {
	s.headers++
	return nil
}
func (s *sink) Priority(http2.PriorityParam) error            { return nil }
func (s *sink) RSTStream(http2.ErrCode) error                 { return nil }
func (s *sink) PushPromise(uint32, []hpack.HeaderField) error { return nil }

type params struct {
	enc   string
	dir   h2.Direction
	block int
	seed  int64
}

type machine struct {
	p       params
	grpc    bool
	plain   [][]byte // decompressed payload of each message
	flags   []bool
	wire    []byte
	tokOff  []int // byte offset of token boundary i (0..ntokens)
	pos     int
	ad      h2.Processor
	calls   []call
	snk     *sink
	lastRaw []byte
	lastES  bool
	err     error
}

func compress(enc string, b []byte) []byte {
	var buf bytes.Buffer
	switch enc {
	case "gzip":
		w := gzip.NewWriter(&buf)
		w.Write(b)
		w.Close()
	case "deflate":
		w, _ := flate.NewWriter(&buf, -1)
		w.Write(b)
		w.Close()
	case "snappy":
		w := snappy.NewBufferedWriter(&buf) // stream format: what the adapter accepts on input
		w.Write(b)
		w.Close()
	default:
		return b
	}
	return buf.Bytes()
}

// decompress is the harness's own decoder for the destination side.
func decompress(enc string, b []byte) ([]byte, error) {
	switch enc {
	case "gzip":
		r, err := gzip.NewReader(bytes.NewReader(b))
		if err != nil {
			return nil, err
		}
		return ioutil.ReadAll(r)
	case "deflate":
		return ioutil.ReadAll(flate.NewReader(bytes.NewReader(b)))
	case "snappy":
		return ioutil.ReadAll(snappy.NewReader(bytes.NewReader(b)))
	}
	return b, nil
}

func newMachine(init core.State, p params) *machine {
	m := &machine{p: p, grpc: init["grpc"].B, snk: &sink{}}
	rng := rand.New(rand.NewSource(p.seed))
	lens := init["msgs"].Ints()
	m.tokOff = []int{0}
	for i, n := range lens {
		var plain, data []byte
		flag := false
		if n > 0 {
			flag = p.enc != "identity" && rng.Intn(3) != 0
			if p.enc == "identity" && rng.Intn(4) == 0 {
				flag = true // compressed flag under identity encoding: payload passes as is
			}
			size := n * p.block
			if flag && p.enc != "identity" {
				// payload tokens are pieces of the compressed bytes; decompressed size is free
				plain = make([]byte, rng.Intn(3*size+1))
				for j := range plain {
					plain[j] = byte('a' + rng.Intn(4)) // compressible
				}
				plain = append([]byte(fmt.Sprintf("m%d:", i+1)), plain...)
				if rng.Intn(6) == 0 {
					plain = []byte{}
				}
				data = compress(p.enc, plain)
				if len(data) < n { // snappy's stream writer emits nothing for an empty payload
					plain = []byte(fmt.Sprintf("m%d:", i+1))
					data = compress(p.enc, plain)
				}
			} else {
				plain = make([]byte, size)
				rng.Read(plain)
				data = plain
			}
		} else {
			plain, data = []byte{}, []byte{}
		}
		m.plain = append(m.plain, plain)
		m.flags = append(m.flags, flag)
		prefix := make([]byte, 5)
		if flag {
			prefix[0] = 1
		}
		binary.BigEndian.PutUint32(prefix[1:], uint32(len(data)))
		base := len(m.wire)
		m.wire = append(m.wire, prefix...)
		m.wire = append(m.wire, data...)
		for k := 1; k <= 5; k++ {
			m.tokOff = append(m.tokOff, base+k)
		}
		for k := 1; k <= n; k++ {
			m.tokOff = append(m.tokOff, base+5+len(data)*k/n)
		}
	}
	factory := mgrpc.AsStreamProcessorFactory(func(u *url.URL, server, client mgrpc.Processor) (mgrpc.Processor, mgrpc.Processor) {
		var other []call
		if p.dir == h2.ClientToServer {
			return &passthru{next: server, calls: &m.calls}, &passthru{next: client, calls: &other}
		}
		return &passthru{next: server, calls: &other}, &passthru{next: client, calls: &m.calls}
	})
	var otherSink sink
	var sinks *h2.Processors
	if p.dir == h2.ClientToServer {
		sinks = h2.NewProcessorsForVerif(m.snk, &otherSink)
	} else {
		sinks = h2.NewProcessorsForVerif(&otherSink, m.snk)
	}
	u, _ := url.Parse("https://example.com/svc/Method")
	c2s, s2c := factory(u, sinks)
	ct := "application/grpc"
	if !m.grpc {
		ct = "application/json"
	}
	reqH := []hpack.HeaderField{{Name: ":method", Value: "POST"}, {Name: ":path", Value: "/svc/Method"},
		{Name: "content-type", Value: ct}, {Name: "grpc-encoding", Value: p.enc}}
	if err := c2s.Header(reqH, false, http2.PriorityParam{}); err != nil {
		m.err = err
	}
	m.ad = c2s
	if p.dir == h2.ServerToClient {
		resH := []hpack.HeaderField{{Name: ":status", Value: "200"}, {Name: "content-type", Value: ct}, {Name: "grpc-encoding", Value: p.enc}}
		if err := s2c.Header(resH, false, http2.PriorityParam{}); err != nil {
			m.err = err
		}
		m.ad = s2c
	}
	return m
}

func (m *machine) Apply(action string, args []core.Val) error {
	if action != "Frame" {
		return fmt.Errorf("unknown action %s", action)
	}
	k, es := args[0].Int(), args[1].B
	if m.pos+k >= len(m.tokOff) {
		return fmt.Errorf("frame beyond stream")
	}
	b := append([]byte(nil), m.wire[m.tokOff[m.pos]:m.tokOff[m.pos+k]]...)
	m.pos += k
	m.lastRaw, m.lastES = b, es
	if err := m.ad.Data(b, es); err != nil && m.err == nil {
		m.err = err
	}
	return nil
}

// parseMsgs is the harness's own length-prefix parser.
func parseMsgs(b []byte) (out [][2]interface{}, rest []byte) {
	for len(b) >= 5 {
		n := int(binary.BigEndian.Uint32(b[1:5]))
		if len(b) < 5+n {
			break
		}
		out = append(out, [2]interface{}{b[0], b[5 : 5+n]})
		b = b[5+n:]
	}
	return out, b
}

func (m *machine) Project() string {
	if m.err != nil {
		return "ERR " + m.err.Error()
	}
	if !m.grpc {
		if len(m.calls) != 0 {
			return "non-grpc stream reached the processor"
		}
		if len(m.snk.frames) == 0 {
			return "raw none"
		}
		f := m.snk.frames[len(m.snk.frames)-1]
		var all []byte
		for _, x := range m.snk.frames {
			all = append(all, x.data...)
		}
		ok := bytes.Equal(f.data, m.lastRaw) && f.es == m.lastES && bytes.Equal(all, m.wire[:m.tokOff[m.pos]])
		return fmt.Sprintf("raw ok=%v es=%v", ok, f.es)
	}
	// processor side
	var d []string
	idx := 0
	for _, c := range m.calls {
		if c.nilD {
			d = append(d, fmt.Sprintf("0:%v", c.es))
			continue
		}
		id := "X"
		if idx < len(m.plain) && bytes.Equal(c.data, m.plain[idx]) {
			id = fmt.Sprint(idx + 1)
		}
		idx++
		d = append(d, fmt.Sprintf("%s:%v", id, c.es))
	}
	// destination side: reparse the concatenation of DATA payloads; end-of-stream must be on the last frame only
	var stream []byte
	esOK, es := true, false
	for i, f := range m.snk.frames {
		stream = append(stream, f.data...)
		if f.es {
			es = true
			if i != len(m.snk.frames)-1 {
				esOK = false
			}
		}
	}
	msgs, rest := parseMsgs(stream)
	var s []string
	for i, mm := range msgs {
		id := "X"
		if i < len(m.plain) {
			flag := mm[0].(byte) != 0
			body := mm[1].([]byte)
			var plain []byte
			var err error
			if flag {
				plain, err = decompress(m.p.enc, body)
			} else {
				plain = body
			}
			if err == nil && flag == m.flags[i] && bytes.Equal(plain, m.plain[i]) {
				id = fmt.Sprint(i + 1)
			}
		}
		s = append(s, id)
	}
	if len(rest) > 0 {
		s = append(s, "PARTIAL")
	}
	return fmt.Sprintf("d=[%s] s=[%s] es=%v esOK=%v", strings.Join(d, " "), strings.Join(s, " "), es, esOK)
}

func abstract(st core.State) string {
	if !st["grpc"].B {
		sk := st["sunk"]
		if sk.Len() == 0 {
			return "raw none"
		}
		return fmt.Sprintf("raw ok=true es=%v", sk.Elems[sk.Len()-1].Get("es").B)
	}
	var d, s []string
	for _, c := range st["delivered"].Elems {
		d = append(d, fmt.Sprintf("%d:%v", c.Get("m").Int(), c.Get("es").B))
	}
	es := false
	for _, c := range st["sunk"].Elems {
		if c.Get("m").Int() != 0 {
			s = append(s, fmt.Sprint(c.Get("m").Int()))
		}
		if c.Get("es").B {
			es = true
		}
	}
	return fmt.Sprintf("d=[%s] s=[%s] es=%v esOK=true", strings.Join(d, " "), strings.Join(s, " "), es)
}

func runTLC(c *core.Ctx, cfgName string, maxMsgs int, devA, devB bool, dump string) (*core.TLCResult, error) {
	b := func(x bool) string {
		if x {
			return "TRUE"
		}
		return "FALSE"
	}
	cfg := fmt.Sprintf("SPECIFICATION Spec\nCONSTANTS\n  MaxMsgs = %d\n  Lens = {0, 1, 2}\n  LoseEmptyAtEnd = %s\n  MarkerAsMessage = %s\nINVARIANTS InOrder EndOnce AllAtEnd SinkFaithful Untouched TypeOK\n", maxMsgs, b(devA), b(devB))
	os.WriteFile(filepath.Join(c.Work, cfgName), []byte(cfg), 0o644)
	o := core.TLCOpts{Module: "GrpcFraming", Cfg: cfgName, Workers: 8, Timeout: 10 * time.Minute}
	if dump != "" {
		o.Args = []string{"-dump", "dot,actionlabels", dump}
	}
	return core.RunTLC(c.Work, o)
}

// Run is the C11 check.
func Run(c *core.Ctx) {
	c.Describe(
		"TLC enumerates every message list (<= MaxMsgs messages, abstract payload lengths {0,1,2}), gRPC/non-gRPC, and every cut of the token stream into DATA frames with END_STREAM on the last frame or on a separate empty one. Every transition of the state graph and every behaviour (cut set) up to the path budget is executed on the real h2/grpc adapter+emitter (via h2.NewProcessorsForVerif) for each encoding x direction x payload block size, with compressed flags and payload bytes drawn from VERIF_SEED. Projection: Message calls matched against the decompressed originals; sink DATA reparsed with the harness's own length-prefix parser and decoders. Non-trivial = behaviours that cut inside a prefix or payload, contain a zero-length message, or end with a bare END_STREAM.",
		"GrpcFraming.tla invariants InOrder, EndOnce, AllAtEnd, SinkFaithful, Untouched hold on the reference; with each deviation constant TLC produces a counterexample (non-vacuity). Binding: model->code replay of edges and whole behaviours.",
		true,
		"payload tokens are blocks, so cuts inside payloads are block-aligned; cuts inside the 5-byte prefix are byte-exact",
		"codec correctness is judged by the harness's decoders (compress/gzip, compress/flate, snappy stream format)")
	maxMsgs := c.Pick(2, 3)
	dot := filepath.Join(c.Work, "grpc.dot")
	res, err := runTLC(c, "grpc_ref.cfg", maxMsgs, false, false, dot)
	if err != nil || !res.OK() {
		c.Inconclusive("TLC on GrpcFraming failed: %v %s", err, tail(res))
		return
	}
	c.Model(res)
	// non-vacuity: each deviation must be caught by TLC
	for i, dev := range [][2]bool{{true, false}, {false, true}} {
		r, err := runTLC(c, fmt.Sprintf("grpc_dev%d.cfg", i), 2, dev[0], dev[1], "")
		if err != nil || r.Infra() {
			c.Inconclusive("TLC deviation run failed: %v %s", err, tail(r))
			return
		}
		if r.Violated == "" {
			c.Inconclusive("self-test: deviation %d not detected by the invariants (vacuous specification?)", i)
			return
		}
		c.Extra(fmt.Sprintf("deviation_%d_violates", i), r.Violated)
	}
	g, err := core.ParseDot(dot)
	if err != nil {
		c.Inconclusive("parse graph: %v", err)
		return
	}
	c.ModelGraph(g)
	nontrivial := func(from core.State, e core.Edge, to core.State) string {
		if !from["grpc"].B {
			return ""
		}
		return fmt.Sprintf("%v@%d+%d:%v", from["msgs"], from["pos"].Int(), e.Args[0].Int(), e.Args[1].B)
	}
	blocks := []int{1, 3, 9000}
	if c.Thorough() {
		blocks = []int{1, 2, 7, 4096, 9000, 70000}
	}
	combo := 0
	// the combinations are independent: they run side by side
	var wg sync.WaitGroup
	sem := make(chan struct{}, 12)
	for _, enc := range encodings {
		for _, dir := range []h2.Direction{h2.ClientToServer, h2.ServerToClient} {
			for _, block := range blocks {
				combo++
				enc, dir, block, combo := enc, dir, block, combo
				wg.Add(1)
				sem <- struct{}{}
				go func() {
					defer wg.Done()
					defer func() { <-sem }()
					tag := fmt.Sprintf("%s/%d/%d:", enc, dir, block)
					p := params{enc: enc, dir: dir, block: block}
					n := 0
					opts := core.ReplayOpts{
						SigPrefix: "edge:" + tag,
						NewFor: func(init core.State) core.Machine {
							n++
							p.seed = c.Seed*1000003 + int64(combo)*7919 + int64(n%17)
							return newMachine(init, p)
						},
						Abstract:   abstract,
						NonTrivial: nontrivial,
					}
					budget := c.Pick(5000, 40000)
					if enc != "identity" {
						opts.MaxGroups = c.Pick(1200, 6000)
						budget = c.Pick(500, 6000)
					}
					if block > 4096 {
						budget /= 4
						if opts.MaxGroups > 0 {
							opts.MaxGroups /= 2
						}
					}
					core.ReplayGraph(c, g, opts)
					opts.SigPrefix = "beh:" + tag
					core.ReplayPaths(c, g, opts, 24, budget)
				}()
			}
		}
	}
	wg.Wait()
}

func tail(r *core.TLCResult) string {
	if r == nil {
		return ""
	}
	return r.Tail(30)
}
