// Package ep holds the low-level observers used around a live proxy: a raw TCP client that
// writes scripted bytes, a raw origin that records exactly what arrived and answers with
// scripted bytes, and a minimal HTTP/1 parser of their own, so that the harness's oracle
// does not share net/http's framing decisions with the code under test.
package ep

import (
	"bufio"
	"bytes"
	"errors"
	"fmt"
	"io"
	"strconv"
	"strings"
)

// H is an ordered header list.
type H [][2]string

// Get returns all values of a header name (case-insensitive), in order.
func (h H) Get(name string) []string {
	var out []string
	for _, kv := range h {
		if strings.EqualFold(kv[0], name) {
			out = append(out, kv[1])
		}
	}
	return out
}

// ReqSpec is one scripted request.
type ReqSpec struct {
	ID      int
	Method  string
	Target  string // as written on the request line (origin-form or absolute-form)
	Path    string // path?query the origin must see
	Host    string
	Version string // "HTTP/1.1" or "HTTP/1.0"
	Headers H      // end-to-end headers (framing and Connection are added by Bytes)
	Framing string // none | cl | chunked
	Body    []byte
	Chunks  []int // chunk sizes for chunked framing (remaining bytes go in a last chunk)
	Close   bool  // the request asks to close the connection afterwards
	// Trailers follow the last chunk of a chunked body (and are announced in a Trailer header).
	Trailers H
}

// ResSpec is one scripted origin response.
type ResSpec struct {
	Status  int
	Headers H
	Framing string // cl | chunked | close | none
	Body    []byte
	Chunks  []int
	Close   bool // Connection: close
	// Fault: "" | "garbage" (bytes that are not HTTP) | "cut" (close after CutAt bytes of the serialized response)
	Fault string
	CutAt int
	// Trailers follow the last chunk of a chunked body (and are announced in a Trailer header).
	Trailers H
}

func trailerNames(t H) string {
	var n []string
	for _, kv := range t {
		n = append(n, kv[0])
	}
	return strings.Join(n, ", ")
}

// withTrailers replaces the final CRLF of a chunked body by the trailer fields.
func withTrailers(chunkedBody []byte, t H) []byte {
	if len(t) == 0 {
		return chunkedBody
	}
	b := append([]byte{}, chunkedBody[:len(chunkedBody)-2]...)
	for _, kv := range t {
		b = append(b, []byte(kv[0]+": "+kv[1]+"\r\n")...)
	}
	return append(b, '\r', '\n')
}

func chunked(body []byte, sizes []int) []byte {
	var b bytes.Buffer
	rest := body
	for _, n := range sizes {
		if n <= 0 || len(rest) == 0 {
			continue
		}
		if n > len(rest) {
			n = len(rest)
		}
		fmt.Fprintf(&b, "%x\r\n", n)
		b.Write(rest[:n])
		b.WriteString("\r\n")
		rest = rest[n:]
	}
	if len(rest) > 0 {
		fmt.Fprintf(&b, "%x\r\n", len(rest))
		b.Write(rest)
		b.WriteString("\r\n")
	}
	b.WriteString("0\r\n\r\n")
	return b.Bytes()
}

// Bytes renders the request exactly as the client writes it.
func (r *ReqSpec) Bytes() []byte {
	var b bytes.Buffer
	fmt.Fprintf(&b, "%s %s %s\r\n", r.Method, r.Target, r.Version)
	fmt.Fprintf(&b, "Host: %s\r\n", r.Host)
	fmt.Fprintf(&b, "X-Verif-Id: %d\r\n", r.ID)
	for _, kv := range r.Headers {
		fmt.Fprintf(&b, "%s: %s\r\n", kv[0], kv[1])
	}
	if r.Close && r.Version == "HTTP/1.1" {
		b.WriteString("Connection: close\r\n")
	}
	if !r.Close && r.Version == "HTTP/1.0" {
		b.WriteString("Connection: keep-alive\r\n")
	}
	switch r.Framing {
	case "cl":
		fmt.Fprintf(&b, "Content-Length: %d\r\n\r\n", len(r.Body))
		b.Write(r.Body)
	case "chunked":
		if len(r.Trailers) > 0 {
			fmt.Fprintf(&b, "Trailer: %s\r\n", trailerNames(r.Trailers))
		}
		b.WriteString("Transfer-Encoding: chunked\r\n\r\n")
		b.Write(withTrailers(chunked(r.Body, r.Chunks), r.Trailers))
	default:
		b.WriteString("\r\n")
	}
	return b.Bytes()
}

// Bytes renders the response exactly as the origin writes it (before fault injection).
func (r *ResSpec) Bytes(id int) []byte {
	if r.Fault == "garbage" {
		return []byte("\x16\x03\x01 this is not HTTP at all\r\n\r\n\x00\xff")
	}
	var b bytes.Buffer
	fmt.Fprintf(&b, "HTTP/1.1 %d %s\r\n", r.Status, reason(r.Status))
	fmt.Fprintf(&b, "X-Verif-Id: %d\r\n", id)
	for _, kv := range r.Headers {
		fmt.Fprintf(&b, "%s: %s\r\n", kv[0], kv[1])
	}
	if r.Close {
		b.WriteString("Connection: close\r\n")
	}
	switch r.Framing {
	case "cl":
		fmt.Fprintf(&b, "Content-Length: %d\r\n\r\n", len(r.Body))
		b.Write(r.Body)
	case "chunked":
		if len(r.Trailers) > 0 {
			fmt.Fprintf(&b, "Trailer: %s\r\n", trailerNames(r.Trailers))
		}
		b.WriteString("Transfer-Encoding: chunked\r\n\r\n")
		b.Write(withTrailers(chunked(r.Body, r.Chunks), r.Trailers))
	case "close":
		b.WriteString("\r\n")
		b.Write(r.Body)
	default: // none: bodiless status or answer to HEAD
		if r.Status != 204 && r.Status != 304 {
			fmt.Fprintf(&b, "Content-Length: %d\r\n", len(r.Body))
		}
		b.WriteString("\r\n")
	}
	return b.Bytes()
}

func reason(code int) string {
	switch code {
	case 200:
		return "OK"
	case 201:
		return "Created"
	case 204:
		return "No Content"
	case 302:
		return "Found"
	case 304:
		return "Not Modified"
	case 404:
		return "Not Found"
	case 500:
		return "Internal Server Error"
	}
	return "Status"
}

// Msg is a message parsed by the harness's own parser.
type Msg struct {
	Line     string // request line or status line
	Headers  H
	Body     []byte
	Trailers H
	Framing  string // none | cl | chunked | close
	Complete bool   // the framing was satisfied (false: the stream ended early)
}

var errEOFBeforeMessage = errors.New("end of stream before a message")

func readLine(br *bufio.Reader) (string, error) {
	s, err := br.ReadString('\n')
	if err != nil {
		return s, err
	}
	return strings.TrimRight(s, "\r\n"), nil
}

func readHead(br *bufio.Reader) (*Msg, error) {
	line, err := readLine(br)
	if err != nil {
		if line == "" && err == io.EOF {
			return nil, errEOFBeforeMessage
		}
		return nil, fmt.Errorf("start line: %v (%q)", err, line)
	}
	m := &Msg{Line: line}
	for {
		l, err := readLine(br)
		if err != nil {
			return nil, fmt.Errorf("headers: %v", err)
		}
		if l == "" {
			return m, nil
		}
		i := strings.IndexByte(l, ':')
		if i < 0 {
			return nil, fmt.Errorf("header line without colon: %q", l)
		}
		m.Headers = append(m.Headers, [2]string{l[:i], strings.TrimSpace(l[i+1:])})
	}
}

func (m *Msg) readBody(br *bufio.Reader, isResponse, noBody bool) error {
	m.Complete = true
	if noBody {
		m.Framing = "none"
		return nil
	}
	te := m.Headers.Get("Transfer-Encoding")
	if len(te) > 0 && strings.HasSuffix(strings.ToLower(strings.TrimSpace(te[len(te)-1])), "chunked") {
		m.Framing = "chunked"
		for {
			l, err := readLine(br)
			if err != nil {
				m.Complete = false
				return nil
			}
			if i := strings.IndexByte(l, ';'); i >= 0 {
				l = l[:i]
			}
			n, err := strconv.ParseInt(strings.TrimSpace(l), 16, 64)
			if err != nil {
				return fmt.Errorf("bad chunk size %q", l)
			}
			if n == 0 {
				for {
					t, err := readLine(br)
					if err != nil {
						m.Complete = false
						return nil
					}
					if t == "" {
						return nil
					}
					if i := strings.IndexByte(t, ':'); i > 0 {
						m.Trailers = append(m.Trailers, [2]string{t[:i], strings.TrimSpace(t[i+1:])})
					}
				}
			}
			buf := make([]byte, n)
			k, err := io.ReadFull(br, buf)
			m.Body = append(m.Body, buf[:k]...)
			if err != nil {
				m.Complete = false
				return nil
			}
			if _, err := readLine(br); err != nil {
				m.Complete = false
				return nil
			}
		}
	}
	if cl := m.Headers.Get("Content-Length"); len(cl) > 0 {
		m.Framing = "cl"
		n, err := strconv.ParseInt(strings.TrimSpace(cl[0]), 10, 64)
		if err != nil || n < 0 {
			return fmt.Errorf("bad Content-Length %q", cl[0])
		}
		buf := make([]byte, n)
		k, err := io.ReadFull(br, buf)
		m.Body = buf[:k]
		if err != nil {
			m.Complete = false
		}
		return nil
	}
	if isResponse {
		m.Framing = "close"
		b, _ := io.ReadAll(br)
		m.Body = b
		return nil
	}
	m.Framing = "none"
	return nil
}

// ReadRequest parses one request; io.EOF-like condition is reported as (nil, nil, true).
func ReadRequest(br *bufio.Reader) (m *Msg, err error, eof bool) {
	m, err = readHead(br)
	if err == errEOFBeforeMessage {
		return nil, nil, true
	}
	if err != nil {
		return nil, err, false
	}
	return m, m.readBody(br, false, false), false
}

// ReadResponse parses one response; method is asked for once the head has been read (the
// answer to a HEAD request has no body).
func ReadResponse(br *bufio.Reader, method func() string) (m *Msg, err error, eof bool) {
	m, err = readHead(br)
	if err == errEOFBeforeMessage {
		return nil, nil, true
	}
	if err != nil {
		return nil, err, false
	}
	code := m.Status()
	mth := method()
	noBody := mth == "HEAD" || (mth == "CONNECT" && code/100 == 2) || code == 204 || code == 304 || code/100 == 1
	return m, m.readBody(br, true, noBody), false
}

// Status returns the status code of a response (0 if unparseable).
func (m *Msg) Status() int {
	f := strings.Fields(m.Line)
	if len(f) < 2 {
		return 0
	}
	n, _ := strconv.Atoi(f[1])
	return n
}

// hop-by-hop and framing headers are not end-to-end
var notEndToEnd = map[string]bool{"connection": true, "keep-alive": true, "proxy-authenticate": true, "proxy-authorization": true,
	"proxy-connection": true, "te": true, "trailer": true, "transfer-encoding": true, "upgrade": true, "content-length": true, "host": true}

// SameEndToEnd reports whether every end-to-end header in want is present in got with the
// same values in the same per-name order (additions by the proxy are allowed).
func SameEndToEnd(want, got H) (bool, string) {
	names := map[string]bool{}
	for _, kv := range want {
		names[strings.ToLower(kv[0])] = true
	}
	for n := range names {
		if notEndToEnd[n] {
			continue
		}
		w, g := want.Get(n), got.Get(n)
		// a proxy may join the values of one name into a comma-separated line
		if strings.Join(w, ", ") != strings.Join(g, ", ") {
			return false, fmt.Sprintf("header %q: sent %q, received %q", n, w, g)
		}
	}
	return true, ""
}
