package ep

import (
	"bufio"
	"bytes"
	"crypto/tls"
	"fmt"
	"io"
	"net"
	"strconv"
	"strings"
	"sync"
	"time"

	"verif/harness/core"
)

// Exchange is one scripted request/response pair plus the behaviours of the environment.
type Exchange struct {
	Req    ReqSpec
	Res    ResSpec
	Refuse bool   // the request is addressed to a port nobody listens on
	RqB    string // request-modifier behaviour (pass | warn | skip | hijack)
	RsB    string // response-modifier behaviour (pass | warn | hijack)
}

// Origin is a raw TCP origin answering by request id.
type Origin struct {
	// TLS is true when the listener speaks TLS: requests that arrive were sent over TLS.
	TLS  bool
	L    net.Listener
	Rec  *core.Recorder
	mu   sync.Mutex
	ex   map[int]*Exchange
	Seen map[int]int // id -> number of times received
	// OnRequest, when set, is called with every parsed request before the answer is written
	// (checks use it to log their own event and to hold the answer back).
	OnRequest func(m *Msg, id int)
	Notes     []string
	wg        sync.WaitGroup
	closed    bool
}

// NewOrigin starts an origin on a loopback port.
func NewOrigin(rec *core.Recorder) (*Origin, error) {
	l, err := net.Listen("tcp", "127.0.0.1:0")
	if err != nil {
		return nil, err
	}
	o := &Origin{L: l, Rec: rec, ex: map[int]*Exchange{}, Seen: map[int]int{}}
	go o.serve()
	return o, nil
}

// NewTLSOrigin starts an origin that speaks TLS with the given certificate.
func NewTLSOrigin(rec *core.Recorder, cert tls.Certificate) (*Origin, error) {
	l, err := tls.Listen("tcp", "127.0.0.1:0", &tls.Config{Certificates: []tls.Certificate{cert}})
	if err != nil {
		return nil, err
	}
	o := &Origin{L: l, Rec: rec, ex: map[int]*Exchange{}, Seen: map[int]int{}, TLS: true}
	go o.serve()
	return o, nil
}

// Addr is host:port of the origin.
func (o *Origin) Addr() string { return o.L.Addr().String() }

// Set installs the exchanges of the current scenario.
func (o *Origin) Set(ex []*Exchange) {
	o.mu.Lock()
	defer o.mu.Unlock()
	o.ex = map[int]*Exchange{}
	for _, e := range ex {
		o.ex[e.Req.ID] = e
	}
	o.Seen = map[int]int{}
	o.Notes = nil
}

// Close stops the origin.
func (o *Origin) Close() {
	o.mu.Lock()
	o.closed = true
	o.mu.Unlock()
	o.L.Close()
}

func (o *Origin) note(format string, a ...interface{}) {
	o.mu.Lock()
	defer o.mu.Unlock()
	o.Notes = append(o.Notes, fmt.Sprintf(format, a...))
}

func (o *Origin) serve() {
	for {
		c, err := o.L.Accept()
		if err != nil {
			return
		}
		go o.handle(c)
	}
}

func (o *Origin) handle(c net.Conn) {
	defer c.Close()
	br := bufio.NewReader(c)
	for {
		c.SetReadDeadline(time.Now().Add(30 * time.Second))
		m, err, eof := ReadRequest(br)
		if eof {
			return
		}
		if err != nil {
			o.note("origin could not parse a request: %v", err)
			return
		}
		idv := m.Headers.Get("X-Verif-Id")
		id := 0
		if len(idv) > 0 {
			id, _ = strconv.Atoi(idv[0])
		}
		o.mu.Lock()
		e := o.ex[id]
		o.Seen[id]++
		dup := o.Seen[id] > 1
		o.mu.Unlock()
		if e == nil {
			o.note("origin received a request it does not know (id %q): %s", idv, m.Line)
			fmt.Fprintf(c, "HTTP/1.1 500 Internal Server Error\r\nContent-Length: 0\r\nConnection: close\r\n\r\n")
			return
		}
		ok, why := o.faithful(e, m)
		if !ok {
			o.note("request %d reached the origin altered: %s", id, why)
		}
		k := "ok"
		switch e.Res.Fault {
		case "garbage":
			k = "502"
		case "cut":
			k = "trunc"
			head := bytes.Index(e.Res.Bytes(id), []byte("\r\n\r\n")) + 4
			if e.Res.CutAt < head {
				k = "502"
			}
		}
		if dup {
			// http.Transport re-sends a request when a reused upstream connection died before any
			// response byte; only the first arrival is an event of the specification
			o.note("request %d arrived again (transport retry)", id)
		} else {
			o.Rec.Emit("oresp", "i", id, "k", k, "close", (e.Res.Close || e.Res.Framing == "close") && k == "ok", "ok", ok, "tls", o.TLS)
		}
		if o.OnRequest != nil {
			o.OnRequest(m, id)
		}
		raw := e.Res.Bytes(id)
		if e.Res.Fault == "cut" {
			if e.Res.CutAt < len(raw) {
				raw = raw[:e.Res.CutAt]
			}
			c.Write(raw)
			return
		}
		c.Write(raw)
		if e.Res.Fault == "garbage" || e.Res.Framing == "close" || e.Res.Close {
			return
		}
	}
}

func (o *Origin) faithful(e *Exchange, m *Msg) (bool, string) {
	f := strings.Fields(m.Line)
	if len(f) != 3 {
		return false, "malformed request line " + m.Line
	}
	if f[0] != e.Req.Method {
		return false, fmt.Sprintf("method %s, sent %s", f[0], e.Req.Method)
	}
	if f[1] != e.Req.Path {
		return false, fmt.Sprintf("target %q, sent path %q", f[1], e.Req.Path)
	}
	if ok, why := SameEndToEnd(e.Req.Headers, m.Headers); !ok {
		return false, why
	}
	if !m.Complete {
		return false, "request body incomplete at the origin"
	}
	if !bytes.Equal(m.Body, e.Req.Body) {
		return false, fmt.Sprintf("body of %d bytes, sent %d bytes (first difference at %d)", len(m.Body), len(e.Req.Body), firstDiff(m.Body, e.Req.Body))
	}
	if e.RqB == "warn" {
		found := false
		for _, w := range m.Headers.Get("Warning") {
			if strings.Contains(w, "verif-reqmod-error") {
				found = true
			}
		}
		if !found {
			return false, "request modifier error was not surfaced as a Warning header"
		}
	}
	return true, ""
}

func firstDiff(a, b []byte) int {
	n := len(a)
	if len(b) < n {
		n = len(b)
	}
	for i := 0; i < n; i++ {
		if a[i] != b[i] {
			return i
		}
	}
	return n
}

// SchedOp is one step of the client's script.
type SchedOp struct {
	Op string // send | wait | finish
	I  int    // request index (send) or number of items received so far (wait)
}

// ClientResult summarises what the client observed.
type ClientResult struct {
	Items   int
	SawEOF  bool
	Timeout bool
	Notes   []string
}

// RunClient connects to the proxy, follows the schedule and parses everything it receives
// until EOF or until quiet after the schedule is done.
func RunClient(proxyAddr string, rec *core.Recorder, ex []*Exchange, sched []SchedOp, splitWrites int, quiet time.Duration) (*ClientResult, error) {
	conn, err := net.DialTimeout("tcp", proxyAddr, 3*time.Second)
	if err != nil {
		return nil, err
	}
	defer conn.Close()
	res := &ClientResult{}
	var mu sync.Mutex
	cond := sync.NewCond(&mu)
	items := 0
	done := false
	lastClose := false
	sentMethods := []string{}
	byID := map[int]*Exchange{}
	for _, e := range ex {
		byID[e.Req.ID] = e
	}
	note := func(format string, a ...interface{}) {
		mu.Lock()
		res.Notes = append(res.Notes, fmt.Sprintf(format, a...))
		mu.Unlock()
	}
	readerDone := make(chan struct{})
	go func() {
		defer close(readerDone)
		br := bufio.NewReader(conn)
		pos := 0
		for {
			m, err, eof := ReadResponse(br, func() string {
				mu.Lock()
				defer mu.Unlock()
				if pos < len(sentMethods) {
					return sentMethods[pos]
				}
				return "GET"
			})
			if err != nil && strings.Contains(err.Error(), "connection reset by peer") && strings.HasPrefix(err.Error(), "start line") {
				// the proxy closed while unread (pipelined) requests were still in its receive
				// buffer: TCP turns that close into a reset. At a message boundary it is the close.
				err, eof = nil, true
			}
			if eof {
				rec.Emit("crecv", "t", "eof", "id", 0, "k", "", "close", false, "warn", false, "ok", true)
				mu.Lock()
				items++
				res.SawEOF = true
				done = true
				cond.Broadcast()
				mu.Unlock()
				return
			}
			if err != nil {
				if ne, ok := err.(interface{ Timeout() bool }); ok && ne.Timeout() || strings.Contains(err.Error(), "timeout") || strings.Contains(err.Error(), "closed network") {
					mu.Lock()
					done = true
					cond.Broadcast()
					mu.Unlock()
					return
				}
				note("client could not parse the response stream: %v", err)
				rec.Emit("crecv", "t", "resp", "id", pos+1, "k", "garbage", "close", false, "warn", false, "ok", false)
				mu.Lock()
				items++
				done = true
				cond.Broadcast()
				mu.Unlock()
				return
			}
			if m.Status() == 299 && len(m.Headers.Get("X-Verif-Hijack")) > 0 {
				// written by the hijacking modifier itself, not by the proxy
				rec.Emit("hjrecv")
				mu.Lock()
				lastClose = true
				items++ // a scheduled wait for "the answer" is over: this is all the client will get
				cond.Broadcast()
				mu.Unlock()
				continue
			}
			pos++
			id := pos
			k := "ok"
			ok := true
			warn := false
			for _, w := range m.Headers.Get("Warning") {
				if strings.Contains(w, "verif-resmod-error") {
					warn = true
				}
			}
			idv := m.Headers.Get("X-Verif-Id")
			switch {
			case !m.Complete:
				k = "trunc"
				if len(idv) > 0 {
					id, _ = strconv.Atoi(idv[0])
				}
			case len(idv) > 0:
				id, _ = strconv.Atoi(idv[0])
				if e := byID[id]; e != nil {
					if why := sameResponse(e, m); why != "" {
						ok = false
						note("response %d reached the client altered: %s", id, why)
					}
				}
			case m.Status() == 502:
				k = "502"
				if len(m.Headers.Get("Warning")) == 0 {
					ok = false
					note("502 without a Warning header")
				}
			case m.Status() == 200:
				k = "skip200"
			default:
				ok = false
				note("unexpected response without id: %s", m.Line)
			}
			closeHdr := false
			for _, c := range m.Headers.Get("Connection") {
				if strings.Contains(strings.ToLower(c), "close") {
					closeHdr = true
				}
			}
			rec.Emit("crecv", "t", "resp", "id", id, "k", k, "close", closeHdr, "warn", warn, "ok", ok)
			mu.Lock()
			items++
			lastClose = closeHdr || k == "trunc"
			cond.Broadcast()
			mu.Unlock()
			if m.Framing == "close" {
				// the body ran to end of stream: that was the EOF
				rec.Emit("crecv", "t", "eof", "id", 0, "k", "", "close", false, "warn", false, "ok", true)
				mu.Lock()
				items++
				res.SawEOF = true
				done = true
				cond.Broadcast()
				mu.Unlock()
				return
			}
		}
	}()
	waitItems := func(n int, d time.Duration) bool {
		deadline := time.Now().Add(d)
		mu.Lock()
		defer mu.Unlock()
		for items < n && !done {
			if time.Now().After(deadline) {
				return false
			}
			mu.Unlock()
			time.Sleep(time.Millisecond)
			mu.Lock()
		}
		return items >= n || done
	}
	var held []byte
	for _, op := range sched {
		switch op.Op {
		case "send":
			e := ex[op.I-1]
			raw := e.Req.Bytes()
			mu.Lock()
			sentMethods = append(sentMethods, e.Req.Method)
			mu.Unlock()
			rec.Emit("csend", "i", op.I, "close", e.Req.Close, "connect", e.Req.Method == "CONNECT")
			if splitWrites > 1 && len(raw) > splitWrites {
				step := len(raw) / splitWrites
				for off := 0; off < len(raw); off += step {
					end := off + step
					if end > len(raw) {
						end = len(raw)
					}
					if _, err := conn.Write(raw[off:end]); err != nil {
						break
					}
					time.Sleep(200 * time.Microsecond)
				}
			} else {
				conn.Write(raw)
			}
		case "send+half":
			// request I whole and the first half of request I+1 in one write: the proxy holds
			// a partial request in its buffer while it answers request I
			e, n := ex[op.I-1], ex[op.I]
			nraw := n.Req.Bytes()
			held = nraw[len(nraw)/2:]
			mu.Lock()
			sentMethods = append(sentMethods, e.Req.Method, n.Req.Method)
			mu.Unlock()
			rec.Emit("csend", "i", op.I, "close", e.Req.Close, "connect", false)
			rec.Emit("csend", "i", op.I+1, "close", n.Req.Close, "connect", false)
			conn.Write(append(append([]byte{}, e.Req.Bytes()...), nraw[:len(nraw)/2]...))
		case "resthalf":
			conn.Write(held)
			held = nil
		case "wait":
			if !waitItems(op.I, 5*time.Second) {
				res.Timeout = true
				rec.Emit("stall", "items", op.I)
			}
		case "finish":
			rec.Emit("cfin")
			if tc, ok := conn.(*net.TCPConn); ok {
				tc.CloseWrite()
			}
		}
	}
	// wait for quiescence: every request answered (or EOF), then EOF if the last response
	// announced a close, else a short grace period for anything unexpected
	sends, finished := 0, false
	for _, op := range sched {
		if op.Op == "send" {
			sends++
		}
		if op.Op == "send+half" {
			sends += 2
		}
		if op.Op == "finish" {
			finished = true
		}
	}
	deadline := time.Now().Add(quiet)
	for {
		mu.Lock()
		it, dn, lc := items, done, lastClose
		mu.Unlock()
		if dn {
			break
		}
		if it >= sends && !lc && !finished {
			time.Sleep(40 * time.Millisecond)
			break
		}
		if time.Now().After(deadline) {
			res.Timeout = true
			break
		}
		time.Sleep(time.Millisecond)
	}
	conn.SetReadDeadline(time.Now())
	select {
	case <-readerDone:
	case <-time.After(2 * time.Second):
	}
	mu.Lock()
	res.Items = items
	mu.Unlock()
	return res, nil
}

func sameResponse(e *Exchange, m *Msg) string {
	if m.Status() != e.Res.Status {
		return fmt.Sprintf("status %d, origin sent %d", m.Status(), e.Res.Status)
	}
	if ok, why := SameEndToEnd(e.Res.Headers, m.Headers); !ok {
		return why
	}
	want := e.Res.Body
	if e.Req.Method == "HEAD" || e.Res.Framing == "none" {
		want = nil
	}
	if !bytes.Equal(m.Body, want) {
		return fmt.Sprintf("body of %d bytes, origin sent %d bytes (first difference at %d)", len(m.Body), len(want), firstDiff(m.Body, want))
	}
	return ""
}

// Drain reads and discards until EOF or deadline (helper for hijackers).
func Drain(r io.Reader) { io.Copy(io.Discard, r) }
