// Package c02 decides property C02 (modifier discipline, contexts, sessions, hijack): the
// harness installs recording modifiers whose behaviour (pass, warn, skip round trip,
// hijack) follows behaviours of Http1Conn.tla in plain, blind-CONNECT and MITM modes; every
// call is logged with the context and session it saw, and TLC validates the traces.
package c02

import (
	"fmt"
	"math/rand"
	"strings"

	"verif/harness/core"
	"verif/harness/ep"
	"verif/harness/h1"
)

func init() { core.Register("C02", Run) }

// Run is the C02 check.
func Run(c *core.Ctx) {
	c.Describe(
		"TLC model-checks Http1Conn with modifier behaviours (pass, warn, skip, hijack on request or response), origin faults and the three CONNECT modes (none, blind, mitm), then simulates behaviours whose environment choices become scenarios: pipelined plain connections through a proxy with harness modifiers; CONNECT exchanges with each behaviour pair and dial outcome through a blind tunnel; CONNECT followed by decrypted inner requests through a MITM proxy (TLS client with the harness CA, TLS origin behind a dial redirector). The modifiers log every call with context id, session id and request identity; at quiescence the number of live request->context links (verif hook) and of retained requests with a retrievable context is logged. TLC validates each trace against Http1ConnTrace: request modifier once before upstream contact, response modifier once on the same request with the same context, context ids fresh per exchange, one session per connection and never shared, no context at rest, Warning surfaced, skip => no origin contact and a 200 through the response modifier, and after a hijack nothing but the hijacker's own bytes and a close. Non-trivial = scenarios with a non-pass behaviour or >= 2 exchanges.",
		"Http1Conn.tla invariants ModsOnce, ReqModBeforeUpstream, SkipMeansNoContact, WarnSurfaces, NoCtxAtRest, NoTouchAfterHijack (+ C01/C03 invariants) checked by TLC in all modes; binding: simulated behaviours -> live proxies with harness modifiers -> traces validated by TLC.",
		false,
		"a skip request on a CONNECT is not generated (the property speaks of round trips)",
		"modifier groups (priority.Group, fifo.Group with and without error aggregation) are replayed separately against ModGroups.tla: every transition and every behaviour up to depth 4/5 of its state graph, request and response side",
		"after a hijack the harness hijacker writes a 299 response, drains the connection for 80 ms and returns")
	// the containers the modifiers sit in: priority and FIFO groups against ModGroups.tla
	groups(c)
	if !h1.ModelCheck(c, "h1_c02_plain", 2, true, true, false) ||
		!h1.ModelCheck(c, "h1_c02_blind", 2, true, true, false, "blind") ||
		!h1.ModelCheck(c, "h1_c02_mitm", c.Pick(2, 3), false, true, false, "mitm") {
		return
	}
	rec := &core.Recorder{}
	w, err := h1.NewWorld(rec, nil)
	if err != nil {
		c.Inconclusive("environment: %v", err)
		return
	}
	defer w.Close()
	rng := rand.New(rand.NewSource(c.Seed))

	// ---- plain mode
	behs, err := h1.Simulate(c, "h1_c02_sim", h1.SimOpts{MaxReq: c.Pick(3, 4), Faults: true, Mods: true, N: c.Pick(700, 5000), Depth: 90})
	if err != nil {
		c.Inconclusive("%v", err)
		return
	}
	seen := map[string]int{}
	var scs []*h1.Scenario
	for _, b := range behs {
		env := h1.EnvOf(b)
		if len(env.Close) == 0 || seen[env.Key] >= c.Pick(2, 6) {
			continue
		}
		seen[env.Key]++
		scs = append(scs, h1.Concretise(env, rng, w.Plain.Addr(), c.Thorough()))
		nt := ""
		if len(env.Close) >= 2 || strings.Contains(env.Key, "warn") || strings.Contains(env.Key, "skip") || strings.Contains(env.Key, "hijack") {
			nt = "plain:" + env.Key
		}
		c.Eval(nt)
	}
	results, err := h1.RunScenarios(scs, h1.RunOpts{ProxyAddr: w.ProxyAddr, Origin: w.Plain, Rec: rec, Live: w.Live,
		Before: func(sc *h1.Scenario) { w.SetExchanges(sc.Ex) }})
	if err != nil {
		c.Inconclusive("driver: %v", err)
		return
	}
	c.Trace(len(results))
	for i, r := range results {
		if i%80 == 0 {
			c.Sample(r.Scenario.Describe())
		}
	}
	report(c, "plain", h1.Validate(c, rec, results, true, "c02plain"))

	// ---- blind CONNECT
	rec2 := &core.Recorder{}
	w.UseRecorder(rec2)
	var bres []*h1.Result
	opts := h1.RunOpts{ProxyAddr: w.ProxyAddr, Origin: w.Plain, Rec: rec2, Live: w.Live}
	for _, rqb := range []string{"pass", "warn", "hijack", "hijackerr"} {
		for _, rsb := range []string{"pass", "warn", "hijack", "hijackerr"} {
			for _, authority := range []string{"tunnel.test:443", "dead.test:443"} {
				cx := &ep.Exchange{RqB: rqb, RsB: rsb, Req: ep.ReqSpec{ID: 1, Method: "CONNECT"}}
				w.SetExchanges([]*ep.Exchange{cx})
				run := &h1.ConnectRun{Mode: "blind", Connect: cx, Authority: authority, Payload: []byte("tunnel payload " + rqb + rsb),
					Describe: fmt.Sprintf("blind CONNECT %s reqmod=%s resmod=%s", authority, rqb, rsb)}
				r, err := h1.RunConnect(opts, run)
				if err != nil {
					c.Inconclusive("driver: %v", err)
					return
				}
				bres = append(bres, r)
				c.Eval("blind:" + run.Describe)
			}
		}
	}
	c.Trace(len(bres))
	report(c, "blind", h1.Validate(c, rec2, bres, true, "c02blind", "blind"))

	// ---- MITM
	rec3 := &core.Recorder{}
	w.UseRecorder(rec3)
	menvs, err := h1.SimulateEnv(c, "h1_c02_menv", c.Pick(3, 4), false, true, true, c.Pick(350, 6000))
	if err != nil {
		c.Inconclusive("%v", err)
		return
	}
	var mres []*h1.Result
	mopts := h1.RunOpts{ProxyAddr: w.MProxyAddr, Origin: w.TLSOrigin, Rec: rec3, Live: w.Live}
	mseen := map[string]int{}
	for _, env := range menvs {
		if len(env.Connect) == 0 || !env.Connect[0] || mseen[env.Key] >= c.Pick(1, 4) {
			continue
		}
		mseen[env.Key]++
		sc := h1.Concretise(env, rng, "origin.test", false)
		cx := sc.Ex[0]
		cx.Req.Method = "CONNECT"
		for _, e := range sc.Ex[1:] {
			e.Req.Host = "origin.test"
			switch rng.Intn(3) {
			case 0:
				e.Req.Target = e.Req.Path
			case 1:
				e.Req.Target = "https://origin.test" + e.Req.Path
			case 2:
				e.Req.Target = "http://origin.test" + e.Req.Path
			}
			if e.Res.Framing == "close" { // keep the sequential client simple
				e.Res.Framing = "cl"
				e.Res.Close = true
			}
		}
		w.SetExchanges(sc.Ex)
		run := &h1.ConnectRun{Mode: "mitm", Connect: cx, Authority: "origin.test:443", Inner: sc.Ex[1:], ClientTLS: true, Roots: w.Roots,
			Describe: "mitm " + env.Key}
		r, err := h1.RunConnect(mopts, run)
		if err != nil {
			c.Inconclusive("driver: %v", err)
			return
		}
		r.Scenario = sc
		sc.Origin = "mitm " + env.Key
		mres = append(mres, r)
		c.Eval("mitm:" + env.Key)
		if len(mres)%60 == 1 {
			c.Sample(sc.Describe())
		}
	}
	c.Trace(len(mres))
	report(c, "mitm", h1.Validate(c, rec3, mres, true, "c02mitm", "mitm"))
}

func report(c *core.Ctx, mode string, rej []h1.Rejection) {
	for _, r := range rej {
		at := ""
		if r.Line >= 1 && r.Line-1 < len(r.Lines) {
			at = r.Lines[r.Line-1]
		}
		sig := mode + ": " + classify(r, at)
		c.Violation(sig, fmt.Sprintf("%s; first unmatched event (#%d): %s; notes: %v; scenario: %v; trace: %v", r.Reason, r.Line, at, r.Res.Notes, r.Res.Scenario.Describe(), clipLines(r.Lines, r.Line)),
			map[string]interface{}{"scenario": r.Res.Scenario.Describe(), "trace": r.Lines})
	}
}

func clipLines(ls []string, at int) []string {
	lo, hi := at-6, at+1
	if lo < 0 {
		lo = 0
	}
	if hi > len(ls) {
		hi = len(ls)
	}
	return ls[lo:hi]
}

// classify names the kind of mismatch by the event that could not be matched.
func classify(r h1.Rejection, at string) string {
	hij := strings.Contains(r.Res.Scenario.Origin, "hijack")
	switch {
	case strings.Contains(at, `"ev":"reqmod"`) && hij:
		return "request modifier ran on a hijacked connection (the proxy kept reading it)"
	case strings.Contains(at, `"ev":"end"`) && hij:
		return "connection not closed after the hijacking modifier returned"
	case strings.Contains(at, `"ev":"end"`):
		return "not settled at quiescence (missing response, open connection or live context): " + r.Res.Scenario.Origin
	case strings.Contains(at, `"ev":"stall"`):
		return "no response within the quiet period: " + r.Res.Scenario.Origin
	}
	ev := at
	if i := strings.Index(at, `"ev":"`); i >= 0 {
		ev = at[i+6:]
		if j := strings.Index(ev, `"`); j >= 0 {
			ev = ev[:j]
		}
	}
	return "unexpected " + ev + " event: " + r.Res.Scenario.Origin
}
