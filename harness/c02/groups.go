package c02

import (
	"errors"
	"fmt"
	"net/http"
	"os"
	"path/filepath"
	"strings"
	"time"

	martian "github.com/google/martian/v3"
	"github.com/google/martian/v3/fifo"
	"github.com/google/martian/v3/priority"

	"verif/harness/core"
)

// ---- modifier groups: every transition and short behaviour of ModGroups.tla on real groups

type recMod struct {
	id string
	gm *groupMachine
}

func (r *recMod) ModifyRequest(*http.Request) error   { return r.gm.hit(r.id) }
func (r *recMod) ModifyResponse(*http.Response) error { return r.gm.hit(r.id) }

type groupMachine struct {
	kind string
	pg   *priority.Group
	fg   *fifo.Group
	mods map[string]*recMod
	errs map[string]error
	fail map[string]bool
	ran  []string
	last string
	note string
}

func newGroupMachine(kind string) *groupMachine {
	g := &groupMachine{kind: kind, mods: map[string]*recMod{}, errs: map[string]error{}}
	for _, id := range []string{"a", "b", "c"} {
		g.mods[id] = &recMod{id: id, gm: g}
		g.errs[id] = errors.New("failure of modifier " + id)
	}
	if kind == "priority" {
		g.pg = priority.NewGroup()
	} else {
		g.fg = fifo.NewGroup()
		g.fg.SetAggregateErrors(kind == "fifoagg")
	}
	return g
}

func (g *groupMachine) hit(id string) error {
	g.ran = append(g.ran, id)
	if g.fail[id] {
		return g.errs[id]
	}
	return nil
}

// errIDs maps the error a group returned back to the modifiers it names.
func (g *groupMachine) errIDs(err error) []string {
	if err == nil {
		return nil
	}
	var out []string
	if me, ok := err.(*martian.MultiError); ok {
		for _, e := range me.Errors() {
			out = append(out, g.errIDs(e)...)
		}
		return out
	}
	for id, e := range g.errs {
		if e == err {
			return []string{id}
		}
	}
	return []string{"?" + err.Error()}
}

// runOnce sends one request and one response through the group; both sides must agree.
func (g *groupMachine) runOnce(fail map[string]bool) (ran, errs []string) {
	g.fail = fail
	req, _ := http.NewRequest("GET", "http://example.test/", nil)
	_, rm, _ := martian.TestContext(req, nil, nil)
	defer rm()
	g.ran = nil
	var err error
	if g.pg != nil {
		err = g.pg.ModifyRequest(req)
	} else {
		err = g.fg.ModifyRequest(req)
	}
	ran, errs = g.ran, g.errIDs(err)
	res := &http.Response{StatusCode: 200, Header: http.Header{}, Request: req}
	g.ran = nil
	if g.pg != nil {
		err = g.pg.ModifyResponse(res)
	} else {
		err = g.fg.ModifyResponse(res)
	}
	if fmt.Sprint(g.ran) != fmt.Sprint(ran) || fmt.Sprint(g.errIDs(err)) != fmt.Sprint(errs) {
		g.note = fmt.Sprintf("request side ran %v (errors %v), response side ran %v (errors %v)", ran, errs, g.ran, g.errIDs(err))
		ran = append(ran, "!sides-differ")
	}
	return ran, errs
}

func (g *groupMachine) Apply(action string, args []core.Val) error {
	switch action {
	case "Add":
		m, p := g.mods[args[0].S], args[1].I
		if g.pg != nil {
			g.pg.AddRequestModifier(m, p)
			g.pg.AddResponseModifier(m, p)
		} else {
			g.fg.AddRequestModifier(m)
			g.fg.AddResponseModifier(m)
		}
		g.last = "add:true::"
	case "Remove":
		m := g.mods[args[0].S]
		e1 := g.pg.RemoveRequestModifier(m)
		e2 := g.pg.RemoveResponseModifier(m)
		if (e1 == nil) != (e2 == nil) {
			g.note = fmt.Sprintf("RemoveRequestModifier: %v, RemoveResponseModifier: %v", e1, e2)
		}
		if e1 != nil && e1 != priority.ErrModifierNotFound {
			g.note = "unexpected error " + e1.Error()
		}
		g.last = fmt.Sprintf("remove:%v::", e1 == nil && e2 == nil)
	case "Run":
		fail := map[string]bool{}
		for _, e := range args[0].Elems {
			fail[e.S] = true
		}
		ran, errs := g.runOnce(fail)
		g.last = fmt.Sprintf("run:%v:%s:%s", len(errs) == 0, strings.Join(ran, ""), strings.Join(errs, ""))
	default:
		return fmt.Errorf("unknown action %s", action)
	}
	return nil
}

// Project: the list is observed by a probe run in which nothing fails.
func (g *groupMachine) Project() string {
	order, _ := g.runOnce(nil)
	return fmt.Sprintf("list=%s last=%s", strings.Join(order, ""), g.last)
}

func (g *groupMachine) Detail() string { return g.note }

func groupAbstract(s core.State) string {
	var order []string
	for _, e := range s["list"].Elems {
		order = append(order, e.Get("m").S)
	}
	l := s["last"]
	var ran, errs []string
	for _, e := range l.Get("ran").Elems {
		ran = append(ran, e.S)
	}
	for _, e := range l.Get("errs").Elems {
		errs = append(errs, e.S)
	}
	last := fmt.Sprintf("%s:%v:%s:%s", l.Get("op").S, l.Get("ok").B, strings.Join(ran, ""), strings.Join(errs, ""))
	if l.Get("op").S == "init" {
		last = ""
	}
	return fmt.Sprintf("list=%s last=%s", strings.Join(order, ""), last)
}

// groups replays ModGroups.tla on priority.Group and fifo.Group.
func groups(c *core.Ctx) {
	if !c.Want("groups:") {
		return
	}
	for _, kind := range []string{"priority", "fifo", "fifoagg"} {
		prios := "{1, 2}"
		if kind != "priority" {
			prios = "{0}"
		}
		cfg := fmt.Sprintf("SPECIFICATION Spec\nCONSTANTS\n  Mods = {\"a\", \"b\", \"c\"}\n  Prios = %s\n  MaxLen = 3\n  MaxOps = %d\n  Kind = \"%s\"\nINVARIANTS Sorted RunIsPrefix StopsAtFirstError AggregateRunsAll\nPROPERTIES NewestFirst\nCHECK_DEADLOCK FALSE\n", prios, c.Pick(4, 5), kind)
		name := "modgroups_" + kind
		os.WriteFile(filepath.Join(c.Work, name+".cfg"), []byte(cfg), 0o644)
		dot := filepath.Join(c.Work, name+".dot")
		res, err := core.RunTLC(c.Work, core.TLCOpts{Module: "ModGroups", Cfg: name + ".cfg", Workers: 8, Timeout: 10 * time.Minute, Args: []string{"-dump", "dot,actionlabels", dot}})
		if err != nil || !res.OK() {
			c.Inconclusive("TLC on ModGroups (%s) failed: %v", kind, err)
			return
		}
		c.Model(res)
		g, err := core.ParseDot(dot)
		if err != nil {
			c.Inconclusive("parse graph: %v", err)
			return
		}
		kind := kind
		opts := core.ReplayOpts{
			SigPrefix: "groups:" + kind + ":",
			New:       func() core.Machine { return newGroupMachine(kind) },
			Abstract:  groupAbstract,
			NonTrivial: func(from core.State, e core.Edge, to core.State) string {
				if from["list"].Len() >= 2 || e.Action == "Remove" {
					return "groups:" + kind + ":" + e.Label + "@" + groupAbstract(from)
				}
				return ""
			},
		}
		core.ReplayGraph(c, g, opts)
		opts.SigPrefix = "groups-beh:" + kind + ":"
		core.ReplayPaths(c, g, opts, c.Pick(4, 5), c.Pick(60000, 600000))
	}
}
