package c18

import (
	"bufio"
	"bytes"
	"encoding/json"
	"fmt"
	"io"
	"math/rand"
	"net"
	"net/http"
	"net/http/httptest"
	"net/http/httputil"
	"regexp"
	"strconv"
	"strings"
	"sync"
	"time"

	martian "github.com/google/martian/v3"
	"github.com/google/martian/v3/trafficshape"

	"verif/harness/core"
	"verif/harness/h2x"
)

// ---- configurations as the specification sees them (field names are those of Shape.tla)

type Thr struct {
	S  int `json:"s"`
	E  int `json:"e"`
	Bw int `json:"bw"`
}
type Halt struct {
	B   int `json:"b"`
	D   int `json:"d"`
	Cnt int `json:"cnt"`
}
type Close struct {
	B   int `json:"b"`
	Cnt int `json:"cnt"`
}
type Shape struct {
	Re     string  `json:"re"` // "A", "B", "bad" (does not compile), "" (missing)
	Maxbw  int     `json:"maxbw"`
	Thr    []Thr   `json:"thr"`
	Halts  []Halt  `json:"halts"`
	Closes []Close `json:"closes"`
}
type Cfg struct {
	Wellformed bool    `json:"wellformed"`
	DefaultsOK bool    `json:"defaultsOK"`
	Shapes     []Shape `json:"shapes"`
	// Raw, when set, is the request body to post instead of the rendering (malformed variants).
	Raw string `json:"-"`
}

func (c *Cfg) norm() {
	if c.Shapes == nil {
		c.Shapes = []Shape{}
	}
	for i := range c.Shapes {
		s := &c.Shapes[i]
		if s.Thr == nil {
			s.Thr = []Thr{}
		}
		if s.Halts == nil {
			s.Halts = []Halt{}
		}
		if s.Closes == nil {
			s.Closes = []Close{}
		}
	}
}

var regexOf = map[string]string{"A": "/shapeA/", "B": "/shapeB/", "bad": "/shape(/", "": ""}
var pathOf = map[string]string{"A": "/shapeA/", "B": "/shapeB/", "none": "/plain/"}

// Render gives the JSON body for martian's traffic shaping handler.
func (c *Cfg) Render(rng *rand.Rand) string {
	if c.Raw != "" {
		return c.Raw
	}
	if !c.Wellformed {
		return []string{`{"trafficshape": {"shapes": [`, `{"shapes": []}`, `not json`, `{"trafficshape": null}`}[rng.Intn(4)]
	}
	type thr struct {
		Bytes     string `json:"bytes"`
		Bandwidth int    `json:"bandwidth"`
	}
	type halt struct {
		Byte     int `json:"byte"`
		Duration int `json:"duration"`
		Count    int `json:"count"`
	}
	type cc struct {
		Byte  int `json:"byte"`
		Count int `json:"count"`
	}
	type shape struct {
		URLRegex string `json:"url_regex"`
		Max      int    `json:"max_global_bandwidth"`
		Thr      []thr  `json:"throttles"`
		Halts    []halt `json:"halts"`
		Closes   []cc   `json:"close_connections"`
	}
	type def struct {
		Bandwidth struct {
			Up   int `json:"up"`
			Down int `json:"down"`
		} `json:"bandwidth"`
		Latency int `json:"latency"`
	}
	var d def
	if !c.DefaultsOK {
		switch rng.Intn(3) {
		case 0:
			d.Latency = -1
		case 1:
			d.Bandwidth.Up = -5
		default:
			d.Bandwidth.Down = -1
		}
	}
	var shapes []shape
	for _, s := range c.Shapes {
		x := shape{URLRegex: regexOf[s.Re], Max: s.Maxbw}
		for _, t := range s.Thr {
			e := strconv.Itoa(t.E)
			if t.E == -1 {
				e = ""
			}
			x.Thr = append(x.Thr, thr{Bytes: fmt.Sprintf("%d-%s", t.S, e), Bandwidth: t.Bw})
		}
		for _, h := range s.Halts {
			x.Halts = append(x.Halts, halt{h.B, h.D, h.Cnt})
		}
		for _, k := range s.Closes {
			x.Closes = append(x.Closes, cc{k.B, k.Cnt})
		}
		shapes = append(shapes, x)
	}
	b, _ := json.Marshal(map[string]interface{}{"trafficshape": map[string]interface{}{"default": d, "shapes": shapes}})
	return string(b)
}

// ---- scripts

// Step of a script: post | accept | req | join | close.
type Step struct {
	Act string `json:"act"`
	C   string `json:"c,omitempty"`
	Cfg *Cfg   `json:"cfg,omitempty"`
	M   string `json:"m,omitempty"`
	S   int    `json:"s,omitempty"`
	N   int    `json:"n,omitempty"`
}

func (s Step) String() string {
	switch s.Act {
	case "post":
		b, _ := json.Marshal(s.Cfg)
		return "post(" + string(b) + ")"
	case "req":
		return fmt.Sprintf("req(%s,%s,s=%d,n=%d)", s.C, s.M, s.S, s.N)
	}
	return s.Act + "(" + s.C + ")"
}

// Script is one scenario.
type Script struct {
	Name  string
	Mode  string // proxy | api
	Steps []Step
	Seed  int64
}

// Result of a run.
type Result struct {
	Events []string
	Notes  []string
	Err    string
}

func pattern(total int) []byte {
	b := make([]byte, total)
	for i := range b {
		b[i] = byte('a' + (i*7+i/251)%26)
	}
	return b
}

var originOnce sync.Once
var originAddr string

// origin serves /<anything>/<total> with Range support and a fixed Content-Length.
func origin() string {
	originOnce.Do(func() {
		l, err := net.Listen("tcp", "127.0.0.1:0")
		if err != nil {
			panic(err)
		}
		originAddr = l.Addr().String()
		go http.Serve(l, http.HandlerFunc(func(w http.ResponseWriter, r *http.Request) {
			i := strings.LastIndex(r.URL.Path, "/")
			total, _ := strconv.Atoi(r.URL.Path[i+1:])
			w.Header().Set("Content-Type", "application/octet-stream")
			http.ServeContent(w, r, "", time.Time{}, bytes.NewReader(pattern(total)))
		}))
	})
	return originAddr
}

// recListener remembers the shaped connections the proxy accepted.
type recListener struct {
	*trafficshape.Listener
	mu    sync.Mutex
	conns []*trafficshape.Conn
}

func (r *recListener) Accept() (net.Conn, error) {
	c, err := r.Listener.Accept()
	if tc, ok := c.(*trafficshape.Conn); ok {
		r.mu.Lock()
		r.conns = append(r.conns, tc)
		r.mu.Unlock()
	}
	return c, err
}

func bucketOpen(b *trafficshape.Bucket) bool {
	if b == nil {
		return false
	}
	_, err := b.Fill(func(int64) (int64, error) { return 0, nil })
	return err == nil || err == trafficshape.ErrBucketOverflow
}

func openLocalBuckets(conns []*trafficshape.Conn) int {
	n := 0
	for _, c := range conns {
		for _, bs := range c.LocalBuckets {
			if bucketOpen(bs.ReadBucket) {
				n++
			}
			if bucketOpen(bs.WriteBucket) {
				n++
			}
		}
	}
	return n
}

type pending struct {
	done chan struct{}
}

// RunBounded is Run with a bound: a script that does not finish (a write that hangs inside the code
// under test) ends with a "hung" observation, which no action of the specification matches.
func RunBounded(sc *Script, bound time.Duration) *Result {
	ch := make(chan *Result, 1)
	partial := &core.Recorder{}
	go func() { ch <- runScript(sc, partial) }()
	select {
	case r := <-ch:
		return r
	case <-time.After(bound):
		partial.Emit("hung")
		return &Result{Events: strings.Split(strings.TrimRight(string(partial.Bytes()), "\n"), "\n"),
			Notes: []string{fmt.Sprintf("the script did not finish within %v; the goroutines it left behind are abandoned", bound)}}
	}
}

// Run executes a script and returns its events.
func Run(sc *Script) *Result { return runScript(sc, &core.Recorder{}) }

func runScript(sc *Script, rec *core.Recorder) *Result {
	res := &Result{}
	rng := rand.New(rand.NewSource(sc.Seed))
	var mu sync.Mutex
	note := func(f string, a ...interface{}) {
		mu.Lock()
		res.Notes = append(res.Notes, fmt.Sprintf(f, a...))
		mu.Unlock()
	}
	tcp, err := net.Listen("tcp", "127.0.0.1:0")
	if err != nil {
		res.Err = err.Error()
		return res
	}
	tsl := &recListener{Listener: trafficshape.NewListener(tcp)}
	handler := trafficshape.NewHandler(tsl.Listener)
	var proxy *martian.Proxy
	if sc.Mode == "proxy" {
		proxy = martian.NewProxy()
		proxy.SetTimeout(5 * time.Second)
		go proxy.Serve(tsl)
	}
	defer func() {
		if proxy != nil {
			proxy.Close()
		}
		tsl.Listener.Close()
	}()
	rec.Emit("newrun")
	clients := map[string]net.Conn{}
	readers := map[string]*bufio.Reader{}
	apiConns := map[string]*trafficshape.Conn{}
	pend := map[string]*pending{}
	join := func(c string) {
		if p := pend[c]; p != nil {
			<-p.done
			delete(pend, c)
		}
	}
	dead := map[string]bool{}
	for _, st := range sc.Steps {
		switch st.Act {
		case "post":
			st.Cfg.norm()
			body := st.Cfg.Render(rng)
			rw := httptest.NewRecorder()
			handler.ServeHTTP(rw, httptest.NewRequest("POST", "http://martian.proxy/shape-traffic", strings.NewReader(body)))
			rec.Emit("post", "cfg", st.Cfg, "accepted", rw.Code == 200)
			if rw.Code != 200 && rw.Code != 400 {
				note("handler answered %d to %s", rw.Code, body)
			}
			// the modification time must lie strictly before the establishment of later connections
			time.Sleep(2 * time.Millisecond)
		case "accept":
			if sc.Mode == "proxy" {
				c, err := net.Dial("tcp", tcp.Addr().String())
				if err != nil {
					res.Err = err.Error()
					return res
				}
				clients[st.C] = c
				readers[st.C] = bufio.NewReader(c)
				// the connection is established once the proxy has accepted it
				for i := 0; i < 500; i++ {
					tsl.mu.Lock()
					n := len(tsl.conns)
					tsl.mu.Unlock()
					if n >= len(clients) {
						break
					}
					time.Sleep(time.Millisecond)
				}
			} else {
				a, b, err := h2x.Pair()
				if err != nil {
					res.Err = err.Error()
					return res
				}
				clients[st.C] = a
				tc := tsl.Listener.GetTrafficShapedConn(b)
				apiConns[st.C] = tc
				tsl.mu.Lock()
				tsl.conns = append(tsl.conns, tc)
				tsl.mu.Unlock()
			}
			rec.Emit("accept", "c", st.C)
			time.Sleep(2 * time.Millisecond)
		case "req":
			join(st.C)
			mu.Lock()
			isDead := dead[st.C]
			mu.Unlock()
			if isDead {
				continue
			}
			cl, rd, ac := clients[st.C], readers[st.C], apiConns[st.C]
			p := &pending{done: make(chan struct{})}
			pend[st.C] = p
			rec.Emit("req", "c", st.C, "m", st.M, "s", st.S, "n", st.N)
			st := st
			seed := rng.Int63()
			go func() {
				defer close(p.done)
				t0 := time.Now()
				var head bool
				var got []byte
				var closed bool
				if sc.Mode == "proxy" {
					head, got, closed = proxyExchange(cl, rd, st, note)
				} else {
					head, got, closed = apiExchange(ac, cl, st, rand.New(rand.NewSource(seed)), note)
				}
				ms := int(time.Since(t0) / time.Millisecond)
				want := pattern(st.S + st.N)[st.S:]
				ok := len(got) <= len(want) && bytes.Equal(got, want[:len(got)])
				if !ok {
					note("%s: body bytes differ from the requested ones (got %d bytes, first difference at %d)", st, len(got), firstDiff(got, want))
				}
				deliv := len(got)
				if head {
					deliv++
				}
				if closed {
					mu.Lock()
					dead[st.C] = true
					mu.Unlock()
				}
				rec.Emit("done", "c", st.C, "deliv", deliv, "closed", closed, "ms", ms, "ok", ok)
			}()
		case "join":
			join(st.C)
		case "close":
			join(st.C)
			if c := clients[st.C]; c != nil {
				rec.Emit("close", "c", st.C)
				c.Close()
				if tc := apiConns[st.C]; tc != nil {
					tc.Close()
				}
				delete(clients, st.C)
			}
		}
	}
	for c := range pend {
		join(c)
	}
	for name, c := range clients {
		rec.Emit("close", "c", name)
		c.Close()
		if tc := apiConns[name]; tc != nil {
			tc.Close()
		}
	}
	// every connection is closed now: the buckets created for them must be, too
	leaked := 0
	for i := 0; i < 150; i++ {
		tsl.mu.Lock()
		cs := append([]*trafficshape.Conn{}, tsl.conns...)
		tsl.mu.Unlock()
		leaked = openLocalBuckets(cs)
		if leaked == 0 {
			break
		}
		time.Sleep(10 * time.Millisecond)
	}
	rec.Emit("resources", "leaked", leaked)
	res.Events = strings.Split(strings.TrimRight(string(rec.Bytes()), "\n"), "\n")
	return res
}

func firstDiff(a, b []byte) int {
	for i := range a {
		if i >= len(b) || a[i] != b[i] {
			return i
		}
	}
	return len(a)
}

// proxyExchange sends one request through the shaped proxy and reads what comes back.
func proxyExchange(c net.Conn, br *bufio.Reader, st Step, note func(string, ...interface{})) (head bool, body []byte, closed bool) {
	url := fmt.Sprintf("http://%s%s%d", origin(), pathOf[st.M], st.S+st.N)
	req := fmt.Sprintf("GET %s HTTP/1.1\r\nHost: %s\r\n", url, origin())
	if st.S > 0 {
		req += fmt.Sprintf("Range: bytes=%d-\r\n", st.S)
	}
	req += "\r\n"
	c.SetDeadline(time.Now().Add(30 * time.Second))
	if _, err := c.Write([]byte(req)); err != nil {
		note("%s: writing the request: %v", st, err)
		return false, nil, true
	}
	res, err := http.ReadResponse(br, nil)
	if err != nil {
		return false, nil, true
	}
	want := 200
	if st.S > 0 {
		want = 206
	}
	if res.StatusCode != want {
		note("%s: status %d", st, res.StatusCode)
	}
	body, err = io.ReadAll(res.Body)
	if err != nil {
		return true, body, true
	}
	if res.Close {
		return true, body, false
	}
	return true, body, false
}

var rangeRe = regexp.MustCompile(`bytes (\d+)-\d+/\d+`)

// apiExchange writes one response through a trafficshape.Conn the way proxy.go does (context set
// from the URL match, range start and dumped head length), cutting the bytes into random pieces.
func apiExchange(tc *trafficshape.Conn, client net.Conn, st Step, rng *rand.Rand, note func(string, ...interface{})) (head bool, body []byte, closed bool) {
	total := st.S + st.N
	res := &http.Response{StatusCode: 200, ProtoMajor: 1, ProtoMinor: 1, Header: http.Header{"Content-Type": {"application/octet-stream"}}, ContentLength: int64(st.N)}
	if st.S > 0 {
		res.StatusCode = 206
		res.Header.Set("Content-Range", fmt.Sprintf("bytes %d-%d/%d", st.S, total-1, total))
	}
	url := fmt.Sprintf("http://origin.test%s%d", pathOf[st.M], total)
	tc.Context = &trafficshape.Context{}
	dump, _ := httputil.DumpResponse(res, false)
	for urlregex, buckets := range tc.LocalBuckets {
		if match, _ := regexp.MatchString(urlregex, url); match {
			rangeStart := int64(st.S)
			tc.Context = &trafficshape.Context{
				Shaping: true, Buckets: buckets, GlobalBucket: tc.GlobalBuckets[urlregex], URLRegex: urlregex,
				RangeStart: rangeStart, ByteOffset: rangeStart, HeaderLen: int64(len(dump)),
			}
			tc.Context.NextActionInfo = tc.GetNextActionFromByte(rangeStart)
			tc.Context.ThrottleContext = tc.GetCurrentThrottle(rangeStart)
			if tc.Context.ThrottleContext.ThrottleNow {
				tc.Context.Buckets.WriteBucket.SetCapacity(tc.Context.ThrottleContext.Bandwidth)
			}
			break
		}
	}
	out := append(append([]byte{}, dump...), pattern(total)[st.S:]...)
	type rd struct {
		b   []byte
		eof bool
	}
	ch := make(chan rd, 1)
	go func() {
		buf := make([]byte, len(out))
		client.SetReadDeadline(time.Now().Add(30 * time.Second))
		n, err := io.ReadFull(client, buf)
		client.SetReadDeadline(time.Time{})
		ch <- rd{buf[:n], err != nil}
	}()
	rest := out
	for len(rest) > 0 {
		k := 1 + rng.Intn(len(rest))
		switch rng.Intn(4) {
		case 0:
			k = 1 + rng.Intn(7)
		case 1:
			k = 4096
		}
		if k > len(rest) {
			k = len(rest)
		}
		n, err := tc.Write(rest[:k])
		if err != nil {
			if _, ok := err.(*trafficshape.ErrForceClose); !ok {
				note("%s: Write: %v", st, err)
			}
			_ = n
			tc.Close() // what the proxy does after a failed response write
			break
		}
		if n != k {
			// bufio.Writer, through which the proxy writes, turns this into io.ErrShortWrite
			note("%s: Write(%d bytes) returned %d without an error", st, k, n)
			tc.Close()
			break
		}
		rest = rest[k:]
	}
	r := <-ch
	if len(r.b) < len(dump) {
		return false, nil, true
	}
	return true, r.b[len(dump):], r.eof
}
