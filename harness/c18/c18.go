// Package c18 decides property C18: traffic shaping delays or cuts a response but never alters
// its bytes; rejected configurations change nothing; closed connections release their buckets.
package c18

import (
	"fmt"
	"math/rand"
	"os"
	"path/filepath"
	"sort"
	"strings"
	"sync"
	"time"

	"verif/harness/core"
)

func init() { core.Register("C18", run) }

func mcCfg(conns string, maxResp int, bodies string, stale, swap, late bool) string {
	b := func(x bool) string {
		if x {
			return "TRUE"
		}
		return "FALSE"
	}
	return fmt.Sprintf("SPECIFICATION Spec\nCONSTANTS\n  Conns = %s\n  Configs <- MCConfigs\n  MaxResp = %d\n  MaxPosts = 2\n  HeadLens = {1}\n  BodyLens = %s\n  RangeStarts = {0, 1}\n  StaleContext = %s\n  SwapUnvalidated = %s\n  CloseLate = %s\n"+
		"INVARIANTS DeliveredAllOrCutAtK NeverMoreThanWritten OnlyMatching CountsSane\nPROPERTIES RejectedLeavesActive OnlyLaterConns\nCHECK_DEADLOCK FALSE\n", conns, maxResp, bodies, b(stale), b(swap), b(late))
}

func valInt(v core.Val) int { return int(v.I) }

func cfgFromVal(v core.Val) *Cfg {
	c := &Cfg{Wellformed: v.Fields["wellformed"].B, DefaultsOK: v.Fields["defaultsOK"].B}
	for _, sv := range v.Fields["shapes"].Elems {
		s := Shape{Re: sv.Fields["re"].S, Maxbw: valInt(sv.Fields["maxbw"])}
		for _, t := range sv.Fields["thr"].Elems {
			s.Thr = append(s.Thr, Thr{valInt(t.Fields["s"]), valInt(t.Fields["e"]), valInt(t.Fields["bw"])})
		}
		for _, h := range sv.Fields["halts"].Elems {
			s.Halts = append(s.Halts, Halt{valInt(h.Fields["b"]), valInt(h.Fields["d"]), valInt(h.Fields["cnt"])})
		}
		for _, k := range sv.Fields["closes"].Elems {
			s.Closes = append(s.Closes, Close{valInt(k.Fields["b"]), valInt(k.Fields["cnt"])})
		}
		c.Shapes = append(c.Shapes, s)
	}
	c.norm()
	return c
}

// scale turns the model's small numbers into bytes and milliseconds.
func (c *Cfg) scale(u int) *Cfg {
	o := &Cfg{Wellformed: c.Wellformed, DefaultsOK: c.DefaultsOK}
	sb := func(b int) int {
		if b < 0 {
			return b
		}
		return b * u
	}
	for _, s := range c.Shapes {
		n := Shape{Re: s.Re}
		switch {
		case s.Maxbw < 0:
			n.Maxbw = -1
		case s.Maxbw > 0:
			n.Maxbw = 5*u/2 + 1
		}
		for _, t := range s.Thr {
			bw := t.Bw
			switch {
			case bw == 1:
				bw = 1 << 20
			case bw >= 2:
				bw = 2*u + 1
			}
			n.Thr = append(n.Thr, Thr{sb(t.S), sb(t.E), bw})
		}
		for _, h := range s.Halts {
			n.Halts = append(n.Halts, Halt{sb(h.B), h.D * 25, h.Cnt})
		}
		for _, k := range s.Closes {
			n.Closes = append(n.Closes, Close{sb(k.B), k.Cnt})
		}
		o.Shapes = append(o.Shapes, n)
	}
	o.norm()
	return o
}

// fromBehaviour keeps the environment's steps; a response stays in flight until the model finishes it.
func fromBehaviour(steps []core.Step, u int) *Script {
	sc := &Script{}
	name := func(v core.Val) string { return v.S }
	nreq := 0
	for _, st := range steps {
		switch st.Action {
		case "Post":
			sc.Steps = append(sc.Steps, Step{Act: "post", Cfg: cfgFromVal(st.Args[0]).scale(u)})
		case "Accept":
			sc.Steps = append(sc.Steps, Step{Act: "accept", C: name(st.Args[0])})
		case "Respond":
			nreq++
			s, n := valInt(st.Args[2])*u, valInt(st.Args[4])*u
			if s > 0 && n == 0 {
				n = 1 // an empty range cannot be asked for
			}
			sc.Steps = append(sc.Steps, Step{Act: "req", C: name(st.Args[0]), M: st.Args[1].S, S: s, N: n})
		case "Finish":
			sc.Steps = append(sc.Steps, Step{Act: "join", C: name(st.Args[0])})
		case "CloseConn":
			sc.Steps = append(sc.Steps, Step{Act: "close", C: name(st.Args[0])})
		}
	}
	if nreq == 0 {
		return nil
	}
	return sc
}

// randomScript: configurations and schedules drawn by the harness (wider than the model's family).
func randomScript(rng *rand.Rand) *Script {
	u := []int{1, 10, 333, 1500}[rng.Intn(4)]
	off := func() int { return rng.Intn(6)*u + []int{0, 0, 1, u / 2}[rng.Intn(4)] }
	mkShape := func(re string) Shape {
		s := Shape{Re: re}
		if rng.Intn(5) == 0 {
			s.Maxbw = 3*u + 7
		}
		pos := 0
		for i := rng.Intn(3); i > 0; i-- {
			a := pos + rng.Intn(2*u+1)
			e := a + 1 + rng.Intn(2*u+1)
			bw := 1 << 20
			if rng.Intn(6) == 0 {
				bw = 2*u + 3
			}
			if i == 1 && rng.Intn(3) == 0 {
				s.Thr = append(s.Thr, Thr{a, -1, bw})
			} else {
				s.Thr = append(s.Thr, Thr{a, e, bw})
			}
			pos = e
		}
		rng.Shuffle(len(s.Thr), func(i, j int) { s.Thr[i], s.Thr[j] = s.Thr[j], s.Thr[i] })
		for i := rng.Intn(3); i > 0; i-- {
			s.Halts = append(s.Halts, Halt{off(), 10 + rng.Intn(40), []int{1, 1, 2, -1}[rng.Intn(4)]})
		}
		for i := rng.Intn(3); i > 0; i-- {
			s.Closes = append(s.Closes, Close{off(), []int{1, 1, 2, -1}[rng.Intn(4)]})
		}
		return s
	}
	breakIt := func(c *Cfg) {
		if len(c.Shapes) == 0 {
			c.DefaultsOK = false
			return
		}
		s := &c.Shapes[rng.Intn(len(c.Shapes))]
		switch rng.Intn(9) {
		case 0:
			s.Thr = append(s.Thr, Thr{0, 5 * u, 100}, Thr{2 * u, 7 * u, 100}) // overlap
		case 1:
			s.Thr = []Thr{{3, 3, 10}}
		case 2:
			s.Thr = []Thr{{0, 4, -2}}
		case 3:
			s.Halts = append(s.Halts, Halt{2, 5, 0})
		case 4:
			s.Closes = append(s.Closes, Close{-3, 1})
		case 5:
			s.Re = "bad"
		case 6:
			s.Maxbw = -9
		case 7:
			c.DefaultsOK = false
		default:
			c.Wellformed = false
			c.Shapes = nil
		}
	}
	mkCfg := func() *Cfg {
		c := &Cfg{Wellformed: true, DefaultsOK: true}
		c.Shapes = append(c.Shapes, mkShape("A"))
		if rng.Intn(2) == 0 {
			c.Shapes = append(c.Shapes, mkShape("B"))
		}
		if rng.Intn(4) == 0 {
			breakIt(c)
		}
		c.norm()
		return c
	}
	sc := &Script{}
	sc.Steps = append(sc.Steps, Step{Act: "post", Cfg: mkCfg()})
	conns := []string{"c1", "c2", "c3"}[:1+rng.Intn(3)]
	open := map[string]bool{}
	for i := 4 + rng.Intn(8); i > 0; i-- {
		c := conns[rng.Intn(len(conns))]
		switch k := rng.Intn(10); {
		case !open[c]:
			sc.Steps = append(sc.Steps, Step{Act: "accept", C: c})
			open[c] = true
		case k < 6:
			s := 0
			if rng.Intn(3) == 0 {
				s = off()
			}
			n := rng.Intn(6*u + 1)
			if s > 0 && n == 0 {
				n = 1
			}
			sc.Steps = append(sc.Steps, Step{Act: "req", C: c, M: []string{"A", "A", "B", "none"}[rng.Intn(4)], S: s, N: n})
			if rng.Intn(3) > 0 {
				sc.Steps = append(sc.Steps, Step{Act: "join", C: c})
			}
		case k < 8:
			sc.Steps = append(sc.Steps, Step{Act: "post", Cfg: mkCfg()})
		default:
			sc.Steps = append(sc.Steps, Step{Act: "close", C: c})
			open[c] = false
			// the name is not reused: the model's connections are accepted once
			for j, x := range conns {
				if x == c {
					conns = append(conns[:j], conns[j+1:]...)
					break
				}
			}
			if len(conns) == 0 {
				return sc
			}
		}
	}
	return sc
}

// lockStress: three connections of one shape look actions up and count them at the same time, over
// and over (the history in which the shape's read and write locks collide).
func lockStress() *Script {
	sh := Shape{Re: "A"}
	for b := 0; b < 6; b++ {
		sh.Halts = append(sh.Halts, Halt{B: b, D: 0, Cnt: -1})
	}
	cfg := &Cfg{Wellformed: true, DefaultsOK: true, Shapes: []Shape{sh}}
	cfg.norm()
	sc := &Script{Steps: []Step{{Act: "post", Cfg: cfg}, {Act: "accept", C: "c1"}, {Act: "accept", C: "c2"}, {Act: "accept", C: "c3"}}}
	for round := 0; round < 25; round++ {
		for _, c := range []string{"c1", "c2", "c3"} {
			sc.Steps = append(sc.Steps, Step{Act: "req", C: c, M: "A", N: 6})
		}
	}
	return sc
}

func describe(sc *Script) string {
	var p []string
	for _, s := range sc.Steps {
		p = append(p, s.String())
	}
	return sc.Mode + ": " + strings.Join(p, " ")
}

type rejection struct {
	sc       *Script
	res      *Result
	at       string
	violated string
}

func (r rejection) signature() string {
	at := r.at
	f := func(name string) string {
		i := strings.Index(at, `"`+name+`":`)
		if i < 0 {
			return "?"
		}
		rest := strings.TrimLeft(at[i+len(name)+3:], `"`)
		for j, ch := range rest {
			if ch == '"' || ch == ',' || ch == '}' {
				return rest[:j]
			}
		}
		return rest
	}
	switch {
	case r.violated != "":
		return "invariant " + r.violated
	case strings.Contains(at, `"ev":"post"`) && f("accepted") == "true":
		return "an invalid configuration was accepted"
	case strings.Contains(at, `"ev":"post"`):
		return "a valid configuration was rejected"
	case strings.Contains(at, `"ev":"done"`) && f("ok") == "false":
		return "the delivered bytes are not the bytes written, in order"
	case strings.Contains(at, `"ev":"done"`) && f("closed") == "true":
		return "the connection was cut where no close action applies, or not at the action's offset"
	case strings.Contains(at, `"ev":"done"`):
		return "a response arrived whole (or sooner than its halts allow) where the shape demands a cut or a delay"
	case strings.Contains(at, `"ev":"hung"`):
		return "a shaped write never completed (the script did not finish within its bound)"
	case strings.Contains(at, `"ev":"resources"`):
		return "buckets created for shaped connections are still open after the connections were closed"
	}
	return "sequencing at " + f("ev")
}

func validate(c *core.Ctx, scs []*Script, ress []*Result, name string) []rejection {
	var rej []rejection
	const group = 50
	for g0 := 0; g0 < len(scs); g0 += group {
		g1 := g0 + group
		if g1 > len(scs) {
			g1 = len(scs)
		}
		alive := map[int]bool{}
		for i := g0; i < g1; i++ {
			alive[i] = true
		}
		for round := 0; round <= group; round++ {
			var sb strings.Builder
			var owner []int
			for i := g0; i < g1; i++ {
				if !alive[i] {
					continue
				}
				for _, l := range ress[i].Events {
					sb.WriteString(l + "\n")
					owner = append(owner, i)
				}
			}
			if len(owner) == 0 {
				break
			}
			path := filepath.Join(c.Work, fmt.Sprintf("%s-%d-%d.ndjson", name, g0, round))
			os.WriteFile(path, []byte(sb.String()), 0o644)
			v, err := core.ValidateTrace(c.Work, "ShapeTrace", "ShapeTrace.cfg", path, 10*time.Minute, nil)
			if err != nil {
				c.Inconclusive("trace validation (%s) failed to run: %v", name, err)
				return rej
			}
			if v.Infra {
				c.Inconclusive("trace validation (%s) failed to run: %s", name, v.Res.Tail(25))
				return rej
			}
			if v.Accepted {
				break
			}
			hw := v.HighWater
			if hw < 1 {
				hw = 1
			}
			if hw > len(owner) {
				hw = len(owner)
			}
			i := owner[hw-1]
			alive[i] = false
			pos := 0
			for k := hw - 1; k >= 0 && owner[k] == i; k-- {
				pos++
			}
			rej = append(rej, rejection{sc: scs[i], res: ress[i], at: ress[i].Events[pos-1], violated: v.Violated})
		}
	}
	return rej
}

func runAll(scs []*Script, par int) []*Result {
	out := make([]*Result, len(scs))
	sem := make(chan struct{}, par)
	var wg sync.WaitGroup
	for i, sc := range scs {
		wg.Add(1)
		sem <- struct{}{}
		go func(i int, sc *Script) {
			defer wg.Done()
			defer func() { <-sem }()
			out[i] = RunBounded(sc, 90*time.Second)
		}(i, sc)
	}
	wg.Wait()
	return out
}

func run(c *core.Ctx) {
	c.Describe(
		"TLC model-checks Shape.tla (configuration validation as in utils.go, the sorted action list of a shape, the active map with its modification time, connections that remember the shapes and the time of their acceptance, the per-response write context of proxy.go:531-568 and the write loop of conn.go:370-493 step by step, counts shared between connections) over all write partitions for DeliveredAllOrCutAtK, NeverMoreThanWritten, OnlyMatching, CountsSane, RejectedLeavesActive, OnlyLaterConns; the deviations StaleContext, SwapUnvalidated and CloseLate must violate them. Scripts - simulated behaviours of the model's configuration family (14 invalid kinds among them) scaled to bytes and milliseconds, and configurations and schedules drawn by the harness - run twice: through a live martian proxy behind a trafficshape.Listener (configuration through the handler, Range requests to a real origin, keep-alive and concurrent client connections) and at the trafficshape.Conn API with the context set as proxy.go sets it and the bytes cut into random write sizes. Clients compare every byte with what the origin serves; TLC validates posts (accepted or rejected), delivered lengths, cuts, minimum delays and the release of per-connection buckets against ShapeTrace.",
		"Shape.tla invariants and action properties checked by TLC (three deviation runs must fail); binding: scripts -> live shaped proxy and Conn API -> observation traces validated by TLC with the write loop silent.",
		false,
		"token buckets are not modelled: they may only delay (lower bounds on time are checked for halts, not for throttles)",
		"response heads are normalised to length 1 in traces; the API mode copies the context set-up of proxy.go:531-568",
		"a URL matches at most one shape of a configuration")
	type mrun struct{ name, cfg, want string }
	runs := []mrun{
		{"shape_ref_2conns", mcCfg("{c1, c2}", 1, "{3}", false, false, false), ""},
		{"shape_ref_keepalive", mcCfg("{c1}", 2, "{0, 3}", false, false, false), ""},
		{"shape_dev_stale", mcCfg("{c1}", 2, "{0, 3}", true, false, false), "DeliveredAllOrCutAtK OnlyMatching"},
		{"shape_dev_swap", mcCfg("{c1}", 1, "{3}", false, true, false), "RejectedLeavesActive"},
		{"shape_dev_late", mcCfg("{c1}", 1, "{3}", false, false, true), "DeliveredAllOrCutAtK"},
	}
	if c.Thorough() {
		runs[0].cfg = mcCfg("{c1, c2}", 2, "{3}", false, false, false)
	}
	for _, r := range runs {
		os.WriteFile(filepath.Join(c.Work, r.name+".cfg"), []byte(r.cfg), 0o644)
		res, err := core.RunTLC(c.Work, core.TLCOpts{Module: "MCShape", Cfg: r.name + ".cfg", Workers: 14, Timeout: 60 * time.Minute, Heap: "12g"})
		if err != nil || res.Infra() {
			c.Inconclusive("TLC on Shape (%s) failed: %v %s", r.name, err, res.Tail(20))
			return
		}
		if r.want == "" {
			if !res.OK() {
				c.Inconclusive("Shape reference model violates %s", res.Violated)
				return
			}
			c.Model(res)
		} else if res.Violated == "" || !strings.Contains(r.want, res.Violated) {
			c.Inconclusive("self-test: deviation %s expected to violate %s, TLC reported %q", r.name, r.want, res.Violated)
			return
		} else {
			c.Extra("deviation_"+r.name, res.Violated)
		}
	}
	// the locking protocol around the shared shape map: no deadlock, every goroutine finishes;
	// with the recursive read locks of the code before the repair TLC must find the deadlock
	for _, rec := range []bool{false, true} {
		name := fmt.Sprintf("shapelocks_%v", rec)
		cfg := fmt.Sprintf("SPECIFICATION Spec\nCONSTANTS\n  Lookups = {\"l1\", \"l2\"}\n  Actions = {\"a1\", \"a2\"}\n  Posts = {\"p1\"}\n  Recursive = %s\nINVARIANT Exclusive\nPROPERTY Finishes\n", strings.ToUpper(fmt.Sprint(rec)))
		os.WriteFile(filepath.Join(c.Work, name+".cfg"), []byte(cfg), 0o644)
		res, err := core.RunTLC(c.Work, core.TLCOpts{Module: "ShapeLocks", Cfg: name + ".cfg", Workers: 4, Timeout: 10 * time.Minute, Deadlock: true})
		if err != nil {
			c.Inconclusive("TLC on ShapeLocks failed: %v", err)
			return
		}
		dead := strings.Contains(res.Out, "Deadlock reached")
		switch {
		case !rec && (dead || !res.OK()):
			c.Inconclusive("ShapeLocks reference model: deadlock=%v %s", dead, res.Tail(15))
			return
		case !rec:
			c.Model(res)
		case !dead:
			c.Inconclusive("self-test: ShapeLocks with recursive read locks should deadlock")
			return
		default:
			c.Extra("deviation_shapelocks_recursive", "Deadlock reached")
		}
	}
	simCfg := "SPECIFICATION Spec\nCONSTANTS\n  Conns = {c1, c2}\n  Configs <- SimConfigs\n  MaxResp = 3\n  MaxPosts = 3\n  HeadLens = {1}\n  BodyLens = {0, 3, 5}\n  RangeStarts = {0, 1, 2}\n  StaleContext = FALSE\n  SwapUnvalidated = FALSE\n  CloseLate = FALSE\nCHECK_DEADLOCK FALSE\n"
	os.WriteFile(filepath.Join(c.Work, "shape_sim.cfg"), []byte(simCfg), 0o644)
	base := filepath.Join(c.Work, "shape_sim")
	res, err := core.RunTLC(c.Work, core.TLCOpts{Module: "MCShape", Cfg: "shape_sim.cfg", Workers: 1, Timeout: 10 * time.Minute,
		Args: []string{"-simulate", fmt.Sprintf("file=%s,num=%d", base, c.Pick(400, 4000)), "-depth", "45", "-seed", fmt.Sprint(c.Seed)}})
	if err != nil || res.Infra() || res.Violated != "" {
		c.Inconclusive("simulation of Shape failed: %v %s", err, res.Tail(20))
		return
	}
	rng := rand.New(rand.NewSource(c.Seed))
	var scs []*Script
	seen := map[string]bool{}
	add := func(sc *Script) {
		if sc == nil {
			return
		}
		for _, mode := range []string{"proxy", "api"} {
			x := &Script{Mode: mode, Steps: sc.Steps, Seed: rng.Int63()}
			k := describe(x)
			if seen[k] {
				continue
			}
			seen[k] = true
			x.Name = fmt.Sprintf("s%d-%s", len(scs), mode)
			scs = append(scs, x)
		}
	}
	files, _ := filepath.Glob(base + "_*")
	sort.Strings(files)
	maxSim := c.Pick(90, 700)
	for i, f := range files {
		st, err := core.ParseSimFile(f)
		os.Remove(f)
		if err != nil || len(scs) >= 2*maxSim {
			continue
		}
		add(fromBehaviour(st, []int{1, 300, 1500}[i%3]))
	}
	for i := c.Pick(60, 500); i > 0; i-- {
		add(randomScript(rng))
	}
	add(lockStress())
	ress := runAll(scs, 24)
	var okS []*Script
	var okR []*Result
	for i, r := range ress {
		if r.Err != "" {
			c.Inconclusive("script %s: %s", scs[i].Name, r.Err)
			continue
		}
		okS, okR = append(okS, scs[i]), append(okR, r)
		c.Eval(describe(scs[i]))
		if i%40 == 0 {
			c.Sample(map[string]interface{}{"script": describe(scs[i]), "events": r.Events, "notes": r.Notes})
		}
	}
	c.Trace(len(okS))
	for _, r := range validate(c, okS, okR, "shape") {
		// only a rejection that repeats counts (timing is part of what is checked)
		confirmed := false
		for try := 0; try < 2 && !confirmed; try++ {
			r2 := RunBounded(r.sc, 90*time.Second)
			if r2.Err != "" {
				continue
			}
			for _, x := range validate(c, []*Script{r.sc}, []*Result{r2}, fmt.Sprintf("shape-confirm%d", try)) {
				if x.signature() == r.signature() {
					confirmed = true
				}
			}
		}
		if !confirmed {
			c.Inconclusive("a rejected script (%s) was accepted when run again: %s", r.signature(), describe(r.sc))
			continue
		}
		c.Violation(r.signature(), fmt.Sprintf("script %s; first unmatched observation %s; observations %v; notes %v", describe(r.sc), r.at, r.res.Events, r.res.Notes),
			map[string]interface{}{"script": r.sc, "events": r.res.Events})
	}
}
