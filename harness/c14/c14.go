// Package c14 decides property C14: every header block enumerated by HttpSpec.tla is
// rendered with concrete names, case and spacing, run through httpspec.NewStack, and the
// resulting header map, error class, skip flag and status must equal the specification's.
package c14

import (
	"bufio"
	"fmt"
	"io"
	"net"
	"net/http"
	"net/textproto"
	"os"
	"path/filepath"
	"sort"
	"strings"
	"time"

	"github.com/google/martian/v3"
	"github.com/google/martian/v3/fifo"
	"github.com/google/martian/v3/httpspec"
	"github.com/google/martian/v3/proxyutil"

	"verif/harness/core"
)

func init() { core.Register("C14", Run) }

var hopPairs = [][2]string{{"Keep-Alive", "Te"}, {"Proxy-Authenticate", "Upgrade"}, {"Proxy-Authorization", "Trailer"}, {"Proxy-Connection", "Keep-Alive"}}
var xfpNames = []string{"X-Forwarded-Proto", "X-Forwarded-Host", "X-Forwarded-Url"}

type machine struct {
	init    core.State
	variant int
	stack   *fifo.Group
	self    string // "martian-<boundary>"
	result  string
	detail  string
}

func caseVar(s string, v int) string {
	switch v % 3 {
	case 1:
		return strings.ToLower(s)
	case 2:
		return strings.ToUpper(s)
	}
	return s
}

func (m *machine) name(n string) string {
	hp := hopPairs[m.variant%len(hopPairs)]
	switch n {
	case "conn":
		return "Connection"
	case "h1":
		return hp[0]
	case "h2":
		return hp[1]
	case "a":
		return "X-Custom-A"
	case "b":
		return "X-Custom-B"
	case "via":
		return "Via"
	case "xff":
		return "X-Forwarded-For"
	case "xfp":
		return xfpNames[m.variant%3]
	case "cl":
		return "Content-Length"
	case "te":
		return "Transfer-Encoding"
	}
	return "X-Unknown-" + n
}

func (m *machine) token(n, t string, i int) string {
	switch n {
	case "conn":
		switch t {
		case "a", "h1", "via", "xff":
			return caseVar(m.name(t), m.variant+i)
		}
		return caseVar(t, m.variant+i)
	case "via":
		switch t {
		case "o1":
			return "1.1 other-proxy"
		case "o2":
			return "1.0 fred (a comment)"
		case "self":
			return "1.1 " + m.self
		case "selfv":
			return []string{"2.0 ", "1.0 ", "HTTP/1.1 "}[m.variant%3] + m.self
		}
	case "xff":
		return map[string]string{"c1": "192.0.2.1", "c2": "2001:db8::7"}[t]
	}
	return t
}

func (m *machine) render(hdr core.Val) string {
	var sb strings.Builder
	seps := []string{", ", ",", " ,  "}
	for li, l := range hdr.Elems {
		n := l.Get("n").S
		var toks []string
		for i, t := range l.Get("v").Elems {
			toks = append(toks, m.token(n, t.S, i+li))
		}
		sb.WriteString(caseVar(m.name(n), m.variant+li))
		sb.WriteString(": ")
		sb.WriteString(strings.Join(toks, seps[(m.variant+li)%3]))
		sb.WriteString("\r\n")
	}
	sb.WriteString("\r\n")
	return sb.String()
}

func parseHeader(text string) (http.Header, error) {
	h, err := textproto.NewReader(bufio.NewReader(strings.NewReader(text))).ReadMIMEHeader()
	if err != nil && err != io.EOF {
		return nil, err
	}
	return http.Header(h), nil
}

func newStack() (*fifo.Group, string, error) {
	outer, _ := httpspec.NewStack("martian")
	req, _ := http.NewRequest("GET", "http://probe.example/", nil)
	req.RemoteAddr = "10.9.9.9:1"
	_, rm, _ := martian.TestContext(req, nil, nil)
	defer rm()
	if err := outer.ModifyRequest(req); err != nil {
		return nil, "", err
	}
	f := strings.Fields(req.Header.Get("Via"))
	if len(f) != 2 {
		return nil, "", fmt.Errorf("unexpected probe Via %q", req.Header.Get("Via"))
	}
	return outer, f[1], nil
}

func errClass(err error) string {
	switch {
	case err == nil:
		return "none"
	case strings.Contains(err.Error(), "loop"):
		return "loop"
	case strings.Contains(err.Error(), "bad request framing"):
		return "framing"
	}
	return "other(" + err.Error() + ")"
}

func (m *machine) Apply(action string, args []core.Val) error {
	if action == "Build" {
		return nil
	}
	if m.stack == nil {
		var err error
		if m.stack, m.self, err = newStack(); err != nil {
			return err
		}
	}
	text := m.render(m.init["hdr"])
	h, err := parseHeader(text)
	if err != nil {
		return fmt.Errorf("harness rendered an unparseable block %q: %v", text, err)
	}
	switch action {
	case "ProcessRequest":
		req, _ := http.NewRequest("GET", "http://example.com/p?q=1", nil)
		req.Header = h
		req.RemoteAddr = "10.1.2.3:5555"
		ctx, rm, _ := martian.TestContext(req, nil, nil)
		defer rm()
		merr := m.stack.ModifyRequest(req)
		ec := errClass(merr)
		status := 0
		if ec == "loop" {
			res := proxyutil.NewResponse(200, nil, req)
			m.stack.ModifyResponse(res)
			status = res.StatusCode
		}
		if ec == "framing" {
			m.result = "err=framing"
		} else {
			m.result = fmt.Sprintf("err=%s skip=%v status=%d hdr=%s", ec, ctx.SkippingRoundTrip(), status, m.projectHeader(req.Header, true))
		}
		m.detail = fmt.Sprintf("request header block %q -> %v (error %v)", text, req.Header, merr)
	case "ProcessResponse":
		req, _ := http.NewRequest("GET", "http://example.com/p", nil)
		req.RemoteAddr = "10.1.2.3:5555"
		if m.init["loopRes"].B {
			req.Header.Set("Via", "1.1 "+m.self)
		}
		_, rm, _ := martian.TestContext(req, nil, nil)
		defer rm()
		m.stack.ModifyRequest(req)
		res := proxyutil.NewResponse(200, nil, req)
		res.Header = h
		merr := m.stack.ModifyResponse(res)
		ec := errClass(merr)
		if ec == "loop" {
			m.result = fmt.Sprintf("err=loop skip=false status=%d hdr=", res.StatusCode)
		} else {
			m.result = fmt.Sprintf("err=%s skip=false status=%d hdr=%s", ec, res.StatusCode, m.projectHeader(res.Header, false))
		}
		m.detail = fmt.Sprintf("response header block %q -> %v (error %v)", text, res.Header, merr)
	default:
		return fmt.Errorf("unknown action %s", action)
	}
	return nil
}

var order = []string{"conn", "h1", "h2", "te", "a", "b", "via", "xff", "xfp", "cl"}

func splitTokens(vs []string) []string {
	var out []string
	for _, v := range vs {
		for _, t := range strings.Split(v, ",") {
			out = append(out, strings.TrimSpace(t))
		}
	}
	return out
}

// projectHeader maps the concrete header map back to abstract lines.
func (m *machine) projectHeader(h http.Header, isReq bool) string {
	known := map[string]bool{}
	var parts []string
	for _, n := range order {
		cn := m.name(n)
		if known[cn] {
			continue // h2 may alias h1's partner in one rotation
		}
		known[cn] = true
		vs := h[cn]
		if len(vs) == 0 {
			continue
		}
		switch n {
		case "via":
			var toks []string
			for _, t := range splitTokens(vs) {
				switch {
				case t == "1.1 other-proxy":
					toks = append(toks, "o1")
				case t == "1.0 fred (a comment)":
					toks = append(toks, "o2")
				case t == "1.1 "+m.self:
					toks = append(toks, "self")
				case strings.HasSuffix(t, " "+m.self):
					toks = append(toks, "selfv")
				default:
					toks = append(toks, "?"+t)
				}
			}
			parts = append(parts, "via="+strings.Join(toks, "+"))
		case "xff":
			var toks []string
			for _, t := range splitTokens(vs) {
				switch t {
				case "192.0.2.1":
					toks = append(toks, "c1")
				case "2001:db8::7":
					toks = append(toks, "c2")
				case "10.1.2.3":
					toks = append(toks, "client")
				default:
					toks = append(toks, "?"+t)
				}
			}
			parts = append(parts, "xff="+strings.Join(toks, "+"))
		case "xfp":
			want := map[string]string{"X-Forwarded-Proto": "http", "X-Forwarded-Host": "example.com", "X-Forwarded-Url": "http://example.com/p?q=1"}[cn]
			v := strings.Join(vs, "|")
			switch v {
			case "orig":
				v = "orig"
			case want:
				v = "set"
			default:
				v = "?" + v
			}
			parts = append(parts, "xfp="+v)
		case "cl":
			parts = append(parts, "cl="+strings.Join(splitTokens(vs), "+"))
		default:
			parts = append(parts, n+"="+strings.Join(vs, "|"))
		}
	}
	// the two X-Forwarded-* headers that were not part of the input must have been set
	if isReq {
		for _, cn := range xfpNames {
			if cn == m.name("xfp") {
				continue
			}
			known[cn] = true
			want := map[string]string{"X-Forwarded-Proto": "http", "X-Forwarded-Host": "example.com", "X-Forwarded-Url": "http://example.com/p?q=1"}[cn]
			if got := strings.Join(h[cn], "|"); got != want {
				parts = append(parts, fmt.Sprintf("BAD %s=%q", cn, got))
			}
		}
	}
	var extra []string
	for k := range h {
		if !known[k] {
			extra = append(extra, k)
		}
	}
	sort.Strings(extra)
	for _, k := range extra {
		parts = append(parts, "EXTRA "+k)
	}
	return strings.Join(parts, ";")
}

func (m *machine) Project() string {
	if m.result == "" {
		return "in"
	}
	return m.result
}

func (m *machine) Detail() string { return m.detail }

func abstract(s core.State) string {
	if s["phase"].S == "in" {
		return "in"
	}
	out := s["out"]
	if out.Get("err").S == "framing" {
		return "err=framing"
	}
	by := map[string][]core.Val{}
	for _, l := range out.Get("hdr").Elems {
		by[l.Get("n").S] = append(by[l.Get("n").S], l)
	}
	var parts []string
	for _, n := range order {
		ls := by[n]
		if len(ls) == 0 {
			continue
		}
		switch n {
		case "via", "xff", "cl":
			var toks []string
			for _, l := range ls {
				toks = append(toks, l.Get("v").Strs()...)
			}
			parts = append(parts, n+"="+strings.Join(toks, "+"))
		default:
			var vs []string
			for _, l := range ls {
				vs = append(vs, strings.Join(l.Get("v").Strs(), ", "))
			}
			parts = append(parts, n+"="+strings.Join(vs, "|"))
		}
	}
	hdr := strings.Join(parts, ";")
	if out.Get("err").S == "loop" && s["kind"].S == "res" {
		hdr = ""
	}
	return fmt.Sprintf("err=%s skip=%v status=%d hdr=%s", out.Get("err").S, out.Get("skip").B, out.Get("status").Int(), hdr)
}

func writeCfg(c *core.Ctx, name string, full bool) {
	f := "FALSE"
	if full {
		f = "TRUE"
	}
	cfg := "SPECIFICATION Spec\nCONSTANTS Full = " + f + "\nINVARIANTS NoHopByHopSurvives OthersUntouched OneViaAppendedLast XffAppends LoopNeverUpstream BadFramingFlagged\n"
	os.WriteFile(filepath.Join(c.Work, name), []byte(cfg), 0o644)
}

// Run is the C14 check.
func Run(c *core.Ctx) {
	c.Describe(
		"TLC enumerates HttpSpec.tla's header blocks family by family (Connection lists x fixed hop-by-hop headers x end-to-end headers; Via chains x X-Forwarded-* x Connection naming them; Content-Length x Transfer-Encoding combinations) for requests and responses, and samples the full product with -simulate. Each block is rendered with rotating concrete hop-by-hop names, header-name case, token case and comma spacing, parsed by net/textproto, run through httpspec.NewStack, and the projected header map, error class, skip-round-trip flag and status are compared with the specification's output. A live proxy with the stack checks loops never reach the origin. Non-trivial = blocks with a Connection list, a Via chain, X-Forwarded-For or framing headers.",
		"HttpSpec.tla invariants NoHopByHopSurvives, OthersUntouched, OneViaAppendedLast, XffAppends, LoopNeverUpstream, BadFramingFlagged checked by TLC; binding: every enumerated block executed on the real stack.",
		true,
		"multi-line Via / X-Forwarded-For are compared as token lists (joining lines into one comma-separated line is equivalent)",
		"when a framing error is flagged only the error is compared; the stack stops at the first error")
	writeCfg(c, "HttpSpec_mc.cfg", false)
	dot := filepath.Join(c.Work, "httpspec.dot")
	res, err := core.RunTLC(c.Work, core.TLCOpts{Module: "HttpSpec", Cfg: "HttpSpec_mc.cfg", Workers: 8, Timeout: 10 * time.Minute,
		Args: []string{"-dump", "dot,actionlabels", dot}})
	if err != nil || !res.OK() {
		c.Inconclusive("TLC on HttpSpec failed: %v %s", err, tail(res))
		return
	}
	c.Model(res)
	g, err := core.ParseDot(dot)
	if err != nil {
		c.Inconclusive("parse graph: %v", err)
		return
	}
	c.ModelGraph(g)
	nontrivial := func(from core.State, e core.Edge, to core.State) string {
		for _, l := range from["hdr"].Elems {
			switch l.Get("n").S {
			case "conn", "via", "xff", "cl", "te":
				return from["kind"].S + from["hdr"].String()
			}
		}
		return ""
	}
	variants := c.Pick(4, 12)
	for v := 0; v < variants; v++ {
		variant := v + int(c.Seed%5)
		core.ReplayGraph(c, g, core.ReplayOpts{
			SigPrefix:  fmt.Sprintf("v%d:", variant),
			NewFor:     func(init core.State) core.Machine { return &machine{init: init, variant: variant} },
			Abstract:   abstract,
			NonTrivial: nontrivial,
			Classify:   classify,
		})
	}
	// full product by simulation
	writeCfg(c, "HttpSpec_sim.cfg", true)
	n := c.Pick(1500, 20000)
	simBase := filepath.Join(c.Work, "sim")
	sres, err := core.RunTLC(c.Work, core.TLCOpts{Module: "HttpSpec", Cfg: "HttpSpec_sim.cfg", Workers: 1, Timeout: 10 * time.Minute,
		Args: []string{"-simulate", fmt.Sprintf("file=%s,num=%d", simBase, n), "-depth", "12", "-seed", fmt.Sprint(c.Seed)}})
	if err != nil || sres.Infra() || sres.Violated != "" {
		c.Inconclusive("TLC simulation on HttpSpec failed: %v %s", err, tail(sres))
		return
	}
	files, _ := filepath.Glob(simBase + "_*")
	sort.Strings(files)
	for i, f := range files {
		steps, err := core.ParseSimFile(f)
		if err != nil || len(steps) < 2 {
			c.Inconclusive("parse %s: %v", f, err)
			return
		}
		last := steps[len(steps)-1]
		if last.State["phase"].S != "out" {
			continue
		}
		pre := steps[len(steps)-2].State
		m := &machine{init: pre, variant: i + int(c.Seed)}
		if err := m.Apply(last.Action, last.Args); err != nil {
			c.Inconclusive("simulated block: %v", err)
			return
		}
		got, want := m.Project(), abstract(last.State)
		c.Eval("sim:" + pre["hdr"].String())
		if i%500 == 0 {
			c.Sample(map[string]interface{}{"block": pre["hdr"].Go(), "outcome": got})
		}
		if got != want {
			sig := classify(m, got, []string{want})
			if sig == "" {
				sig = "sim:" + pre["hdr"].String()
			}
			c.Violation(sig, fmt.Sprintf("block %s: implementation %s, specification %s [%s]", pre["hdr"], got, want, m.detail),
				map[string]interface{}{"block": pre["hdr"].Go(), "got": got, "want": want})
		}
	}
	c.Trace(len(files))
	c.Extra("simulated_full_product_blocks", len(files))
	live(c)
}

// classify is used for known-finding classes; none are listed at present.
func classify(m core.Machine, got string, wants []string) string { return "" }

func tail(r *core.TLCResult) string {
	if r == nil {
		return ""
	}
	return r.Tail(30)
}

// live runs a real proxy with the stack between a raw client and an origin.
func live(c *core.Ctx) {
	if !c.Want("live:") {
		return
	}
	originHits := 0
	var seenVia, seenConn, seenKA, seenA string
	ol, err := net.Listen("tcp", "127.0.0.1:0")
	if err != nil {
		c.Inconclusive("listen: %v", err)
		return
	}
	defer ol.Close()
	go http.Serve(ol, http.HandlerFunc(func(w http.ResponseWriter, r *http.Request) {
		originHits++
		seenVia, seenConn, seenKA, seenA = strings.Join(r.Header["Via"], ", "), r.Header.Get("Connection"), r.Header.Get("Keep-Alive"), r.Header.Get("X-Custom-A")
		w.Header().Set("Keep-Alive", "timeout=5")
		w.Header().Set("X-Origin", "yes")
		w.Write([]byte("ok"))
	}))
	p := martian.NewProxy()
	defer p.Close()
	outer, _ := httpspec.NewStack("martian")
	p.SetRequestModifier(outer)
	p.SetResponseModifier(outer)
	pl, err := net.Listen("tcp", "127.0.0.1:0")
	if err != nil {
		c.Inconclusive("listen: %v", err)
		return
	}
	go p.Serve(pl)
	do := func(extra string) (int, http.Header, error) {
		conn, err := net.DialTimeout("tcp", pl.Addr().String(), 2*time.Second)
		if err != nil {
			return 0, nil, err
		}
		defer conn.Close()
		conn.SetDeadline(time.Now().Add(5 * time.Second))
		fmt.Fprintf(conn, "GET http://%s/x HTTP/1.1\r\nHost: %s\r\n%s\r\n", ol.Addr(), ol.Addr(), extra)
		res, err := http.ReadResponse(bufio.NewReader(conn), nil)
		if err != nil {
			return 0, nil, err
		}
		io.Copy(io.Discard, res.Body)
		return res.StatusCode, res.Header, nil
	}
	st, h, err := do("Connection: keep-alive, x-custom-a\r\nKeep-Alive: 3\r\nX-Custom-A: 1\r\nVia: 1.0 first\r\nVia: 1.1 second\r\n")
	if err != nil {
		c.Inconclusive("live exchange: %v", err)
		return
	}
	c.Eval("live:normal")
	f := strings.Fields(seenVia)
	if st != 200 || originHits != 1 || seenKA != "" || seenA != "" || strings.Contains(strings.ToLower(seenConn), "x-custom-a") ||
		!strings.HasPrefix(seenVia, "1.0 first, 1.1 second, 1.1 martian-") || h.Get("Keep-Alive") != "" || h.Get("X-Origin") != "yes" {
		c.Violation("live:normal", fmt.Sprintf("through a live proxy: status %d, origin hits %d, origin saw Via=%q Connection=%q Keep-Alive=%q X-Custom-A=%q; client saw %v", st, originHits, seenVia, seenConn, seenKA, seenA, h), nil)
		return
	}
	self := f[len(f)-1]
	for i, via := range []string{"Via: 1.1 " + self + "\r\n", "Via: 1.0 a\r\nVia: 1.1 b, 1.0 " + self + "\r\n"} {
		before := originHits
		st, _, err := do(via)
		if err != nil {
			c.Inconclusive("live loop exchange: %v", err)
			return
		}
		c.Eval(fmt.Sprintf("live:loop%d", i))
		if st != 400 || originHits != before {
			c.Violation(fmt.Sprintf("live:loop%d", i), fmt.Sprintf("request with %q through a live proxy: status %d (want 400), origin contacted %d times (want 0)", via, st, originHits-before), nil)
		}
	}
	c.Trace(3)
}
