// Package c17 decides property C17 (HAR log) by replaying every transition of the
// HarLog specification's state graph on a real har.Logger and by validating
// concurrent call/return histories against the same specification with TLC.
package c17

import (
	"encoding/json"
	"fmt"
	"math/rand"
	"net/http"
	"net/http/httptest"
	"os"
	"path/filepath"
	"sort"
	"strconv"
	"strings"
	"sync"
	"time"

	"github.com/google/martian/v3/har"

	"verif/harness/core"
)

func init() {
	core.Register("C17", Run)
	core.RegisterChild("c17-conc", concChild)
}

type ent struct {
	ID   string `json:"id"`
	N    int    `json:"n"`
	Resp int    `json:"resp"`
}

func project(h *har.HAR) []ent {
	out := []ent{}
	for _, e := range h.Log.Entries {
		x := ent{ID: e.ID, N: -1}
		if e.Request != nil {
			// identity token is the last path segment of the URL
			if i := strings.LastIndex(e.Request.URL, "/n"); i >= 0 {
				x.N, _ = strconv.Atoi(e.Request.URL[i+2:])
			}
		}
		if e.Response != nil {
			x.Resp = e.Response.Status - 200
			// the response must belong to this request: it carries the id it was recorded for
			own := ""
			for _, h := range e.Response.Headers {
				if h.Name == "X-Verif-Id" {
					own = h.Value
				}
			}
			if own != e.ID {
				x.Resp = -1000
			}
		}
		out = append(out, x)
	}
	return out
}

func entsString(es []ent) string {
	parts := make([]string, len(es))
	for i, e := range es {
		parts[i] = fmt.Sprintf("%s:%d:%d", e.ID, e.N, e.Resp)
	}
	return "[" + strings.Join(parts, " ") + "]"
}

func mkReq(n int) *http.Request {
	req, _ := http.NewRequest("GET", fmt.Sprintf("http://example.com/n%d", n), nil)
	return req
}

// gate pairs up goroutines that are inside a body read, so that calls whose
// argument processing happens outside the logger's lock really overlap.
type gate struct{ ch chan struct{} }

func (g *gate) meet() {
	select {
	case g.ch <- struct{}{}:
	case <-g.ch:
	case <-time.After(3 * time.Millisecond):
	}
}

type gatedBody struct {
	g    *gate
	met  bool
	data *strings.Reader
}

func (b *gatedBody) Read(p []byte) (int, error) {
	if !b.met {
		b.met = true
		b.g.meet()
	}
	return b.data.Read(p)
}
func (b *gatedBody) Close() error { return nil }

func mkGatedReq(n int, g *gate) *http.Request {
	req, _ := http.NewRequest("POST", fmt.Sprintf("http://example.com/n%d", n), nil)
	req.Header.Set("Content-Type", "text/plain")
	req.Body = &gatedBody{g: g, data: strings.NewReader("payload")}
	req.ContentLength = 7
	return req
}

func mkRes(id string, r int) *http.Response {
	res := &http.Response{StatusCode: 200 + r, Proto: "HTTP/1.1", ProtoMajor: 1, ProtoMinor: 1,
		Header: http.Header{"X-Verif-Id": {id}}, Body: http.NoBody}
	res.Request = mkReq(0)
	return res
}

// machine drives a real har.Logger.
type machine struct {
	l        *har.Logger
	serial   int
	nops     int
	last     string
	returned map[int]bool
	viaHTTP  bool
}

func decodeHAR(rec *httptest.ResponseRecorder) (*har.HAR, error) {
	h := &har.HAR{}
	if err := json.Unmarshal(rec.Body.Bytes(), h); err != nil {
		return nil, err
	}
	if h.Log == nil {
		return nil, fmt.Errorf("no log in %q", rec.Body.String())
	}
	return h, nil
}

func (m *machine) export() (*har.HAR, error) {
	if !m.viaHTTP {
		return m.l.Export(), nil
	}
	rec := httptest.NewRecorder()
	har.NewExportHandler(m.l).ServeHTTP(rec, httptest.NewRequest("GET", "/logs", nil))
	return decodeHAR(rec)
}

func (m *machine) Apply(action string, args []core.Val) error {
	m.nops++
	switch action {
	case "RecordRequest":
		err := m.l.RecordRequest(args[0].S, mkReq(m.serial+1))
		if err == nil {
			m.serial++
		}
		m.last = fmt.Sprintf("req:%v:[]", err == nil)
	case "RecordResponse":
		if err := m.l.RecordResponse(args[0].S, mkRes(args[0].S, args[1].Int())); err != nil {
			return err
		}
		m.last = "res:true:[]"
	case "Export":
		h, err := m.export()
		if err != nil {
			return err
		}
		m.last = "export:true:" + entsString(project(h))
	case "ExportAndReset":
		var h *har.HAR
		if m.viaHTTP {
			rec := httptest.NewRecorder()
			har.NewResetHandler(m.l).ServeHTTP(rec, httptest.NewRequest("DELETE", "/logs/reset?return=true", nil))
			var err error
			if h, err = decodeHAR(rec); err != nil {
				return err
			}
		} else {
			h = m.l.ExportAndReset()
		}
		es := project(h)
		for _, e := range es {
			if m.returned[e.N] {
				m.last = "xr:DUPLICATE-RETURN"
				return nil
			}
			m.returned[e.N] = true
		}
		m.last = "xr:true:" + entsString(es)
	case "Reset":
		if m.viaHTTP {
			rec := httptest.NewRecorder()
			har.NewResetHandler(m.l).ServeHTTP(rec, httptest.NewRequest("DELETE", "/logs/reset", nil))
			if rec.Code != 204 {
				return fmt.Errorf("reset handler status %d", rec.Code)
			}
		} else {
			m.l.Reset()
		}
		m.last = "reset:true:[]"
	default:
		return fmt.Errorf("unknown action %s", action)
	}
	return nil
}

func (m *machine) Project() string {
	rs := make([]int, 0, len(m.returned))
	for n := range m.returned {
		rs = append(rs, n)
	}
	sort.Ints(rs)
	return fmt.Sprintf("log=%s last=%s serial=%d returned=%v", entsString(project(m.l.Export())), m.last, m.serial, rs)
}

func valEnts(v core.Val) []ent {
	out := []ent{}
	for _, e := range v.Elems {
		out = append(out, ent{ID: e.Get("id").S, N: e.Get("n").Int(), Resp: e.Get("resp").Int()})
	}
	return out
}

func abstract(s core.State) string {
	last := s["last"]
	ls := fmt.Sprintf("%s:%v:%s", last.Get("op").S, last.Get("ok").B, entsString(valEnts(last.Get("out"))))
	if last.Get("op").S == "init" {
		ls = ""
	}
	rs := s["returned"].Ints()
	sort.Ints(rs)
	return fmt.Sprintf("log=%s last=%s serial=%d returned=%v", entsString(valEnts(s["log"])), ls, s["serial"].Int(), rs)
}

// Run is the C17 check.
func Run(c *core.Ctx) {
	c.Describe(
		"TLC enumerates every operation sequence (RecordRequest/RecordResponse/Export/ExportAndReset/Reset over 3 ids, 2 response tags) up to MaxOps; every (state, action) pair of the dumped state graph is executed on a fresh har.Logger (alternately through the Go API and the HTTP export/reset handlers) and the projected log, call result and returned-set must equal a specification successor. Concurrent runs (goroutines calling the same logger) are recorded as call/ret histories and TLC searches for a linearization under HarLogLin. Non-trivial = transitions that export, reset, hit a duplicate id or an unknown id; concurrent runs with >= 2 overlapping calls.",
		"HarLog.tla invariants NoDup, ArrivalOrder, ExportIsLog, XRExact and action properties XROnce, PendingKept checked exhaustively by TLC; binding by edge replay (model->code) and linearizability witness search (code->model).",
		true,
		"entry identity is carried in the request URL, response ownership in a response header; both are set by the harness",
		"concurrency coverage depends on the Go scheduler; the race detector build is used for the concurrent driver")
	maxOps := c.Pick(6, 8)
	cfg := fmt.Sprintf("SPECIFICATION Spec\nCONSTANTS\n  Ids = {\"a\", \"b\", \"c\"}\n  Resps = {1, 2}\n  MaxOps = %d\nINVARIANTS NoDup ArrivalOrder ExportIsLog XRExact TypeOK\nPROPERTIES XROnce PendingKept\n", maxOps)
	os.WriteFile(filepath.Join(c.Work, "HarLog_run.cfg"), []byte(cfg), 0o644)
	dot := filepath.Join(c.Work, "harlog.dot")
	res, err := core.RunTLC(c.Work, core.TLCOpts{Module: "HarLog", Cfg: "HarLog_run.cfg", Workers: 8, Timeout: 20 * time.Minute,
		Args: []string{"-dump", "dot,actionlabels", dot}})
	if err != nil || !res.OK() {
		c.Inconclusive("TLC on HarLog failed: %v %s", err, resTail(res))
		return
	}
	c.Model(res)
	g, err := core.ParseDot(dot)
	if err != nil {
		c.Inconclusive("parse graph: %v", err)
		return
	}
	c.ModelGraph(g)
	toggle := false
	opts := core.ReplayOpts{
		SigPrefix: "seq:",
		New: func() core.Machine {
			toggle = !toggle
			return &machine{l: har.NewLogger(), returned: map[int]bool{}, viaHTTP: toggle}
		},
		Abstract: abstract,
		NonTrivial: func(from core.State, e core.Edge, to core.State) string {
			switch e.Action {
			case "Export", "ExportAndReset", "Reset":
				if from["log"].Len() > 0 {
					return e.Action + "@" + entsString(valEnts(from["log"]))
				}
			case "RecordRequest":
				if !to["last"].Get("ok").B {
					return "dup@" + entsString(valEnts(from["log"]))
				}
			case "RecordResponse":
				return "res@" + entsString(valEnts(from["log"])) + e.Label
			}
			return ""
		},
	}
	core.ReplayGraph(c, g, opts)
	// whole behaviours: exposes implementation state the abstraction merges
	opts.SigPrefix = "beh:"
	core.ReplayPaths(c, g, opts, c.Pick(5, 6), c.Pick(300000, 3500000))
	opts.SigPrefix = "rnd:"
	core.ReplayPaths(c, g, opts, maxOps, c.Pick(20000, 200000))
	if c.Thorough() {
		randomWalks(c)
	}
	concurrent(c)
}

func resTail(r *core.TLCResult) string {
	if r == nil {
		return ""
	}
	return r.Tail(30)
}

// randomWalks: long random operation sequences checked step by step against a Go
// transcription of nothing — the oracle is TLC: the walk is written as a sequential
// call/ret trace and validated with the linearizability spec.
func randomWalks(c *core.Ctx) {
	if !c.Want("walk:") {
		return
	}
	rec := &core.Recorder{}
	runs := 40
	for r := 0; r < runs; r++ {
		rec.Emit("newrun")
		driveOps(rec, har.NewLogger(), rand.New(rand.NewSource(c.Seed*1000+int64(r))), 1, 250, r*100000, nil)
	}
	validate(c, rec, "walk:", runs)
}

var opNames = []string{"req", "req", "res", "res", "export", "xr", "reset"}

// driveOps performs n random operations as goroutine p, logging call/ret events.
func driveOps(rec *core.Recorder, l *har.Logger, rng *rand.Rand, p, n, base int, g *gate) {
	ids := []string{"a", "b", "c", "d"}
	if g != nil {
		ids = ids[:2]
	}
	for i := 0; i < n; i++ {
		op := opNames[rng.Intn(len(opNames))]
		if op == "reset" && rng.Intn(4) != 0 {
			op = "export"
		}
		id := ids[rng.Intn(len(ids))]
		tok := base + p*10000 + i + 1
		r := 1 + rng.Intn(3)
		rec.Emit("call", "p", p, "op", op, "id", id, "n", tok, "r", r)
		ok := true
		out := []ent{}
		switch op {
		case "req":
			if g != nil {
				ok = l.RecordRequest(id, mkGatedReq(tok, g)) == nil
			} else {
				ok = l.RecordRequest(id, mkReq(tok)) == nil
			}
		case "res":
			res := mkRes(id, r)
			if g != nil {
				res.Body = &gatedBody{g: g, data: strings.NewReader("body")}
			}
			l.RecordResponse(id, res)
		case "export":
			if (tok+p)%2 == 0 {
				// through the HTTP export handler: the JSON encoding happens inside martian
				w := httptest.NewRecorder()
				har.NewExportHandler(l).ServeHTTP(w, httptest.NewRequest("GET", "/logs", nil))
				h, err := decodeHAR(w)
				if err != nil {
					panic(err)
				}
				out = project(h)
			} else {
				out = project(l.Export())
			}
		case "xr":
			out = project(l.ExportAndReset())
		case "reset":
			l.Reset()
		}
		rec.Emit("ret", "p", p, "ok", ok, "out", out)
	}
}

func concChild(args []string) int {
	// args: seed procs ops runs outfile gated
	var g *gate
	if len(args) > 5 && args[5] == "1" {
		g = &gate{ch: make(chan struct{})}
	}
	seed, _ := strconv.ParseInt(args[0], 10, 64)
	procs, _ := strconv.Atoi(args[1])
	ops, _ := strconv.Atoi(args[2])
	runs, _ := strconv.Atoi(args[3])
	rec := &core.Recorder{}
	for r := 0; r < runs; r++ {
		rec.Emit("newrun")
		l := har.NewLogger()
		var wg sync.WaitGroup
		start := make(chan struct{})
		for p := 1; p <= procs; p++ {
			wg.Add(1)
			go func(p int) {
				defer wg.Done()
				<-start
				driveOps(rec, l, rand.New(rand.NewSource(seed*7919+int64(r*64+p))), p, ops, r*100000, g)
			}(p)
		}
		close(start)
		wg.Wait()
	}
	if err := rec.WriteFile(args[4]); err != nil {
		fmt.Println(err)
		return 2
	}
	return 0
}

func concurrent(c *core.Ctx) {
	if !c.Want("conc:") {
		return
	}
	bin, err := core.RaceBin(c)
	if err != nil {
		c.Inconclusive("%v", err)
		return
	}
	rounds := c.Pick(2, 8)
	for round := 0; round < rounds; round++ {
		procs := 3 + round%3
		runs := c.Pick(20, 40)
		ops := 10
		out := filepath.Join(c.Work, fmt.Sprintf("conc-%d.ndjson", round))
		log, code, err := core.RunChild(bin, 2*time.Minute, []string{"GORACE=halt_on_error=1 exitcode=66"}, "c17-conc",
			strconv.FormatInt(c.Seed+int64(round), 10), strconv.Itoa(procs), strconv.Itoa(ops), strconv.Itoa(runs), out, strconv.Itoa(round%2))
		if code == 66 || strings.Contains(log, "WARNING: DATA RACE") {
			c.Violation("conc:race", "race detector report while goroutines use one har.Logger:\n"+firstLines(log, 40), map[string]interface{}{"round": round, "report": firstLines(log, 60)})
			continue
		}
		if err != nil || code != 0 {
			c.Inconclusive("concurrent driver: code=%d err=%v %s", code, err, firstLines(log, 20))
			continue
		}
		b, _ := os.ReadFile(out)
		rec := string(b)
		validateFile(c, out, strings.Count(rec, "\n"), "conc:", runs)
	}
}

func firstLines(s string, n int) string {
	ls := strings.Split(s, "\n")
	if len(ls) > n {
		ls = ls[:n]
	}
	return strings.Join(ls, "\n")
}

func validate(c *core.Ctx, rec *core.Recorder, prefix string, runs int) {
	p := filepath.Join(c.Work, strings.TrimSuffix(prefix, ":")+".ndjson")
	rec.WriteFile(p)
	validateFile(c, p, rec.Len(), prefix, runs)
}

func validateFile(c *core.Ctx, path string, events int, prefix string, runs int) {
	v, err := core.ValidateTrace(c.Work, "HarLogLin", "HarLogLin.cfg", path, 10*time.Minute, nil)
	if err != nil || v.Infra {
		c.Inconclusive("trace validation of %s failed to run: %v %s", path, err, resTail(v.Res))
		return
	}
	for i := 0; i < runs; i++ {
		c.Eval(fmt.Sprintf("%s%s#%d", prefix, filepath.Base(path), i))
	}
	c.Trace(runs)
	c.Extra(prefix+"events", events)
	if v.Accepted {
		return
	}
	b, _ := os.ReadFile(path)
	lines := strings.Split(string(b), "\n")
	lo, hi := v.HighWater-12, v.HighWater+2
	if lo < 0 {
		lo = 0
	}
	if hi > len(lines) {
		hi = len(lines)
	}
	what := "no linearization of the recorded history is a behaviour of HarLog"
	if v.Violated != "" {
		what = "invariant " + v.Violated + " violated by the recorded history"
	}
	keep := filepath.Join(core.Root, "replays", fmt.Sprintf("C17-%strace.ndjson", strings.TrimSuffix(prefix, ":")))
	os.MkdirAll(filepath.Dir(keep), 0o755)
	os.WriteFile(keep, b, 0o644)
	c.Violation(prefix+"rejected", fmt.Sprintf("%s; first unmatched event is line %d of %s:\n%s", what, v.HighWater, keep, strings.Join(lines[lo:hi], "\n")),
		map[string]interface{}{"trace": keep, "line": v.HighWater})
}
