// Package c16 decides property C16 (HAR entries describe the exchange and survive a JSON round
// trip) on the same runs as C15; see package c15.
package c16

import (
	"verif/harness/c15"
	"verif/harness/core"
)

func init() { core.Register("C16", func(c *core.Ctx) { c15.Check(c, "C16") }) }
