// Package c10 decides property C10: an HTTP/2 relay session ends - Config.Proxy returns, the
// upstream connection is closed, no goroutine of the session stays behind - whichever side ends it.
package c10

import (
	"encoding/json"
	"fmt"
	"math/rand"
	"os"
	"path/filepath"
	"sort"
	"strings"
	"sync"
	"time"

	"verif/harness/core"
	"verif/harness/h2x"
)

func init() {
	core.Register("C10", run)
	core.RegisterChild("c10-term", termChild)
}

// termChild runs environment scripts one at a time in its own process, so that goroutines and
// socket descriptors can be counted.
func termChild(args []string) int {
	srv, err := h2x.NewServer()
	if err != nil {
		fmt.Fprintln(os.Stderr, err)
		return 2
	}
	return core.ServeWorker(func(req []byte) interface{} {
		var sc h2x.TermScenario
		if err := json.Unmarshal(req, &sc); err != nil {
			return &h2x.TermResult{Err: err.Error()}
		}
		return h2x.RunTerm(&sc, srv)
	})
}

func mcCfg(maxFrames int, stop, abort bool, invs, props string) string {
	b := func(x bool) string {
		if x {
			return "TRUE"
		}
		return "FALSE"
	}
	s := fmt.Sprintf("SPECIFICATION Spec\nCONSTANTS\n  Cap = 1\n  MaxFrames = %d\n  StopOnEnd = %s\n  AbortableSend = %s\nCHECK_DEADLOCK FALSE\n", maxFrames, b(stop), b(abort))
	if invs != "" {
		s += "INVARIANTS " + invs + "\n"
	}
	if props != "" {
		s += "PROPERTIES " + props + "\n"
	}
	return s
}

var endings = map[string]string{
	"close(cc)": "client closes", "close(sc)": "server closes", "wfail(cc)": "write toward the client fails",
	"bad(up)": "protocol error from the client", "bad(down)": "protocol error from the server", "shutdown": "proxy shutdown",
}

func endingOf(sc *h2x.TermScenario) string {
	for _, st := range sc.Steps {
		if e, ok := endings[st.String()]; ok {
			return e
		}
	}
	return "no terminating event"
}

func script(sc *h2x.TermScenario) string {
	var p []string
	for _, st := range sc.Steps {
		x := st.String()
		if st.Gap {
			x = "~" + x
		}
		p = append(p, x)
	}
	return strings.Join(p, " ")
}

// directed: every terminating event in every session state of the property's quantifier.
func directed() []*h2x.TermScenario {
	send := func(d, k string) h2x.TermStep { return h2x.TermStep{Act: "send", D: d, K: k} }
	gap := func(t h2x.TermStep) h2x.TermStep { t.Gap = true; return t }
	states := map[string][]h2x.TermStep{
		"idle":                     nil,
		"mid-stream":               {send("up", "fwd"), send("down", "fwd"), send("up", "data"), send("down", "data")},
		"data-held-down":           {send("up", "fwd"), send("down", "held")},
		"data-held-up":             {send("up", "held"), send("down", "fwd")},
		"channel-full-toward-sc":   {{Act: "stopdraining", C: "sc"}},
		"channel-full-toward-cc":   {{Act: "stopdraining", C: "cc"}},
		"held-then-channel-full":   {send("down", "held"), {Act: "stopdraining", C: "cc"}},
		"both-directions-blocked":  {{Act: "stopdraining", C: "sc"}, {Act: "stopdraining", C: "cc"}},
		"held-down-released-later": {send("down", "held")},
	}
	ends := map[string][]h2x.TermStep{
		"client-close":   {gap(h2x.TermStep{Act: "close", C: "cc"})},
		"server-close":   {gap(h2x.TermStep{Act: "close", C: "sc"})},
		"write-fail-cc":  {gap(h2x.TermStep{Act: "wfail", C: "cc"}), send("down", "fwd")},
		"proto-err-up":   {gap(h2x.TermStep{Act: "bad", D: "up"})},
		"proto-err-down": {gap(h2x.TermStep{Act: "bad", D: "down"})},
		"shutdown":       {gap(h2x.TermStep{Act: "shutdown"})},
	}
	var out []*h2x.TermScenario
	var sn, en []string
	for k := range states {
		sn = append(sn, k)
	}
	for k := range ends {
		en = append(en, k)
	}
	sort.Strings(sn)
	sort.Strings(en)
	for _, s := range sn {
		for _, e := range en {
			steps := append(append([]h2x.TermStep{}, states[s]...), ends[e]...)
			if s == "held-down-released-later" {
				// the ending first, then the client's WINDOW_UPDATE releases what the relay holds for it
				steps = append(steps, gap(send("up", "rel")))
			}
			out = append(out, &h2x.TermScenario{Name: s + "/" + e, Steps: steps})
		}
	}
	return out
}

// fromBehaviour keeps the environment's steps of one simulated behaviour.
func fromBehaviour(steps []core.Step, rng *rand.Rand) *h2x.TermScenario {
	sc := &h2x.TermScenario{}
	paused := map[string]bool{}
	str := func(v core.Val) string { return v.S }
	for _, st := range steps {
		var t h2x.TermStep
		switch st.Action {
		case "EnvSend":
			t = h2x.TermStep{Act: "send", D: str(st.Args[0]), K: str(st.Args[1])}
		case "EnvStopDraining":
			t = h2x.TermStep{Act: "stopdraining", C: str(st.Args[0])}
			paused[t.C] = true
		case "EnvClose":
			t = h2x.TermStep{Act: "close", C: str(st.Args[0])}
		case "EnvWriteFail":
			t = h2x.TermStep{Act: "wfail", C: str(st.Args[0])}
			if t.C == "sc" {
				return nil // cannot be injected: the relay dials the server itself
			}
		case "EnvBad":
			t = h2x.TermStep{Act: "bad", D: str(st.Args[0])}
		case "EnvShutdown":
			t = h2x.TermStep{Act: "shutdown"}
		default:
			continue
		}
		t.Gap = rng.Intn(2) == 0
		sc.Steps = append(sc.Steps, t)
	}
	if endingOf(sc) == "no terminating event" {
		return nil
	}
	return sc
}

type outcome struct {
	sc  *h2x.TermScenario
	res *h2x.TermResult
}

// runAll executes the scenarios on a pool of child processes.
func runAll(c *core.Ctx, scs []*h2x.TermScenario, par int) []outcome {
	outs := make([]outcome, len(scs))
	var wg sync.WaitGroup
	next := make(chan int, len(scs))
	for i := range scs {
		next <- i
	}
	close(next)
	for w := 0; w < par; w++ {
		wg.Add(1)
		go func() {
			defer wg.Done()
			wk := &core.Worker{Name: "c10-term", CallTimeout: 40 * time.Second}
			defer func() { wk.Close() }()
			for i := range next {
				var r h2x.TermResult
				crashed, diag, err := wk.Call(scs[i], &r)
				if err != nil || crashed {
					r.Err = fmt.Sprintf("worker failed: %v %s", err, diag)
				}
				outs[i] = outcome{scs[i], &r}
				if r.Contaminated || r.Err != "" {
					wk.Close() // leftovers must not be counted against the next session
					wk = &core.Worker{Name: "c10-term", CallTimeout: 40 * time.Second}
				}
			}
		}()
	}
	wg.Wait()
	return outs
}

type rejection struct {
	o        outcome
	at       string
	violated string
}

func (r rejection) signature() string {
	e := endingOf(r.o.sc)
	switch {
	case r.violated != "":
		return e + ": invariant " + r.violated
	case strings.Contains(r.at, `"ev":"notreturned"`):
		return e + ": Config.Proxy did not return"
	case strings.Contains(r.at, `"ev":"upstream"`):
		return e + ": the upstream connection was still open after Config.Proxy returned"
	case strings.Contains(r.at, `"ev":"goroutines"`):
		return e + ": goroutines of the session remained after Config.Proxy returned"
	case strings.Contains(r.at, `"ev":"returned"`):
		return e + ": Config.Proxy returned although the model cannot have noticed the end"
	}
	return e + ": unexpected event " + r.at
}

// validate checks all runs in batches; rejected runs are cut out and reported.
func validate(c *core.Ctx, outs []outcome, name string) []rejection {
	var rej []rejection
	const group = 60
	for g0 := 0; g0 < len(outs); g0 += group {
		g1 := g0 + group
		if g1 > len(outs) {
			g1 = len(outs)
		}
		alive := map[int]bool{}
		for i := g0; i < g1; i++ {
			alive[i] = true
		}
		for round := 0; round <= group; round++ {
			var sb strings.Builder
			var owner []int
			for i := g0; i < g1; i++ {
				if !alive[i] {
					continue
				}
				for _, l := range outs[i].res.Events {
					sb.WriteString(l + "\n")
					owner = append(owner, i)
				}
			}
			if len(owner) == 0 {
				break
			}
			path := filepath.Join(c.Work, fmt.Sprintf("%s-%d-%d.ndjson", name, g0, round))
			os.WriteFile(path, []byte(sb.String()), 0o644)
			v, err := core.ValidateTrace(c.Work, "H2SessionTrace", "H2SessionTrace.cfg", path, 10*time.Minute, nil)
			if err != nil {
				c.Inconclusive("trace validation (%s) failed to run: %v", name, err)
				return rej
			}
			if v.Infra {
				c.Inconclusive("trace validation (%s) failed to run: %s", name, v.Res.Tail(25))
				return rej
			}
			if v.Accepted {
				break
			}
			hw := v.HighWater
			if hw < 1 {
				hw = 1
			}
			if hw > len(owner) {
				hw = len(owner)
			}
			i := owner[hw-1]
			alive[i] = false
			pos := 0
			for k := hw - 1; k >= 0 && owner[k] == i; k-- {
				pos++
			}
			rej = append(rej, rejection{o: outs[i], at: outs[i].res.Events[pos-1], violated: v.Violated})
		}
	}
	return rej
}

func run(c *core.Ctx) {
	c.Describe(
		"TLC model-checks H2Session.tla (per direction a reader loop, its ReadFrame goroutine and a writer joined by the readerDone handshake; a bounded output channel that the own reader and the PEER reader push into; two connections that can be open, gone or closed; environment: frames that are forwarded / held by flow control / release held frames, an endpoint that stops draining, client or server close, write failure, protocol error, shutdown) for the liveness ReturnsOnceNoticed and GoroutinesEnd and the invariants UpstreamClosed and WriterOutlivesReader; the deviations StopOnEnd=FALSE and AbortableSend=FALSE (the code before the repair) must violate them. Environment scripts - the product of 9 session states and 6 terminating events, plus scripts taken from simulated behaviours - are executed on live h2.Config.Proxy sessions, one at a time in child processes: held DATA is 20 frames behind a zero window, 'stops draining' pauses the endpoint's reader and the other side writes 16 kB DATA frames until its writes stall, write failure is injected on the connection handed to Proxy. Observed: Proxy returned within the bound or not, end of the server's connection, socket descriptors back to the count before the session, goroutines inside martian/v3/h2 after the caller closed the client connection. TLC validates each run against H2SessionTrace: 'not returned' is accepted only where no relay step is enabled in the model.",
		"H2Session.tla liveness and invariants checked by TLC (two deviation runs must fail); binding: environment scripts -> live relay sessions -> observation traces validated by TLC with the relay's steps silent.",
		false,
		"a write failure toward the server cannot be injected (the relay dials it itself); a server reset stands in for it",
		"the bound for the return is 2 s (quick) / 4 s (thorough); the code under test has no timers, so an ending it can notice is acted on at once",
		"goroutines blocked on the client connection are counted after the harness has closed that connection, as martian's handleLoop does when Proxy returns")
	type mrun struct{ name, cfg, want string }
	mf := c.Pick(2, 3)
	runs := []mrun{
		{"h2s_ref", mcCfg(mf, true, true, "TypeOK UpstreamClosed WriterOutlivesReader", "ReturnsOnceNoticed GoroutinesEnd"), ""},
		{"h2s_dev_nostop_inv", mcCfg(2, false, true, "UpstreamClosed", ""), "UpstreamClosed"},
		{"h2s_dev_nostop_live", mcCfg(2, false, true, "", "ReturnsOnceNoticed"), "ReturnsOnceNoticed"},
		{"h2s_dev_noabort", mcCfg(2, true, false, "", "ReturnsOnceNoticed"), "ReturnsOnceNoticed"},
	}
	for _, r := range runs {
		os.WriteFile(filepath.Join(c.Work, r.name+".cfg"), []byte(r.cfg), 0o644)
		res, err := core.RunTLC(c.Work, core.TLCOpts{Module: "H2Session", Cfg: r.name + ".cfg", Workers: 14, Timeout: 40 * time.Minute, Heap: "12g"})
		if err != nil || res.Infra() {
			c.Inconclusive("TLC on H2Session (%s) failed: %v %s", r.name, err, res.Tail(20))
			return
		}
		if r.want == "" {
			if !res.OK() {
				c.Inconclusive("H2Session reference model violates %s", res.Violated)
				return
			}
			c.Model(res)
		} else if res.Violated != r.want {
			c.Inconclusive("self-test: deviation %s expected to violate %s, TLC reported %q", r.name, r.want, res.Violated)
			return
		} else {
			c.Extra("deviation_"+r.name, res.Violated)
		}
	}
	// scripts from simulated behaviours
	simCfg := "SPECIFICATION Spec\nCONSTANTS\n  Cap = 1\n  MaxFrames = 4\n  StopOnEnd = TRUE\n  AbortableSend = TRUE\nCHECK_DEADLOCK FALSE\n"
	os.WriteFile(filepath.Join(c.Work, "h2s_sim.cfg"), []byte(simCfg), 0o644)
	base := filepath.Join(c.Work, "h2s_sim")
	res, err := core.RunTLC(c.Work, core.TLCOpts{Module: "H2Session", Cfg: "h2s_sim.cfg", Workers: 1, Timeout: 10 * time.Minute,
		Args: []string{"-simulate", fmt.Sprintf("file=%s,num=%d", base, c.Pick(600, 6000)), "-depth", "40", "-seed", fmt.Sprint(c.Seed)}})
	if err != nil || res.Infra() || res.Violated != "" {
		c.Inconclusive("simulation of H2Session failed: %v %s", err, res.Tail(20))
		return
	}
	rng := rand.New(rand.NewSource(c.Seed))
	scs := directed()
	seen := map[string]bool{}
	for _, s := range scs {
		seen[script(s)] = true
	}
	files, _ := filepath.Glob(base + "_*")
	sort.Strings(files)
	maxSim := c.Pick(110, 900)
	nsim := 0
	for _, f := range files {
		st, err := core.ParseSimFile(f)
		os.Remove(f)
		if err != nil || nsim >= maxSim {
			continue
		}
		sc := fromBehaviour(st, rng)
		if sc == nil {
			continue
		}
		k := strings.ReplaceAll(script(sc), "~", "")
		if seen[k] {
			continue
		}
		seen[k] = true
		nsim++
		sc.Name = fmt.Sprintf("sim-%d", nsim)
		scs = append(scs, sc)
	}
	for _, s := range scs {
		s.BoundMs = c.Pick(2000, 4000)
	}
	outs := runAll(c, scs, 12)
	var good []outcome
	for i, o := range outs {
		if o.res.Err != "" {
			c.Inconclusive("session %s (%s): %s", o.sc.Name, script(o.sc), o.res.Err)
			continue
		}
		good = append(good, o)
		c.Eval(script(o.sc))
		if i%25 == 0 {
			c.Sample(map[string]interface{}{"name": o.sc.Name, "script": script(o.sc), "events": o.res.Events, "returned_ms": o.res.ReturnedMs, "notes": o.res.Notes})
		}
	}
	c.Trace(len(good))
	rejs := validate(c, good, "h2s")
	rejected := map[*h2x.TermScenario]bool{}
	for _, r := range rejs {
		rejected[r.o.sc] = true
	}
	// Runs in which Proxy did not return and the model agrees (no relay step is enabled: every
	// goroutine that could observe the event is blocked on an endpoint that does not read) are
	// behaviours of the specification, but not what the property promises.
	for _, o := range good {
		if rejected[o.sc] || len(o.res.Events) == 0 || !strings.Contains(o.res.Events[len(o.res.Events)-1], `"ev":"notreturned"`) {
			continue
		}
		e := endingOf(o.sc)
		if e == "write toward the client fails" {
			continue // no write was attempted after the failure was armed: nothing has failed yet
		}
		c.Violation(e+" while the relay is blocked on an endpoint that does not read: Config.Proxy did not return",
			fmt.Sprintf("script %s (%s): observations %v; notes %v", script(o.sc), o.sc.Name, o.res.Events, o.res.Notes),
			map[string]interface{}{"scenario": o.sc, "events": o.res.Events})
	}
	for _, r := range rejs {
		// run the script again, alone: only a rejection that repeats counts
		again := runAll(c, []*h2x.TermScenario{r.o.sc}, 1)
		confirmed := false
		if again[0].res.Err == "" {
			for _, r2 := range validate(c, again, "h2s-confirm") {
				if r2.signature() == r.signature() {
					confirmed = true
				}
			}
		}
		if !confirmed {
			c.Inconclusive("a rejected session (%s: %s) was accepted when run again", r.signature(), script(r.o.sc))
			continue
		}
		c.Violation(r.signature(), fmt.Sprintf("script %s (%s): first unmatched observation %s; observations %v; notes %v; goroutines left:\n%s",
			script(r.o.sc), r.o.sc.Name, r.at, r.o.res.Events, r.o.res.Notes, clip(r.o.res.Goroutines, 3000)),
			map[string]interface{}{"scenario": r.o.sc, "events": r.o.res.Events})
	}
}

func clip(s string, n int) string {
	if len(s) > n {
		return s[:n] + "..."
	}
	return s
}
