// Package c09 decides property C09 (HTTP/2 flow control: windows obeyed, exact credit, nothing
// stranded) on the same sessions as C08; see package h2x.
package c09

import (
	"verif/harness/core"
	"verif/harness/h2x"
)

func init() { core.Register("C09", func(c *core.Ctx) { h2x.Check(c, "C09") }) }
