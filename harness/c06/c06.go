// Package c06 decides property C06 (forged certificates): behaviours of CertCache.tla
// (requests for host spellings, ticks past the validity window, the no-name case) are
// replayed as real TLS handshakes against a mitm.Config, the presented chain is verified
// independently for the requested host at the time of the handshake; concurrent handshakes
// are validated for linearizability by TLC (CertCacheLin).
package c06

import (
	"crypto/rsa"
	"crypto/tls"
	"crypto/x509"
	"fmt"
	"math/rand"
	"net"
	"os"
	"path/filepath"
	"strings"
	"sync"
	"time"

	"github.com/google/martian/v3/mitm"

	"verif/harness/core"
)

func init() { core.Register("C06", Run) }

const (
	validity = 5 * time.Second
	tickWait = 6500 * time.Millisecond
)

var (
	caOnce sync.Once
	caCert *x509.Certificate
	caKey  *rsa.PrivateKey
	caErr  error
)

func authority() (*x509.Certificate, *rsa.PrivateKey, error) {
	caOnce.Do(func() { caCert, caKey, caErr = mitm.NewAuthority("verif CA", "verif CA org", 24*time.Hour) })
	return caCert, caKey, caErr
}

// spelling is one way a client can name a canonical host.
type spelling struct {
	sni, fallback string
	transparent   bool   // through Config.TLS() (transparent listener): SNI only
	verify        string // the name the presented certificate must be valid for
}

func spellings(host string, v6 bool) []spelling {
	switch host {
	case "d1", "d2":
		name := map[string]string{"d1": "alpha.example", "d2": "beta-2.sub.example.org"}[host]
		mixed := strings.ToUpper(name[:1]) + name[1:len(name)-2] + strings.ToUpper(name[len(name)-2:])
		return []spelling{
			{sni: name, fallback: name + ":443", verify: name},
			{fallback: name + ":443", verify: name},
			{fallback: name, verify: name},
			{sni: mixed, fallback: "unrelated.example:443", verify: name},
			{fallback: mixed + ":8443", verify: name},
			{sni: name, transparent: true, verify: name},
		}
	case "ip":
		if v6 {
			return []spelling{
				{fallback: "[2001:db8::1]:443", verify: "2001:db8::1"},
				{fallback: "2001:db8::1", verify: "2001:db8::1"},
				{fallback: "[2001:DB8::1]:8443", verify: "2001:db8::1"},
			}
		}
		return []spelling{
			{fallback: "192.0.2.5:443", verify: "192.0.2.5"},
			{fallback: "192.0.2.5", verify: "192.0.2.5"},
		}
	}
	// no name at all
	return []spelling{{fallback: ""}, {transparent: true}}
}

type result struct {
	refused bool
	cert    *x509.Certificate
	at      time.Time
	err     error
}

// handshake performs one real TLS handshake against cfg and returns what the client was shown.
func handshake(cfg *mitm.Config, sp spelling) result {
	var scfg *tls.Config
	if sp.transparent {
		scfg = cfg.TLS()
	} else {
		scfg = cfg.TLSForHost(sp.fallback)
	}
	cc, sc := net.Pipe()
	defer cc.Close()
	defer sc.Close()
	done := make(chan error, 1)
	go func() {
		srv := tls.Server(sc, scfg)
		sc.SetDeadline(time.Now().Add(10 * time.Second))
		done <- srv.Handshake()
	}()
	cli := tls.Client(cc, &tls.Config{ServerName: sp.sni, InsecureSkipVerify: true})
	cc.SetDeadline(time.Now().Add(10 * time.Second))
	err := cli.Handshake()
	at := time.Now()
	serr := <-done
	if err != nil || serr != nil {
		if err == nil {
			err = serr
		}
		return result{refused: true, err: err, at: at}
	}
	st := cli.ConnectionState()
	if len(st.PeerCertificates) == 0 {
		return result{refused: true, err: fmt.Errorf("no certificate presented"), at: at}
	}
	return result{cert: st.PeerCertificates[0], at: at}
}

// judge verifies the presented certificate independently.
func judge(r result, sp spelling, ca *x509.Certificate, org string) string {
	if r.cert == nil {
		return "no certificate"
	}
	roots := x509.NewCertPool()
	roots.AddCert(ca)
	if _, err := r.cert.Verify(x509.VerifyOptions{DNSName: sp.verify, Roots: roots, CurrentTime: r.at}); err != nil {
		return fmt.Sprintf("does not verify for %q at handshake time: %v (SANs dns=%v ip=%v, notAfter=%v)", sp.verify, err, r.cert.DNSNames, r.cert.IPAddresses, r.cert.NotAfter)
	}
	if len(r.cert.Subject.Organization) != 1 || r.cert.Subject.Organization[0] != org {
		return fmt.Sprintf("organization %v, want %q", r.cert.Subject.Organization, org)
	}
	return ""
}

type machine struct {
	variant int
	v6      bool
	cfg     *mitm.Config
	org     string
	serials map[string]int
	nget    int
	last    string
	detail  string
}

func newMachine(variant int) (*machine, error) {
	ca, key, err := authority()
	if err != nil {
		return nil, err
	}
	cfg, err := mitm.NewConfig(ca, key)
	if err != nil {
		return nil, err
	}
	m := &machine{variant: variant, v6: variant%2 == 1, cfg: cfg, org: fmt.Sprintf("Verif Org %d", variant), serials: map[string]int{}}
	cfg.SetValidity(validity)
	cfg.SetOrganization(m.org)
	return m, nil
}

func (m *machine) Apply(action string, args []core.Val) error {
	switch action {
	case "Tick":
		time.Sleep(tickWait)
		return nil
	case "Get":
		host := args[0].S
		sps := spellings(host, m.v6)
		sp := sps[(m.variant+m.nget)%len(sps)]
		m.nget++
		r := handshake(m.cfg, sp)
		m.detail = fmt.Sprintf("handshake sni=%q fallback=%q transparent=%v", sp.sni, sp.fallback, sp.transparent)
		if host == "" {
			if r.refused {
				m.last = "refused"
			} else {
				m.last = fmt.Sprintf("BAD: handshake without any host name was answered with a certificate for dns=%v ip=%v", r.cert.DNSNames, r.cert.IPAddresses)
			}
			return nil
		}
		if r.refused {
			m.last = fmt.Sprintf("BAD: handshake failed: %v", r.err)
			return nil
		}
		ca, _, _ := authority()
		if why := judge(r, sp, ca, m.org); why != "" {
			m.last = "BAD: " + why
			return nil
		}
		key := r.cert.SerialNumber.String()
		ord, seen := m.serials[key]
		if !seen {
			ord = len(m.serials) + 1
			m.serials[key] = ord
		}
		m.last = fmt.Sprintf("serial=%d fresh=%v host=%s", ord, !seen, host)
		return nil
	}
	return fmt.Errorf("unknown action %s", action)
}

func (m *machine) Project() string { return m.last }
func (m *machine) Detail() string  { return m.detail }

func abstract(s core.State) string {
	l := s["last"]
	if l.Get("refused").B {
		return "refused"
	}
	if l.Get("serial").Int() == 0 {
		return ""
	}
	return fmt.Sprintf("serial=%d fresh=%v host=%s", l.Get("serial").Int(), l.Get("fresh").B, l.Get("host").S)
}

func cfgText(hosts string, maxTick, maxCerts, maxOps int, requesters string, concurrent bool) string {
	cc := "FALSE"
	inv := "INVARIANTS ReturnedCertMatchesRequester CacheHoldsOwnName\nPROPERTIES ValidAtReturn RefuseWhenNoName\n"
	if concurrent {
		cc = "TRUE"
		inv = "INVARIANTS ReturnedCertMatchesRequester CacheHoldsOwnName ValidWhenChosen\n"
	}
	return fmt.Sprintf("SPECIFICATION Spec\nCONSTANTS\n  Hosts = %s\n  Validity = 1\n  MaxTick = %d\n  MaxCerts = %d\n  MaxOps = %d\n  Requesters = %s\n  Concurrent = %s\n%s",
		hosts, maxTick, maxCerts, maxOps, requesters, cc, inv)
}

// Run is the C06 check.
func Run(c *core.Ctx) {
	c.Describe(
		"TLC explores (a) the fine-grained certificate cache with 2-3 concurrent requesters stepping through lookup / verify / issue / store interleaved with time ticks, and (b) the atomic view: every sequence of <= MaxOps requests over hosts {none, dns1, dns2, ip} and ticks past the validity window. Every atomic behaviour is replayed as real TLS handshakes (client over net.Pipe) against a mitm.Config with 5 s validity, a tick being a 6.5 s sleep; the host is spelled with rotating variants (SNI, fallback authority with/without port, mixed case, IPv4, IPv6 bracketed with port or bare, transparent listener); the presented chain is verified with x509 for the requested host at handshake time, organization and serial identity (reuse vs fresh) are compared with the specification's successor states. Concurrent handshakes (6 goroutines x 3 handshakes per phase, two phases separated by a tick) are validated for linearizability by TLC. Non-trivial = behaviours with at least two requests for the same host or a tick.",
		"CertCache.tla invariants ReturnedCertMatchesRequester, CacheHoldsOwnName, ValidWhenChosen and action properties ValidAtReturn, RefuseWhenNoName checked by TLC; binding: behaviour replay with real handshakes (model->code) and linearizability witness search over concurrent handshakes (code->model).",
		true,
		"reuse is not demanded by the property: a fresh certificate is always an allowed outcome; a reused one must be the one cached for that host and still valid",
		"time is real: validity 5 s, tick 6.5 s; certificate validity is judged at the instant the client handshake returned")
	if _, _, err := authority(); err != nil {
		c.Inconclusive("cannot create CA: %v", err)
		return
	}
	// (a) fine-grained concurrency, model only
	nreq := c.Pick(2, 3)
	reqs := "{1, 2}"
	if nreq == 3 {
		reqs = "{1, 2, 3}"
	}
	os.WriteFile(filepath.Join(c.Work, "cc_conc.cfg"), []byte(cfgText(`{"d1", "d2"}`, 2, c.Pick(4, 5), c.Pick(5, 6), reqs, true)), 0o644)
	r1, err := core.RunTLC(c.Work, core.TLCOpts{Module: "CertCache", Cfg: "cc_conc.cfg", Workers: 8, Timeout: 20 * time.Minute})
	if err != nil || !r1.OK() {
		c.Inconclusive("TLC on CertCache (concurrent) failed: %v %s", err, tail(r1))
		return
	}
	c.Model(r1)
	c.Extra("concurrent_model_states", r1.Distinct)
	// (b) atomic behaviours replayed
	maxOps := c.Pick(4, 5)
	os.WriteFile(filepath.Join(c.Work, "cc_seq.cfg"), []byte(cfgText(`{"", "d1", "d2", "ip"}`, c.Pick(1, 2), maxOps, maxOps, "{}", false)), 0o644)
	dot := filepath.Join(c.Work, "cc.dot")
	r2, err := core.RunTLC(c.Work, core.TLCOpts{Module: "CertCache", Cfg: "cc_seq.cfg", Workers: 8, Timeout: 20 * time.Minute,
		Args: []string{"-dump", "dot,actionlabels", dot}})
	if err != nil || !r2.OK() {
		c.Inconclusive("TLC on CertCache (atomic) failed: %v %s", err, tail(r2))
		return
	}
	c.Model(r2)
	g, err := core.ParseDot(dot)
	if err != nil {
		c.Inconclusive("parse graph: %v", err)
		return
	}
	c.ModelGraph(g)
	n := 0
	var mu sync.Mutex
	opts := core.ReplayOpts{
		SigPrefix: "beh:",
		Parallel:  48,
		NewFor: func(init core.State) core.Machine {
			mu.Lock()
			n++
			v := n + int(c.Seed)
			mu.Unlock()
			m, err := newMachine(v)
			if err != nil {
				panic(err)
			}
			return m
		},
		Abstract: abstract,
		NonTrivial: func(from core.State, e core.Edge, to core.State) string {
			if from["certs"].Len() > 0 {
				return "x"
			}
			return ""
		},
		Classify: func(m core.Machine, got string, wants []string) string {
			if strings.Contains(got, "without any host name") {
				return "no-name: certificate issued for the empty host"
			}
			return ""
		},
	}
	core.ReplayPaths(c, g, opts, maxOps-1, 100000)
	opts.SigPrefix = "rnd:"
	core.ReplayPaths(c, g, opts, maxOps, c.Pick(120, 1500))
	concurrent(c)
}

func tail(r *core.TLCResult) string {
	if r == nil {
		return ""
	}
	return r.Tail(30)
}

// concurrent: 16 goroutines handshake against one configuration; TLC looks for a linearization.
func concurrent(c *core.Ctx) {
	if !c.Want("conc:") {
		return
	}
	ca, key, _ := authority()
	rec := &core.Recorder{}
	runs := c.Pick(4, 16)
	hosts := []string{"d1", "d2", "ip"}
	for r := 0; r < runs; r++ {
		cfg, err := mitm.NewConfig(ca, key)
		if err != nil {
			c.Inconclusive("NewConfig: %v", err)
			return
		}
		cfg.SetValidity(validity)
		cfg.SetOrganization("Conc Org")
		ids := map[string]int{}
		var idmu sync.Mutex
		rec.Emit("newrun")
		for phase := 0; phase < 2; phase++ {
			if phase == 1 {
				time.Sleep(tickWait)
				rec.Emit("tick")
			}
			const G = 6
			// Events are emitted after the phase so that the call record can carry the token of the
			// certificate the call returned; sequence numbers are taken at the real call/ret instants.
			type evt struct {
				seq  int64
				kind string
				p    int
				h    string
				id   int
				ok   bool
			}
			var evs []evt
			var emu sync.Mutex
			var seq int64
			next := func() int64 { emu.Lock(); defer emu.Unlock(); seq++; return seq }
			var wg sync.WaitGroup
			start := make(chan struct{})
			for p := 1; p <= G; p++ {
				wg.Add(1)
				go func(p int) {
					defer wg.Done()
					rng := rand.New(rand.NewSource(c.Seed*1000 + int64(r*100+phase*50+p)))
					<-start
					for i := 0; i < 3; i++ {
						h := hosts[rng.Intn(len(hosts))]
						sps := spellings(h, r%2 == 0)
						sp := sps[rng.Intn(len(sps))]
						cs := next()
						res := handshake(cfg, sp)
						ok := !res.refused && judge(res, sp, ca, "Conc Org") == ""
						id := 0
						if res.cert != nil {
							idmu.Lock()
							k := res.cert.SerialNumber.String()
							if ids[k] == 0 {
								ids[k] = len(ids) + 1
							}
							id = ids[k]
							idmu.Unlock()
						}
						rs := next()
						emu.Lock()
						evs = append(evs, evt{cs, "call", p, h, id, true}, evt{rs, "ret", p, h, id, ok})
						emu.Unlock()
						if !ok {
							why := "handshake refused"
							if !res.refused {
								why = judge(res, sp, ca, "Conc Org")
							}
							c.Violation("conc:bad-certificate", fmt.Sprintf("concurrent handshake for %s (sni=%q fallback=%q): %s %v", h, sp.sni, sp.fallback, why, res.err), nil)
						}
					}
				}(p)
			}
			close(start)
			wg.Wait()
			// emit in real order
			for i := 0; i < len(evs); i++ {
				for j := i + 1; j < len(evs); j++ {
					if evs[j].seq < evs[i].seq {
						evs[i], evs[j] = evs[j], evs[i]
					}
				}
			}
			for _, e := range evs {
				if e.kind == "call" {
					rec.Emit("call", "p", e.p, "h", e.h, "id", e.id)
				} else {
					rec.Emit("ret", "p", e.p, "ok", e.ok)
				}
			}
		}
		c.Eval(fmt.Sprintf("conc:%d", r))
	}
	path := filepath.Join(c.Work, "conc.ndjson")
	rec.WriteFile(path)
	v, err := core.ValidateTrace(c.Work, "CertCacheLin", "CertCacheLin.cfg", path, 10*time.Minute, nil)
	if err != nil || v.Infra {
		c.Inconclusive("trace validation failed to run: %v %s", err, tail(v.Res))
		return
	}
	c.Trace(runs)
	if !v.Accepted {
		lines := strings.Split(string(rec.Bytes()), "\n")
		lo, hi := v.HighWater-10, v.HighWater+1
		if lo < 0 {
			lo = 0
		}
		if hi > len(lines) {
			hi = len(lines)
		}
		c.Violation("conc:rejected", fmt.Sprintf("concurrent handshakes are not linearizable against CertCache (a certificate was neither fresh nor the valid cached one for its host); first unmatched event is line %d:\n%s", v.HighWater, strings.Join(lines[lo:hi], "\n")), nil)
	}
}
