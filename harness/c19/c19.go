// Package c19 decides property C19 (marbl streams): body-read scripts enumerated by
// Marbl.tla are replayed on the real logging wrapper and the stream is parsed back with
// marbl.Reader and an independent parser; streams written by concurrent loggers are
// validated by TLC (MarblTrace) under the race detector; and the frame reader is run on
// every input class of the specification's decision table.
package c19

import (
	"bytes"
	"encoding/binary"
	"encoding/json"
	"errors"
	"fmt"
	"io"
	"math/rand"
	"net/http"
	"os"
	"path/filepath"
	"sort"
	"strconv"
	"strings"
	"sync"
	"time"

	"github.com/google/martian/v3"
	"github.com/google/martian/v3/marbl"
	"github.com/google/martian/v3/proxyutil"

	"verif/harness/core"
)

func init() {
	core.Register("C19", Run)
	core.RegisterChild("c19-conc", concChild)
	core.RegisterChild("c19-reader", readerWorker)
}

// ---- an independent parser of the marbl wire format

type frame struct {
	ID    string
	Type  byte // 1 header, 2 data
	MT    byte
	Name  string
	Value string
	Index uint32
	Term  bool
	Data  []byte
}

func parseStream(b []byte) ([]frame, error) {
	var out []frame
	for len(b) > 0 {
		if len(b) < 10 {
			return out, fmt.Errorf("truncated frame prefix (%d bytes)", len(b))
		}
		f := frame{Type: b[0], MT: b[1], ID: string(b[2:10])}
		b = b[10:]
		switch f.Type {
		case 1:
			if len(b) < 8 {
				return out, errors.New("truncated header lengths")
			}
			nl, vl := int(binary.BigEndian.Uint32(b[:4])), int(binary.BigEndian.Uint32(b[4:8]))
			b = b[8:]
			if len(b) < nl+vl {
				return out, errors.New("truncated header payload")
			}
			f.Name, f.Value = string(b[:nl]), string(b[nl:nl+vl])
			b = b[nl+vl:]
		case 2:
			if len(b) < 9 {
				return out, errors.New("truncated data descriptor")
			}
			f.Index = binary.BigEndian.Uint32(b[:4])
			f.Term = b[4] == 1
			dl := int(binary.BigEndian.Uint32(b[5:9]))
			b = b[9:]
			if len(b) < dl {
				return out, errors.New("truncated data payload")
			}
			f.Data = append([]byte(nil), b[:dl]...)
			b = b[dl:]
		default:
			return out, fmt.Errorf("unknown frame type %d", f.Type)
		}
		out = append(out, f)
	}
	return out, nil
}

// readAll parses with marbl.Reader.
func readAll(b []byte) ([]frame, error) {
	r := marbl.NewReader(bytes.NewReader(b))
	var out []frame
	for {
		fr, err := r.ReadFrame()
		if err == io.EOF {
			return out, nil
		}
		if err != nil {
			return out, err
		}
		switch x := fr.(type) {
		case marbl.Header:
			out = append(out, frame{ID: x.ID, Type: 1, MT: byte(x.MessageType), Name: x.Name, Value: x.Value})
		case marbl.Data:
			out = append(out, frame{ID: x.ID, Type: 2, MT: byte(x.MessageType), Index: x.Index, Term: x.Terminal, Data: x.Data})
		}
	}
}

func sameFrames(a, b []frame) bool {
	if len(a) != len(b) {
		return false
	}
	for i := range a {
		if a[i].ID != b[i].ID || a[i].Type != b[i].Type || a[i].MT != b[i].MT || a[i].Name != b[i].Name || a[i].Value != b[i].Value ||
			a[i].Index != b[i].Index || a[i].Term != b[i].Term || !bytes.Equal(a[i].Data, b[i].Data) {
			return false
		}
	}
	return true
}

// ---- scripted bodies

type stepT struct {
	N int    `json:"n"`
	R string `json:"r"`
}

type scriptBody struct {
	steps  []stepT
	block  int
	pos    int
	off    int
	data   []byte
	closed bool
}

var errBoom = errors.New("scripted read error")

func (b *scriptBody) Read(p []byte) (int, error) {
	if b.pos >= len(b.steps) {
		return 0, io.EOF
	}
	s := b.steps[b.pos]
	b.pos++
	n := s.N * b.block
	if n > len(p) {
		panic("harness: buffer smaller than scripted read")
	}
	copy(p, b.data[b.off:b.off+n])
	b.off += n
	switch s.R {
	case "eof":
		return n, io.EOF
	case "err":
		return n, errBoom
	}
	return n, nil
}
func (b *scriptBody) Close() error { b.closed = true; return nil }

type syncBuf struct {
	mu sync.Mutex
	b  bytes.Buffer
	// writes records the size of every Write call: a frame must arrive in one call
	writes []int
}

func (w *syncBuf) Write(p []byte) (int, error) {
	w.mu.Lock()
	defer w.mu.Unlock()
	w.writes = append(w.writes, len(p))
	return w.b.Write(p)
}
func (w *syncBuf) Bytes() []byte {
	w.mu.Lock()
	defer w.mu.Unlock()
	return append([]byte(nil), w.b.Bytes()...)
}

// message under test
type logged struct {
	id      string
	isReq   bool
	req     *http.Request
	res     *http.Response
	body    *scriptBody
	wrapped io.ReadCloser
	want    map[string][]string // expected header frames name -> values
	rets    []stepT
	bytesOK bool
}

func newLogged(id string, isReq bool, steps []stepT, block int, seed int64) *logged {
	l := &logged{id: id, isReq: isReq, bytesOK: true}
	total := 0
	for _, s := range steps {
		total += s.N * block
	}
	data := make([]byte, total)
	rand.New(rand.NewSource(seed)).Read(data)
	l.body = &scriptBody{steps: steps, block: block, data: data}
	req, _ := http.NewRequest("POST", "http://example.com/p%20q?x=1&y=2", nil)
	req.Header.Add("X-Multi", "one")
	req.Header.Add("X-Multi", "two")
	req.Header.Set("X-Empty", "")
	req.Header.Set("X-Id", id)
	req.RemoteAddr = "10.0.0.1:1234"
	l.req = req
	if isReq {
		req.Body = l.body
		req.ContentLength = -1
		l.want = map[string][]string{":method": {"POST"}, ":scheme": {"http"}, ":authority": {"example.com"}, ":path": {"/p%20q"},
			":query": {"x=1&y=2"}, ":proto": {"HTTP/1.1"}, ":remote": {"10.0.0.1:1234"}, ":timestamp": {"*"},
			"X-Multi": {"one", "two"}, "X-Empty": {""}, "X-Id": {id}, "Host": {"example.com"}, "Content-Length": {"-1"}}
	} else {
		res := proxyutil.NewResponse(200, l.body, req)
		res.Header.Add("X-Multi", "one")
		res.Header.Add("X-Multi", "two")
		res.Header.Set("X-Id", id)
		res.ContentLength = -1
		l.res = res
		l.want = map[string][]string{":proto": {"HTTP/1.1"}, ":status": {"200"}, ":reason": {"200 OK"}, ":timestamp": {"*"},
			"X-Multi": {"one", "two"}, "X-Id": {id}, "Content-Length": {"-1"}}
	}
	return l
}

func (l *logged) log(s *marbl.Stream) (func(), error) {
	_, rm, err := martian.TestContext(l.req, nil, nil)
	if err != nil {
		return nil, err
	}
	if l.isReq {
		err = s.LogRequest(l.id, l.req)
		l.wrapped = l.req.Body
	} else {
		err = s.LogResponse(l.id, l.res)
		l.wrapped = l.res.Body
	}
	return rm, err
}

// read performs the next scripted read through the wrapper.
func (l *logged) read(extra int) {
	st := l.body.steps[l.body.pos]
	buf := make([]byte, st.N*l.body.block+extra)
	off := l.body.off
	n, err := l.wrapped.Read(buf)
	r := "ok"
	switch {
	case err == io.EOF:
		r = "eof"
	case err == errBoom:
		r = "err"
	case err != nil:
		r = "other:" + err.Error()
	}
	an := n / l.body.block
	if n%l.body.block != 0 {
		an = -n
	}
	l.rets = append(l.rets, stepT{N: an, R: r})
	if n < 0 || off+n > len(l.body.data) || !bytes.Equal(buf[:n], l.body.data[off:off+n]) {
		l.bytesOK = false
	}
}

// headerOK checks the header frames of one message against what was logged.
func (l *logged) headerOK(fs []frame) bool {
	got := map[string][]string{}
	for _, f := range fs {
		v := f.Value
		if f.Name == ":timestamp" {
			v = "*"
		}
		got[f.Name] = append(got[f.Name], v)
	}
	if l.isReq && got["Content-Length"] == nil {
		delete(l.want, "Content-Length")
	}
	if !l.isReq && got["Content-Length"] == nil {
		delete(l.want, "Content-Length")
	}
	if len(got) != len(l.want) {
		return false
	}
	for k, vs := range l.want {
		g := append([]string{}, got[k]...)
		w := append([]string{}, vs...)
		sort.Strings(g)
		sort.Strings(w)
		if strings.Join(g, "\x00") != strings.Join(w, "\x00") {
			return false
		}
	}
	return true
}

// barrier forces every frame sent so far onto the writer: the stream writes frame k before
// it accepts frame k+1, so once a second message's frames were accepted all earlier frames
// are written.
func barrier(s *marbl.Stream, n int) {
	req, _ := http.NewRequest("GET", "http://barrier.invalid/", nil)
	_, rm, _ := martian.TestContext(req, nil, nil)
	defer rm()
	s.LogRequest(fmt.Sprintf("BARRIER%02d", n%100)[:9], req)
}

// ---- sequential machine

type machine struct {
	init   core.State
	block  int
	extra  int
	isReq  bool
	w      *syncBuf
	s      *marbl.Stream
	l      *logged
	rm     func()
	nbar   int
	detail string
}

func stepsOf(v core.Val) []stepT {
	var out []stepT
	for _, s := range v.Elems {
		out = append(out, stepT{N: s.Get("n").Int(), R: s.Get("r").S})
	}
	return out
}

func (m *machine) Apply(action string, args []core.Val) error {
	if m.s == nil && action != "ReadFrame" {
		m.w = &syncBuf{}
		m.s = marbl.NewStream(m.w)
		// script for message 1 (the function prints as a tuple when its domain is 1..n)
		sc := m.init["script"]
		var steps []stepT
		if sc.K == core.KSeq {
			steps = stepsOf(sc.Elems[0])
		} else {
			steps = stepsOf(sc.At(1))
		}
		m.l = newLogged("msg00001", m.isReq, steps, m.block, int64(len(steps))*31+int64(m.block))
	}
	switch action {
	case "SendHeader":
		rm, err := m.l.log(m.s)
		if err != nil {
			return err
		}
		m.rm = rm
	case "Read":
		m.l.read(m.extra)
	case "Close":
		m.l.wrapped.Close()
	case "ReadFrame":
		return nil // reader part is handled by readerTable
	default:
		return fmt.Errorf("unknown action %s", action)
	}
	return nil
}

func (m *machine) Project() string {
	if m.init["mode"].S == "reader" {
		return "reader"
	}
	if m.s == nil {
		return "stream=[] rets=[] closed=false"
	}
	m.nbar++
	barrier(m.s, m.nbar)
	raw := m.w.Bytes()
	mine, err1 := parseStream(raw)
	theirs, err2 := readAll(raw)
	m.detail = fmt.Sprintf("%d stream bytes", len(raw))
	if err1 != nil || err2 != nil || !sameFrames(mine, theirs) {
		return fmt.Sprintf("UNPARSEABLE independent=%v reader=%v agree=%v", err1, err2, sameFrames(mine, theirs))
	}
	var hdr []frame
	var parts []string
	hdrDone := false
	for _, f := range mine {
		if strings.HasPrefix(f.ID, "BARRIER") {
			continue
		}
		if f.ID != m.l.id[:8] {
			return "FOREIGN-ID " + f.ID
		}
		wantMT := byte(2)
		if m.isReq {
			wantMT = 1
		}
		if f.MT != wantMT {
			return fmt.Sprintf("WRONG-MESSAGE-TYPE %d", f.MT)
		}
		if f.Type == 1 {
			if hdrDone {
				return "HEADER-AFTER-DATA"
			}
			hdr = append(hdr, f)
			continue
		}
		if !hdrDone {
			hdrDone = true
			if !m.l.headerOK(hdr) {
				return fmt.Sprintf("BAD-HEADERS %v", hdr)
			}
			parts = append(parts, "H")
		}
		n := len(f.Data) / m.block
		if len(f.Data)%m.block != 0 {
			n = -len(f.Data)
		}
		parts = append(parts, fmt.Sprintf("D%d:%v:%d", f.Index, f.Term, n))
	}
	if !hdrDone && len(hdr) > 0 {
		if !m.l.headerOK(hdr) {
			return fmt.Sprintf("BAD-HEADERS %v", hdr)
		}
		parts = append(parts, "H")
	}
	// data bytes = what the consumer read
	var cat []byte
	for _, f := range mine {
		if f.Type == 2 && !strings.HasPrefix(f.ID, "BARRIER") {
			cat = append(cat, f.Data...)
		}
	}
	if !bytes.Equal(cat, m.l.body.data[:m.l.body.off]) || !m.l.bytesOK {
		return "BODY-BYTES-DIFFER"
	}
	for _, n := range m.w.writes {
		_ = n
	}
	var rets []string
	for _, r := range m.l.rets {
		rets = append(rets, fmt.Sprintf("%d:%s", r.N, r.R))
	}
	return fmt.Sprintf("stream=%v rets=%v closed=%v", parts, rets, m.l.body.closed)
}

func (m *machine) Detail() string { return m.detail }

func abstract(s core.State) string {
	if s["mode"].S == "reader" {
		return "reader"
	}
	var parts []string
	nh := 0
	for _, f := range s["stream"].Elems {
		if f.Get("k").S == "hdr" {
			nh++
			if nh == 1 {
				parts = append(parts, "H")
			}
			continue
		}
		parts = append(parts, fmt.Sprintf("D%d:%v:%d", f.Get("idx").Int(), f.Get("term").B, f.Get("n").Int()))
	}
	var rets []string
	r := s["rets"]
	var rs core.Val
	if r.K == core.KSeq {
		rs = r.Elems[0]
	} else {
		rs = r.At(1)
	}
	for _, x := range rs.Elems {
		rets = append(rets, fmt.Sprintf("%d:%s", x.Get("n").Int(), x.Get("r").S))
	}
	cl := s["closed"]
	closed := false
	if cl.K == core.KSeq {
		closed = cl.Elems[0].B
	} else {
		closed = cl.At(1).B
	}
	return fmt.Sprintf("stream=%v rets=%v closed=%v", parts, rets, closed)
}

// ---- reader decision table

type readerJob struct {
	Type, Len, Avail string
	Variant          int
}
type readerResult struct {
	Outcome string
	Detail  string
}

func buildInput(j readerJob) (in []byte, want frame) {
	id := "reader01"
	var ft byte
	switch j.Type {
	case "hdr":
		ft = 1
	case "data":
		ft = 2
	default:
		ft = []byte{0, 3, 7, 255}[j.Variant%4]
	}
	prefix := append([]byte{ft, 1}, id...)
	var lens, payload []byte
	u32 := func(x uint32) []byte { b := make([]byte, 4); binary.BigEndian.PutUint32(b, x); return b }
	switch j.Type {
	case "data":
		var dl uint32
		switch j.Len {
		case "zero":
			dl = 0
		case "small":
			dl = 4
			payload = []byte("DATA")
		case "wrap":
			dl = 0xFFFFFFFF
			payload = bytes.Repeat([]byte{1}, 100)
		case "huge":
			dl = 0x7FFFFFF0
			payload = bytes.Repeat([]byte{1}, 100)
		}
		lens = append(append(u32(7), 1), u32(dl)...)
		want = frame{ID: id, Type: 2, MT: 1, Index: 7, Term: true, Data: payload}
	default: // hdr and unknown share the header layout
		var nl, vl uint32
		switch j.Len {
		case "zero":
		case "small":
			nl, vl = 3, 5
			payload = []byte("keyvalue")
		case "wrap":
			pairs := [][2]uint32{{0xFFFFFFFF, 2}, {0x80000000, 0x80000000}, {0xFFFFFFFE, 0xFFFFFFFF}, {3, 0xFFFFFFFE}}
			nl, vl = pairs[j.Variant%4][0], pairs[j.Variant%4][1]
			payload = bytes.Repeat([]byte{'x'}, 100)
		case "huge":
			nl, vl = 0x7FFFFFF0, 16
			payload = bytes.Repeat([]byte{'x'}, 100)
		}
		lens = append(u32(nl), u32(vl)...)
		want = frame{ID: id, Type: 1, MT: 1, Name: "key", Value: "value"}
		if j.Len == "zero" {
			want.Name, want.Value = "", ""
		}
	}
	switch j.Avail {
	case "none":
	case "midprefix":
		in = prefix[:5]
	case "prefix":
		in = prefix
	case "midlens":
		in = append(append([]byte{}, prefix...), lens[:4]...)
	case "lens":
		in = append(append([]byte{}, prefix...), lens...)
	case "midpayload":
		in = append(append(append([]byte{}, prefix...), lens...), payload[:len(payload)/2]...)
	case "all":
		in = append(append(append([]byte{}, prefix...), lens...), payload...)
	case "more":
		in = append(append(append(append([]byte{}, prefix...), lens...), payload...), []byte{1, 1, 'n', 'e', 'x', 't'}...)
	}
	return in, want
}

func readerWorker(args []string) int {
	return core.ServeWorker(func(req []byte) interface{} {
		var j readerJob
		json.Unmarshal(req, &j)
		in, want := buildInput(j)
		res := readerResult{}
		func() {
			defer func() {
				if r := recover(); r != nil {
					res.Outcome = "PANIC"
					res.Detail = fmt.Sprintf("input % x: panic: %v", clipBytes(in, 40), r)
				}
			}()
			fr, err := marbl.NewReader(bytes.NewReader(in)).ReadFrame()
			if err != nil {
				res.Outcome = "error"
				return
			}
			res.Outcome = "frame"
			var got frame
			switch x := fr.(type) {
			case marbl.Header:
				got = frame{ID: x.ID, Type: 1, MT: byte(x.MessageType), Name: x.Name, Value: x.Value}
			case marbl.Data:
				got = frame{ID: x.ID, Type: 2, MT: byte(x.MessageType), Index: x.Index, Term: x.Terminal, Data: x.Data}
			}
			if !sameFrames([]frame{got}, []frame{want}) {
				res.Outcome = "WRONG-FRAME"
				res.Detail = fmt.Sprintf("input % x: got %+v want %+v", clipBytes(in, 40), got, want)
			}
		}()
		return res
	})
}

func clipBytes(b []byte, n int) []byte {
	if len(b) > n {
		return b[:n]
	}
	return b
}

// Run is the C19 check.
func Run(c *core.Ctx) {
	c.Describe(
		"TLC enumerates every body script of <= MaxSteps reads over abstract sizes {0,1,2} x results {ok, eof (with or without final bytes), error}, every prefix of it followed or not by an early Close, and the reader's input classes (frame type x length class incl. 32-bit wrap and huge x truncation point). Scripts are replayed through Stream.LogRequest/LogResponse with block sizes 1/1000/40000 bytes and slack read buffers; after each step the stream is flushed by a barrier message and parsed by marbl.Reader and an independent parser, which must agree; header frames are compared with the logged pseudo-headers and headers. Concurrent loggers (4 messages per run, random scripts) write one stream that TLC validates against Marbl (MarblTrace), under -race. Reader inputs run in a worker process. Non-trivial = scripts with at least one read, reader inputs beyond the frame prefix.",
		"Marbl.tla invariants FramesParseBack, ConcatEqualsRead, TerminalIffEOF, WrapperTransparent, ReaderNeverPanics checked by TLC; binding: graph replay (model->code), trace validation of concurrent streams (code->model), reader decision table executed in a child process.",
		true,
		"frames reach the writer asynchronously; a barrier message logged afterwards guarantees earlier frames were written before the stream is parsed",
		"random byte strings are not covered beyond the enumerated input classes and their variants")
	cfg := fmt.Sprintf("SPECIFICATION Spec\nCONSTANTS\n  Msgs = {1}\n  MaxSteps = %d\n  Sizes = {0, 1, 2}\n  NHdr = 1\nINVARIANTS FramesParseBack ConcatEqualsRead TerminalIffEOF WrapperTransparent ReaderNeverPanics\n", c.Pick(3, 4))
	os.WriteFile(filepath.Join(c.Work, "Marbl_run.cfg"), []byte(cfg), 0o644)
	dot := filepath.Join(c.Work, "marbl.dot")
	res, err := core.RunTLC(c.Work, core.TLCOpts{Module: "Marbl", Cfg: "Marbl_run.cfg", Workers: 8, Timeout: 20 * time.Minute,
		Args: []string{"-dump", "dot,actionlabels", dot}})
	if err != nil || !res.OK() {
		c.Inconclusive("TLC on Marbl failed: %v %s", err, tail(res))
		return
	}
	c.Model(res)
	g, err := core.ParseDot(dot)
	if err != nil {
		c.Inconclusive("parse graph: %v", err)
		return
	}
	c.ModelGraph(g)
	blocks := []int{1, 1000, 40000}
	for vi, block := range blocks {
		for _, isReq := range []bool{true, false} {
			extra := []int{0, 1, 4096}[(vi+int(c.Seed))%3]
			opts := core.ReplayOpts{
				SigPrefix: fmt.Sprintf("log/%d/%v:", block, isReq),
				NewFor: func(init core.State) core.Machine {
					return &machine{init: init, block: block, extra: extra, isReq: isReq}
				},
				Abstract: abstract,
				Skip:     func(init core.State) bool { return init["mode"].S != "log" },
				NonTrivial: func(from core.State, e core.Edge, to core.State) string {
					if e.Action == "Read" || e.Action == "Close" {
						return fmt.Sprintf("%v/%v/%s", from["script"], from["step"], e.Label)
					}
					return ""
				},
			}
			core.ReplayGraph(c, g, opts)
		}
	}
	readerTable(c, g)
	concurrent(c)
}

func readerTable(c *core.Ctx, g *core.Graph) {
	if !c.Want("reader:") {
		return
	}
	w := &core.Worker{Name: "c19-reader", CallTimeout: 60 * time.Second}
	defer w.Close()
	for _, e := range g.Edges {
		if e.Action != "ReadFrame" {
			continue
		}
		in := g.States[e.From]["input"]
		want := g.States[e.To]["outcome"].S
		for v := 0; v < c.Pick(4, 8); v++ {
			j := readerJob{Type: in.Get("type").S, Len: in.Get("len").S, Avail: in.Get("avail").S, Variant: v}
			var r readerResult
			crashed, diag, err := w.Call(j, &r)
			if err != nil {
				c.Inconclusive("reader worker: %v", err)
				return
			}
			if crashed {
				r = readerResult{Outcome: "CRASH", Detail: diag}
			}
			nt := ""
			if j.Avail != "none" && j.Avail != "midprefix" {
				nt = fmt.Sprintf("reader:%+v", j)
			}
			c.Eval(nt)
			if r.Outcome != want {
				sig := fmt.Sprintf("reader:%s/%s/%s", j.Type, j.Len, j.Avail)
				c.Violation(sig, fmt.Sprintf("frame reader on input class %+v: %s (specification: %s) %s", j, r.Outcome, want, r.Detail), j)
			}
		}
	}
}

func tail(r *core.TLCResult) string {
	if r == nil {
		return ""
	}
	return r.Tail(30)
}

// ---- concurrent loggers

func concChild(args []string) int {
	// args: seed runs outfile
	seed, _ := strconv.ParseInt(args[0], 10, 64)
	runs, _ := strconv.Atoi(args[1])
	rec := &core.Recorder{}
	rng := rand.New(rand.NewSource(seed))
	for r := 0; r < runs; r++ {
		w := &syncBuf{}
		s := marbl.NewStream(w)
		block := []int{1, 50, 3000}[r%3]
		const K = 4
		msgs := make([]*logged, K)
		scripts := make([][]stepT, K)
		nhdr := make([]int, K)
		for m := 0; m < K; m++ {
			var steps []stepT
			for i := rng.Intn(5); i > 0; i-- {
				steps = append(steps, stepT{N: rng.Intn(4), R: "ok"})
			}
			switch rng.Intn(4) {
			case 0:
				steps = append(steps, stepT{N: rng.Intn(4), R: "eof"})
			case 1:
				steps = append(steps, stepT{N: 0, R: "eof"})
			case 2:
				steps = append(steps, stepT{N: rng.Intn(3), R: "err"})
			}
			if steps == nil {
				steps = []stepT{}
			}
			scripts[m] = steps
			msgs[m] = newLogged(fmt.Sprintf("m%07d", r*10+m+1), m%2 == 0, steps, block, seed+int64(r*10+m))
		}
		var wg sync.WaitGroup
		start := make(chan struct{})
		for m := 0; m < K; m++ {
			wg.Add(1)
			go func(m int) {
				defer wg.Done()
				<-start
				rm, err := msgs[m].log(s)
				if err != nil {
					panic(err)
				}
				defer rm()
				for msgs[m].body.pos < len(msgs[m].body.steps) {
					msgs[m].read(m)
				}
				msgs[m].wrapped.Close()
			}(m)
		}
		close(start)
		wg.Wait()
		barrier(s, r)
		s.Close()
		raw := w.Bytes()
		mine, err1 := parseStream(raw)
		theirs, err2 := readAll(raw)
		agree := err1 == nil && err2 == nil && sameFrames(mine, theirs)
		byID := map[string]int{}
		for m := 0; m < K; m++ {
			byID[msgs[m].id[:8]] = m
		}
		// header frames per message
		hdrFrames := make([][]frame, K)
		for _, f := range mine {
			if m, ok := byID[f.ID]; ok && f.Type == 1 {
				hdrFrames[m] = append(hdrFrames[m], f)
			}
		}
		for m := 0; m < K; m++ {
			nhdr[m] = len(hdrFrames[m])
		}
		rec.Emit("newrun", "scripts", scripts, "nhdr", nhdr)
		offs := make([]int, K)
		for _, f := range mine {
			m, ok := byID[f.ID]
			if !ok {
				if strings.HasPrefix(f.ID, "BARRIER") {
					continue
				}
				rec.Emit("frame", "m", 0, "k", "foreign", "idx", 0, "term", false, "n", 0, "ok", false)
				continue
			}
			if f.Type == 1 {
				rec.Emit("frame", "m", m+1, "k", "hdr", "idx", 0, "term", false, "n", 0, "ok", agree)
				continue
			}
			ok2 := agree && len(f.Data)%block == 0 && offs[m]+len(f.Data) <= len(msgs[m].body.data) &&
				bytes.Equal(f.Data, msgs[m].body.data[offs[m]:offs[m]+len(f.Data)])
			offs[m] += len(f.Data)
			rec.Emit("frame", "m", m+1, "k", "data", "idx", int(f.Index), "term", f.Term, "n", len(f.Data)/block, "ok", ok2)
		}
		if !agree {
			rec.Emit("frame", "m", 0, "k", "unparseable", "idx", 0, "term", false, "n", 0, "ok", false)
		}
		for m := 0; m < K; m++ {
			rets := msgs[m].rets
			if rets == nil {
				rets = []stepT{}
			}
			hok := msgs[m].headerOK(hdrFrames[m]) && msgs[m].bytesOK
			if !hok {
				rec.Emit("frame", "m", m+1, "k", "badheaders", "idx", 0, "term", false, "n", 0, "ok", false)
			}
			rec.Emit("done", "m", m+1, "rets", rets, "reads", len(rets))
		}
	}
	if err := rec.WriteFile(args[2]); err != nil {
		fmt.Println(err)
		return 2
	}
	return 0
}

func concurrent(c *core.Ctx) {
	if !c.Want("conc:") {
		return
	}
	bin, err := core.RaceBin(c)
	if err != nil {
		c.Inconclusive("%v", err)
		return
	}
	rounds := c.Pick(2, 8)
	for round := 0; round < rounds; round++ {
		runs := c.Pick(60, 150)
		out := filepath.Join(c.Work, fmt.Sprintf("conc-%d.ndjson", round))
		log, code, err := core.RunChild(bin, 3*time.Minute, []string{"GORACE=halt_on_error=1 exitcode=66"}, "c19-conc",
			strconv.FormatInt(c.Seed*100+int64(round), 10), strconv.Itoa(runs), out)
		if code == 66 || strings.Contains(log, "WARNING: DATA RACE") {
			c.Violation("conc:race", "race detector report while messages are logged concurrently to one marbl stream:\n"+firstLines(log, 40), map[string]interface{}{"round": round})
			continue
		}
		if err != nil || code != 0 {
			c.Inconclusive("concurrent driver: code=%d err=%v %s", code, err, firstLines(log, 20))
			continue
		}
		v, err := core.ValidateTrace(c.Work, "MarblTrace", "MarblTrace.cfg", out, 10*time.Minute, nil)
		if err != nil || v.Infra {
			c.Inconclusive("trace validation failed to run: %v %s", err, tail(v.Res))
			continue
		}
		for i := 0; i < runs; i++ {
			c.Eval(fmt.Sprintf("conc:%d#%d", round, i))
		}
		c.Trace(runs)
		if !v.Accepted {
			b, _ := os.ReadFile(out)
			lines := strings.Split(string(b), "\n")
			lo, hi := v.HighWater-8, v.HighWater+1
			if lo < 0 {
				lo = 0
			}
			if hi > len(lines) {
				hi = len(lines)
			}
			what := "the parsed stream is not a behaviour of Marbl"
			if v.Violated != "" {
				what = "invariant " + v.Violated + " violated by the parsed stream"
			}
			c.Violation("conc:rejected", fmt.Sprintf("%s; first unmatched event is line %d:\n%s", what, v.HighWater, strings.Join(lines[lo:hi], "\n")), map[string]interface{}{"line": v.HighWater})
		}
	}
}

func firstLines(s string, n int) string {
	ls := strings.Split(s, "\n")
	if len(ls) > n {
		ls = ls[:n]
	}
	return strings.Join(ls, "\n")
}
