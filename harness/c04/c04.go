// Package c04 decides property C04 (blind CONNECT tunnels): behaviours of Tunnel.tla (chunk
// schedules in both directions, early data, which end half-closes when) are run between a
// raw TCP client and a raw TCP target through a proxy (direct and through a second martian
// as downstream proxy); the byte streams are compared against what was sent and the recorded
// traces are validated by TLC against TunnelTrace, including prompt end-of-stream.
package c04

import (
	"bufio"
	"bytes"
	"fmt"
	"io"
	"math/rand"
	"net"
	"net/url"
	"os"
	"path/filepath"
	"sort"
	"strings"
	"sync"
	"time"

	"github.com/google/martian/v3"

	"verif/harness/core"
	"verif/harness/ep"
)

func init() { core.Register("C04", Run) }

const limit = 3 * time.Second // "promptly": two orders of magnitude above the healthy latency

type op struct {
	kind string // csend | tsend | cclose | tclose | wait
	size int
}

type scenario struct {
	ops        []op
	early      bool
	downstream bool
	key        string
}

func stream(seed int64, n int) []byte {
	b := make([]byte, n)
	rand.New(rand.NewSource(seed)).Read(b)
	return b
}

// end is one endpoint of the tunnel: it writes scripted chunks and reads/compares what arrives.
type end struct {
	name   string // c | t
	conn   net.Conn
	rec    *core.Recorder
	mu     sync.Mutex
	want   []byte // what the peer has been asked to send so far
	bounds []int  // cumulative chunk boundaries of want
	got    int
	gotK   int
	ok     bool
	eof    bool
	done   chan struct{}
}

func (e *end) expect(chunk []byte) {
	e.mu.Lock()
	defer e.mu.Unlock()
	e.want = append(e.want, chunk...)
	e.bounds = append(e.bounds, len(e.want))
}

func (e *end) reader(r io.Reader) {
	defer close(e.done)
	buf := make([]byte, 64<<10)
	for {
		n, err := r.Read(buf)
		if n > 0 {
			e.mu.Lock()
			if e.got+n > len(e.want) || !bytes.Equal(buf[:n], e.want[e.got:e.got+n]) {
				e.ok = false
			}
			e.got += n
			for e.gotK < len(e.bounds) && e.got >= e.bounds[e.gotK] {
				e.gotK++
				e.rec.Emit(e.name+"recv", "k", e.gotK, "ok", e.ok)
			}
			e.mu.Unlock()
		}
		if err != nil {
			if err == io.EOF {
				e.mu.Lock()
				e.eof = true
				e.mu.Unlock()
				e.rec.Emit(e.name + "eof")
			}
			return
		}
	}
}

func (e *end) received() (int, bool) {
	e.mu.Lock()
	defer e.mu.Unlock()
	return e.gotK, e.eof
}

func waitFor(cond func() bool, d time.Duration) bool {
	deadline := time.Now().Add(d)
	for !cond() {
		if time.Now().After(deadline) {
			return false
		}
		time.Sleep(500 * time.Microsecond)
	}
	return true
}

// run executes one scenario and appends its events to rec.
func run(sc *scenario, proxyAddr string, tl net.Listener, rec *core.Recorder, seed int64) (notes []string, err error) {
	rec.Emit("newtunnel", "early", sc.early, "downstream", sc.downstream)
	conn, err := net.DialTimeout("tcp", proxyAddr, 3*time.Second)
	if err != nil {
		return nil, err
	}
	defer conn.Close()
	accepted := make(chan net.Conn, 1)
	go func() {
		c, err := tl.Accept()
		if err == nil {
			accepted <- c
		}
	}()
	cend := &end{name: "c", conn: conn, rec: rec, ok: true, done: make(chan struct{})}
	tend := &end{name: "t", rec: rec, ok: true, done: make(chan struct{})}
	head := fmt.Sprintf("CONNECT %s HTTP/1.1\r\nHost: %s\r\n\r\n", tl.Addr(), tl.Addr())
	upK, downK := 0, 0
	ops := sc.ops
	if sc.early && len(ops) > 0 && ops[0].kind == "csend" {
		upK++
		chunk := stream(seed*100+int64(upK), ops[0].size)
		tend.expect(chunk)
		rec.Emit("csend", "k", upK)
		conn.Write(append([]byte(head), chunk...))
		ops = ops[1:]
	} else {
		conn.Write([]byte(head))
	}
	br := bufio.NewReader(conn)
	conn.SetReadDeadline(time.Now().Add(5 * time.Second))
	m, perr, eof := ep.ReadResponse(br, func() string { return "CONNECT" })
	conn.SetReadDeadline(time.Time{})
	if eof || perr != nil || m.Status() != 200 {
		rec.Emit("stall", "what", "CONNECT not answered with 200")
		return []string{fmt.Sprintf("CONNECT failed: eof=%v err=%v msg=%v", eof, perr, m)}, nil
	}
	var tconn net.Conn
	select {
	case tconn = <-accepted:
	case <-time.After(3 * time.Second):
		rec.Emit("stall", "what", "target never dialled")
		return []string{"target was not dialled"}, nil
	}
	defer tconn.Close()
	tend.conn = tconn
	go cend.reader(br)
	go tend.reader(tconn)
	// one writer per direction keeps the chunks of that direction in order while the two
	// directions run concurrently
	upQ, downQ := make(chan []byte, 64), make(chan []byte, 64)
	defer close(upQ)
	defer close(downQ)
	go func() {
		for b := range upQ {
			conn.Write(b)
		}
	}()
	go func() {
		for b := range downQ {
			tconn.Write(b)
		}
	}()
	closeW := func(c net.Conn) {
		if tc, ok := c.(*net.TCPConn); ok {
			tc.CloseWrite()
		}
	}
	cClosed, tClosed := false, false
	for _, o := range ops {
		switch o.kind {
		case "csend":
			upK++
			chunk := stream(seed*100+int64(upK), o.size)
			tend.expect(chunk)
			rec.Emit("csend", "k", upK)
			upQ <- chunk // written concurrently with the other direction
		case "tsend":
			downK++
			chunk := stream(seed*100+50+int64(downK), o.size)
			cend.expect(chunk)
			rec.Emit("tsend", "k", downK)
			downQ <- chunk
		case "wait":
			// the senders are idle now: everything sent so far must arrive
			u, d := upK, downK
			if !waitFor(func() bool { a, _ := tend.received(); b, _ := cend.received(); return a >= u && b >= d }, limit+time.Duration(o.size)*time.Millisecond) {
				a, _ := tend.received()
				b, _ := cend.received()
				rec.Emit("stall", "what", fmt.Sprintf("sent up %d down %d, delivered up %d down %d", u, d, a, b))
				return []string{"delivery stalled"}, nil
			}
		case "cclose":
			u := upK
			waitFor(func() bool { a, _ := tend.received(); return a >= u }, limit) // writes are asynchronous: let them finish first
			rec.Emit("cclosew")
			closeW(conn)
			cClosed = true
			if !waitFor(func() bool { _, e := tend.received(); return e }, limit) {
				rec.Emit("stall", "what", "target saw no end-of-stream after the client finished")
				return []string{"no EOF at target"}, nil
			}
		case "tclose":
			d := downK
			waitFor(func() bool { b, _ := cend.received(); return b >= d }, limit)
			rec.Emit("tclosew")
			closeW(tconn)
			tClosed = true
			if !waitFor(func() bool { _, e := cend.received(); return e }, limit) {
				rec.Emit("stall", "what", "client saw no end-of-stream after the target finished")
				return []string{"no EOF at client"}, nil
			}
		}
	}
	u, d := upK, downK
	if !waitFor(func() bool { a, _ := tend.received(); b, _ := cend.received(); return a >= u && b >= d }, limit+2*time.Second) {
		rec.Emit("stall", "what", "final delivery")
		return []string{"final delivery stalled"}, nil
	}
	_ = cClosed
	_ = tClosed
	rec.Emit("end")
	return nil, nil
}

func sizeFor(rng *rand.Rand, thorough bool) int {
	sizes := []int{1, 100, 4095, 4096, 4097, 65536, 300000}
	if thorough {
		sizes = append(sizes, 1<<20, 3<<20+7)
	}
	return sizes[rng.Intn(len(sizes))]
}

// scenariosFrom turns simulated behaviours of Tunnel.tla into schedules.
func scenariosFrom(behs [][]core.Step, rng *rand.Rand, thorough bool, perKey int) []*scenario {
	seen := map[string]int{}
	var out []*scenario
	for _, b := range behs {
		sc := &scenario{}
		var key []string
		upInFlight, downInFlight := 0, 0
		for _, st := range b {
			switch st.Action {
			case "ClientSend":
				if !st.State["est"].B && st.State["upSent"].Int() == 1 {
					sc.early = true
				}
				sc.ops = append(sc.ops, op{"csend", sizeFor(rng, thorough)})
				upInFlight++
				key = append(key, "u")
			case "TargetSend":
				sc.ops = append(sc.ops, op{"tsend", sizeFor(rng, thorough)})
				downInFlight++
				key = append(key, "d")
			case "TargetRecv", "ClientRecv":
				// the model delivered before the next send: make the real senders pause too
				if st.Action == "TargetRecv" && upInFlight > 0 && st.State["p2t"].Len() == 0 && st.State["c2p"].Len() == 0 {
					sc.ops = append(sc.ops, op{"wait", 0})
					upInFlight = 0
					key = append(key, "w")
				}
				if st.Action == "ClientRecv" && downInFlight > 0 && st.State["p2c"].Len() == 0 && st.State["t2p"].Len() == 0 {
					sc.ops = append(sc.ops, op{"wait", 0})
					downInFlight = 0
					key = append(key, "w")
				}
			case "ClientCloseW":
				sc.ops = append(sc.ops, op{"cclose", 0})
				key = append(key, "C")
			case "TargetCloseW":
				sc.ops = append(sc.ops, op{"tclose", 0})
				key = append(key, "T")
			}
		}
		if sc.early {
			key = append([]string{"E"}, key...)
		}
		sc.key = strings.Join(key, "")
		if len(sc.ops) == 0 || seen[sc.key] >= perKey {
			continue
		}
		seen[sc.key]++
		sc.downstream = seen[sc.key]%2 == 0
		out = append(out, sc)
	}
	return out
}

// Run is the C04 check.
func Run(c *core.Ctx) {
	c.Describe(
		"TLC model-checks Tunnel.tla (two copy directions over four explicit socket queues, early data, half-closes) for safety (in-order exactly-once delivery, end-of-stream only after the data) and liveness (a finished sender's end-of-stream reaches the other end without waiting for the opposite direction; release at the end); the NoHalfClose deviation must violate the liveness properties. Simulated behaviours become schedules of chunk writes (1 B .. 300 KB quick, several MiB thorough) issued concurrently in both directions, with pauses where the model delivered before the next send, early data coalesced with the CONNECT head, and half-closes by either end in either order; they run through a direct proxy and through a proxy chained to a second martian as downstream proxy. Raw TCP endpoints compare every byte against the generated streams; TLC validates the traces against TunnelTrace (stall events for a delivery or end-of-stream later than 3 s are never acceptable). An unreachable target must yield 502 with a Warning header. Non-trivial = schedules with data in both directions, early data or a half-close.",
		"Tunnel.tla invariants UpFaithful, DownFaithful, EOFAfterData and properties UpEOFPropagates, DownEOFPropagates, Delivered, ReleasedAtEnd checked by TLC (deviation NoHalfClose fails); binding: behaviours -> live tunnels -> traces validated by TLC.",
		false,
		"each direction has one writer goroutine (chunks of a direction are written in order, the two directions concurrently)",
		"prompt = within 3 s (healthy latency is below 50 ms)")
	for _, dev := range []bool{false, true} {
		cfg := fmt.Sprintf("SPECIFICATION Spec\nCONSTANTS\n  MaxUp = %d\n  MaxDown = %d\n  NoHalfClose = %v\nINVARIANTS UpFaithful DownFaithful EOFAfterData\nPROPERTIES UpEOFPropagates DownEOFPropagates Delivered ReleasedAtEnd\n",
			c.Pick(3, 4), c.Pick(3, 4), map[bool]string{true: "TRUE", false: "FALSE"}[dev])
		name := fmt.Sprintf("tunnel_%v.cfg", dev)
		os.WriteFile(filepath.Join(c.Work, name), []byte(cfg), 0o644)
		res, err := core.RunTLC(c.Work, core.TLCOpts{Module: "Tunnel", Cfg: name, Workers: 8, Timeout: 15 * time.Minute})
		if err != nil || res.Infra() {
			c.Inconclusive("TLC on Tunnel failed: %v %s", err, res.Tail(20))
			return
		}
		if !dev {
			if !res.OK() {
				c.Inconclusive("Tunnel reference model violates %s: %s", res.Violated, res.Tail(20))
				return
			}
			c.Model(res)
		} else if res.Violated == "" {
			c.Inconclusive("self-test: NoHalfClose deviation not detected (vacuous liveness?)")
			return
		} else {
			c.Extra("deviation_NoHalfClose_violates", res.Violated)
		}
	}
	// behaviours
	cfg := fmt.Sprintf("SPECIFICATION Spec\nCONSTANTS\n  MaxUp = %d\n  MaxDown = %d\n  NoHalfClose = FALSE\n", c.Pick(4, 6), c.Pick(4, 6))
	os.WriteFile(filepath.Join(c.Work, "tunnel_sim.cfg"), []byte(cfg), 0o644)
	base := filepath.Join(c.Work, "tsim")
	res, err := core.RunTLC(c.Work, core.TLCOpts{Module: "Tunnel", Cfg: "tunnel_sim.cfg", Workers: 1, Timeout: 10 * time.Minute,
		Args: []string{"-simulate", fmt.Sprintf("file=%s,num=%d", base, c.Pick(400, 4000)), "-depth", "60", "-seed", fmt.Sprint(c.Seed)}})
	if err != nil || res.Infra() || res.Violated != "" {
		c.Inconclusive("TLC simulation of Tunnel failed: %v %s", err, res.Tail(20))
		return
	}
	files, _ := filepath.Glob(base + "_*")
	sort.Strings(files)
	var behs [][]core.Step
	for _, f := range files {
		st, err := core.ParseSimFile(f)
		os.Remove(f)
		if err == nil {
			behs = append(behs, st)
		}
	}
	rng := rand.New(rand.NewSource(c.Seed))
	scs := scenariosFrom(behs, rng, c.Thorough(), c.Pick(2, 6))
	if len(scs) > c.Pick(120, 1200) {
		scs = scs[:c.Pick(120, 1200)]
	}
	// proxies: direct, and chained to a downstream martian
	mk := func() (*martian.Proxy, string, error) {
		p := martian.NewProxy()
		l, err := net.Listen("tcp", "127.0.0.1:0")
		if err != nil {
			return nil, "", err
		}
		go p.Serve(l)
		return p, l.Addr().String(), nil
	}
	direct, daddr, err := mk()
	if err != nil {
		c.Inconclusive("listen: %v", err)
		return
	}
	defer func() { go direct.Close() }()
	down, downAddr, err := mk()
	if err != nil {
		c.Inconclusive("listen: %v", err)
		return
	}
	defer func() { go down.Close() }()
	chained, caddr, err := mk()
	if err != nil {
		c.Inconclusive("listen: %v", err)
		return
	}
	defer func() { go chained.Close() }()
	chained.SetDownstreamProxy(&url.URL{Scheme: "http", Host: downAddr})
	tl, err := net.Listen("tcp", "127.0.0.1:0")
	if err != nil {
		c.Inconclusive("listen: %v", err)
		return
	}
	defer tl.Close()
	rec := &core.Recorder{}
	type span struct {
		sc          *scenario
		first, last int
		notes       []string
	}
	var spans []span
	for i, sc := range scs {
		addr := daddr
		if sc.downstream {
			addr = caddr
		}
		first := rec.Len() + 1
		notes, err := run(sc, addr, tl, rec, c.Seed*1000+int64(i))
		if err != nil {
			c.Inconclusive("driver: %v", err)
			return
		}
		spans = append(spans, span{sc, first, rec.Len(), notes})
		nt := ""
		if sc.early || strings.ContainsAny(sc.key, "CT") || (strings.Contains(sc.key, "u") && strings.Contains(sc.key, "d")) {
			nt = fmt.Sprintf("%s/%v", sc.key, sc.downstream)
		}
		c.Eval(nt)
		if i%40 == 0 {
			c.Sample(map[string]interface{}{"schedule": sc.key, "early_data": sc.early, "through_downstream_proxy": sc.downstream, "ops": fmt.Sprint(sc.ops)})
		}
	}
	c.Trace(len(spans))
	// validate, cutting out rejected scenarios
	lines := strings.Split(strings.TrimRight(string(rec.Bytes()), "\n"), "\n")
	alive := make([]bool, len(spans))
	for i := range alive {
		alive[i] = true
	}
	for round := 0; round < 10; round++ {
		var sb strings.Builder
		var idx []int
		for i, s := range spans {
			if !alive[i] {
				continue
			}
			for ln := s.first; ln <= s.last; ln++ {
				sb.WriteString(lines[ln-1] + "\n")
				idx = append(idx, ln)
			}
		}
		if len(idx) == 0 {
			break
		}
		path := filepath.Join(c.Work, fmt.Sprintf("tunnel-%d.ndjson", round))
		os.WriteFile(path, []byte(sb.String()), 0o644)
		v, err := core.ValidateTrace(c.Work, "TunnelTrace", "TunnelTrace.cfg", path, 10*time.Minute, nil)
		if err != nil || v.Infra {
			c.Inconclusive("trace validation failed to run: %v %s", err, v.Res.Tail(20))
			return
		}
		if v.Accepted {
			break
		}
		hw := v.HighWater
		if hw < 1 {
			hw = 1
		}
		if hw > len(idx) {
			hw = len(idx)
		}
		orig := idx[hw-1]
		for i, s := range spans {
			if alive[i] && orig >= s.first && orig <= s.last {
				alive[i] = false
				at := lines[orig-1]
				sig := classify(s.sc, at)
				c.Violation(sig, fmt.Sprintf("tunnel run is not a behaviour of Tunnel; first unmatched event: %s; schedule %s early=%v downstream=%v ops=%v notes=%v; trace: %v",
					at, s.sc.key, s.sc.early, s.sc.downstream, s.sc.ops, s.notes, lines[s.first-1:s.last]), map[string]interface{}{"ops": fmt.Sprint(s.sc.ops), "trace": lines[s.first-1 : s.last]})
			}
		}
	}
	unreachable(c, daddr)
}

func classify(sc *scenario, at string) string {
	mode := "direct"
	if sc.downstream {
		mode = "downstream-proxy"
	}
	switch {
	case strings.Contains(at, "CONNECT not answered"):
		return mode + ": CONNECT not answered with 200"
	case strings.Contains(at, "saw no end-of-stream"):
		return mode + ": end-of-stream not propagated"
	case strings.Contains(at, `"ev":"stall"`) && sc.early:
		return mode + ": bytes not delivered while the sender is idle (early data)"
	case strings.Contains(at, `"ev":"stall"`):
		return mode + ": bytes not delivered while the sender is idle"
	case strings.Contains(at, `"ok":false`):
		return mode + ": bytes altered, lost or duplicated"
	}
	return mode + ": sequencing"
}

// unreachable: CONNECT to a closed port must be answered 502 with a Warning header.
func unreachable(c *core.Ctx, proxyAddr string) {
	l, _ := net.Listen("tcp", "127.0.0.1:0")
	dead := l.Addr().String()
	l.Close()
	conn, err := net.DialTimeout("tcp", proxyAddr, 3*time.Second)
	if err != nil {
		c.Inconclusive("dial: %v", err)
		return
	}
	defer conn.Close()
	conn.SetDeadline(time.Now().Add(5 * time.Second))
	fmt.Fprintf(conn, "CONNECT %s HTTP/1.1\r\nHost: %s\r\n\r\n", dead, dead)
	m, perr, eof := ep.ReadResponse(bufio.NewReader(conn), func() string { return "CONNECT" })
	c.Eval("unreachable-target")
	if eof || perr != nil || m.Status() != 502 || len(m.Headers.Get("Warning")) == 0 {
		c.Violation("unreachable target: no 502 with Warning", fmt.Sprintf("CONNECT to a closed port answered with %v (eof=%v err=%v)", m, eof, perr), nil)
	}
}
