// Package c01 decides property C01: environment behaviours of Http1Conn.tla (request
// sequences, pipelining patterns, close flags, origin framings) are concretised into
// byte-level scenarios, run through a live proxy without modifiers between a raw client
// and a raw origin, and the recorded traces are validated by TLC against Http1ConnTrace.
package c01

import (
	"fmt"
	"math/rand"
	"net"
	"strings"

	"github.com/google/martian/v3"

	"verif/harness/core"
	"verif/harness/ep"
	"verif/harness/h1"
)

func init() { core.Register("C01", Run) }

// Run is the C01 check.
func Run(c *core.Ctx) {
	c.Describe(
		"TLC model-checks Http1Conn (client connection x proxy loop x origin, with the client-proxy socket explicit so that pipelining is a behaviour) for MaxReq requests and then produces random behaviours with -simulate; the environment's choices in each behaviour (which requests, sent how far ahead of the responses, which ask to close, what the origin does) become a scenario that the concretiser fills with methods, target forms (origin/absolute, percent-encoded paths, empty query), header multisets (repeated, mixed case, empty, long), bodies of boundary sizes with Content-Length or chunked framing, and origin responses framed by Content-Length, chunking, connection close, bodiless statuses and HEAD. A raw TCP client writes the bytes (whole or split), a raw origin records what arrives; fidelity is judged by the harness's own HTTP parser and enters the trace as ok flags; sequencing, one-to-one order and the keep-alive/close rule are decided by TLC validating each trace against Http1ConnTrace. Non-trivial = scenarios with >= 2 requests, pipelining, a close flag or a body.",
		"Http1Conn.tla invariants OneToOneInOrder, OriginInOrder, CloseAfter, CloseHonoured, NothingAfterEOF and liveness KeepAlive checked by TLC; binding: spec behaviours -> real runs -> traces validated by TLC.",
		false,
		"byte fidelity is computed by the harness parser and enters the specification as booleans",
		"http.Transport may re-send an idempotent request on a dead reused connection; only the first arrival at the origin is an event")
	if !h1.ModelCheck(c, "h1_c01", c.Pick(3, 4), false, false, false) {
		return
	}
	behs, err := h1.Simulate(c, "h1_c01_sim", h1.SimOpts{MaxReq: c.Pick(4, 6), N: c.Pick(600, 5000), Depth: 90})
	if err != nil {
		c.Inconclusive("%v", err)
		return
	}
	rec := &core.Recorder{}
	origin, err := ep.NewOrigin(rec)
	if err != nil {
		c.Inconclusive("origin: %v", err)
		return
	}
	defer origin.Close()
	p := martian.NewProxy()
	defer p.Close()
	l, err := net.Listen("tcp", "127.0.0.1:0")
	if err != nil {
		c.Inconclusive("listen: %v", err)
		return
	}
	go p.Serve(l)
	rng := rand.New(rand.NewSource(c.Seed))
	seen := map[string]int{}
	var scs []*h1.Scenario
	for _, b := range behs {
		env := h1.EnvOf(b)
		if len(env.Close) == 0 {
			continue
		}
		sc := h1.Concretise(env, rng, origin.Addr(), true) // multi-megabyte bodies in every tier
		key := ""
		if len(env.Close) >= 2 || env.Finish || strings.Contains(env.Key, "true") {
			key = env.Key
		}
		if seen[env.Key] < c.Pick(3, 12) {
			scs = append(scs, sc)
			c.Eval(key)
		}
		seen[env.Key]++
	}
	results, err := h1.RunScenarios(scs, h1.RunOpts{ProxyAddr: l.Addr().String(), Origin: origin, Rec: rec})
	if err != nil {
		c.Inconclusive("driver: %v", err)
		return
	}
	c.Trace(len(results))
	for i, r := range results {
		if i%40 == 0 {
			c.Sample(r.Scenario.Describe())
		}
	}
	report(c, "C01", h1.Validate(c, rec, results, false, "c01"))
}

func report(c *core.Ctx, id string, rej []h1.Rejection) {
	for _, r := range rej {
		sig := classify(r)
		at := ""
		if r.Line-1 < len(r.Lines) && r.Line >= 1 {
			at = r.Lines[r.Line-1]
		}
		c.Violation(sig, fmt.Sprintf("%s; first unmatched event (#%d of the scenario): %s; notes: %v; scenario: %v", r.Reason, r.Line, at, r.Res.Notes, r.Res.Scenario.Describe()),
			map[string]interface{}{"scenario": r.Res.Scenario.Describe(), "trace": r.Lines, "notes": r.Res.Notes})
	}
}

// classify gives a rejection a signature by what was observed.
func classify(r h1.Rejection) string {
	for _, n := range r.Res.Notes {
		switch {
		case strings.Contains(n, "reached the client altered"):
			if strings.Contains(n, "content-encoding") || strings.Contains(n, "body of") {
				return "response altered: " + firstWords(n, 12)
			}
			return "response altered: " + firstWords(n, 12)
		case strings.Contains(n, "reached the origin altered"):
			return "request altered: " + firstWords(n, 12)
		}
	}
	if r.Res.Timeout {
		return "no response or close within the quiet period: " + r.Res.Scenario.Origin
	}
	return "sequencing: " + r.Res.Scenario.Origin
}

func firstWords(s string, n int) string {
	f := strings.Fields(s)
	if len(f) > n {
		f = f[:n]
	}
	return strings.Join(f, " ")
}
