// Package c15 holds the machinery shared by properties C15 (logging never changes the forwarded
// message) and C16 (HAR entries describe the exchange): attribute records of Logging.tla are
// concretised into messages, sent through a live proxy with the configured loggers and through a
// twin without them, and what the origin, the client and the logs hold is reported to TLC.
package c15

import (
	"bufio"
	"bytes"
	"compress/flate"
	"compress/gzip"
	"compress/zlib"
	"encoding/json"
	"fmt"
	"math/rand"
	"mime/multipart"
	"net"
	"net/http"
	"net/http/httptest"
	"net/url"
	"sort"
	"strings"
	"sync"
	"time"
	"unicode/utf8"

	martian "github.com/google/martian/v3"
	"github.com/google/martian/v3/fifo"
	"github.com/google/martian/v3/har"
	"github.com/google/martian/v3/marbl"
	"github.com/google/martian/v3/martianlog"

	"verif/harness/core"
	"verif/harness/ep"
)

// ReqKind, ResKind and Cfg are the attribute records of Logging.tla (same field names).
type ReqKind struct {
	Method   string `json:"method"`
	Framing  string `json:"framing"` // none | cl0 | cl | chunked
	Ct       string `json:"ct"`      // none | form | formbad | multipart | text | json | binary
	Enc      string `json:"enc"`     // identity | gzip
	Trailers bool   `json:"trailers"`
}
type ResKind struct {
	Framing  string `json:"framing"` // cl0 | cl | chunked | close
	Ct       string `json:"ct"`      // none | text | json | binary
	Enc      string `json:"enc"`     // identity | gzip | deflate (raw) | zlib (labelled deflate) | unknown
	Trailers bool   `json:"trailers"`
	Redirect bool   `json:"redirect"`
}
type Cfg struct {
	Har             bool   `json:"har"`
	HarPost         string `json:"harPost"` // all | none | optin | optout
	HarBody         string `json:"harBody"`
	Marbl           bool   `json:"marbl"`
	Text            bool   `json:"text"`
	TextHeadersOnly bool   `json:"textHeadersOnly"`
	TextDecode      bool   `json:"textDecode"`
}

// Exch is one exchange of a run.
type Exch struct {
	I    int
	Req  ReqKind
	Res  ResKind
	Skip bool
	// Async: the harness does not wait for this exchange before starting the next one.
	Async bool

	// concrete
	spec     *ep.Exchange
	query    url.Values
	reqPlain []byte // request content before content-encoding
	reqWire  []byte // as sent (what the origin must receive)
	params   []har.Param
	resPlain []byte // response content fully decoded
	resWire  []byte
	sentHdr  ep.H // every header field the client sends (canonical names), framing included
	resHdr   ep.H
}

var listed = []string{"text/", "application/json"}

func ctHeader(ct string, boundary string) string {
	switch ct {
	case "form", "formbad":
		return "application/x-www-form-urlencoded"
	case "multipart":
		return "multipart/form-data; boundary=" + boundary
	case "text":
		return "text/plain; charset=utf-8"
	case "json":
		return "application/json"
	case "binary":
		return "application/octet-stream"
	}
	return ""
}

func sizeClass(rng *rand.Rand) int {
	return []int{1, 17, 600, 4095, 4096, 4097, 70000, 300000}[rng.Intn(8)]
}

func textBody(rng *rand.Rand, n int) []byte {
	const words = "alpha beta gamma été 日本語 delta\n"
	b := make([]byte, 0, n+len(words))
	for len(b) < n {
		b = append(b, words[rng.Intn(8):]...)
	}
	b = b[:n]
	// never end inside a multi-byte sequence
	for len(b) > 0 && b[len(b)-1] >= 0x80 {
		b = b[:len(b)-1]
	}
	if len(b) == 0 {
		b = []byte("x")
	}
	return b
}

// binaryBody: valid UTF-8 for a while, then bytes that are not.
func binaryBody(rng *rand.Rand, n int) []byte {
	b := textBody(rng, n)
	k := 0
	if len(b) > 700 && rng.Intn(2) == 0 {
		k = 600 + rng.Intn(len(b)-650)
	}
	for i := k; i < len(b); i++ {
		b[i] = byte(rng.Intn(256))
	}
	b[len(b)-1] = 0xff
	return b
}

func encode(enc string, plain []byte) []byte {
	var buf bytes.Buffer
	switch enc {
	case "gzip":
		w := gzip.NewWriter(&buf)
		w.Write(plain)
		w.Close()
	case "deflate":
		w, _ := flate.NewWriter(&buf, flate.DefaultCompression)
		w.Write(plain)
		w.Close()
	case "zlib":
		w := zlib.NewWriter(&buf)
		w.Write(plain)
		w.Close()
	default:
		return plain
	}
	return buf.Bytes()
}

func encHeader(enc string) string {
	switch enc {
	case "gzip", "deflate":
		return enc
	case "zlib":
		return "deflate"
	case "unknown":
		return "x-verif-coding"
	}
	return ""
}

func randChunks(rng *rand.Rand, n int) []int {
	var c []int
	for n > 0 && len(c) < 6 {
		k := 1 + rng.Intn(n)
		if rng.Intn(3) == 0 {
			k = 1 + rng.Intn(9)
		}
		if k > n {
			k = n
		}
		c = append(c, k)
		n -= k
	}
	return c
}

// Concretise builds the messages of an exchange.
func (e *Exch) Concretise(rng *rand.Rand, originAddr string) {
	id := e.I
	q := url.Values{"q": {fmt.Sprintf("v%d", id)}, "lang": {"dé", "en"}, "empty": {""}}
	e.query = q
	path := fmt.Sprintf("/res/%d?%s", id, q.Encode())
	rs := ep.ReqSpec{ID: id, Method: e.Req.Method, Target: "http://" + originAddr + path, Path: path, Host: originAddr, Version: "HTTP/1.1"}
	rs.Headers = ep.H{{"User-Agent", "verif/1"}, {"Accept", "*/*"}, {"X-Multi", "one"}, {"X-Multi", "two"}, {"Cookie", fmt.Sprintf("sid=%d; theme=dark", id)}}
	if e.Skip {
		rs.Headers = append(rs.Headers, [2]string{"X-Verif-Skip", "1"})
	}
	boundary := fmt.Sprintf("verifboundary%d", id)
	if ct := ctHeader(e.Req.Ct, boundary); ct != "" {
		rs.Headers = append(rs.Headers, [2]string{"Content-Type", ct})
	}
	n := sizeClass(rng)
	switch e.Req.Framing {
	case "none":
		rs.Framing = "none"
	case "cl0":
		rs.Framing = "cl"
	default:
		switch e.Req.Ct {
		case "form":
			v := url.Values{"name": {"Jürgen & co"}, "n": {fmt.Sprint(id)}, "blob": {string(textBody(rng, n))}}
			e.reqPlain = []byte(v.Encode())
			for k, vs := range v {
				for _, x := range vs {
					e.params = append(e.params, har.Param{Name: k, Value: x})
				}
			}
		case "formbad":
			// labelled as a form, but not one (a stray percent sign, a semicolon)
			e.reqPlain = append([]byte("a=%zz&b=1;c=2&d="), textBody(rng, n)...)
		case "multipart":
			var buf bytes.Buffer
			mw := multipart.NewWriter(&buf)
			mw.SetBoundary(boundary)
			mw.WriteField("title", fmt.Sprintf("upload %d", id))
			fw, _ := mw.CreateFormFile("file", "data.bin")
			blob := binaryBody(rng, n)
			fw.Write(blob)
			mw.Close()
			e.reqPlain = buf.Bytes()
			e.params = []har.Param{{Name: "title", Value: fmt.Sprintf("upload %d", id)}, {Name: "file", Filename: "data.bin", ContentType: "application/octet-stream", Value: string(blob)}}
		case "binary", "none":
			e.reqPlain = binaryBody(rng, n)
		default:
			e.reqPlain = textBody(rng, n)
		}
		e.reqWire = encode(e.Req.Enc, e.reqPlain)
		if h := encHeader(e.Req.Enc); h != "" {
			rs.Headers = append(rs.Headers, [2]string{"Content-Encoding", h})
		}
		rs.Body = e.reqWire
		rs.Framing = e.Req.Framing
		if rs.Framing == "chunked" {
			rs.Chunks = randChunks(rng, len(rs.Body))
			if e.Req.Trailers {
				rs.Trailers = ep.H{{"X-Checksum", fmt.Sprintf("c%d", len(rs.Body))}, {"X-Trailer-Two", "t2"}}
			}
		}
	}
	// what the client sends, for the HAR header comparison
	e.sentHdr = append(ep.H{{"Host", originAddr}, {"X-Verif-Id", fmt.Sprint(id)}}, rs.Headers...)
	switch rs.Framing {
	case "cl":
		e.sentHdr = append(e.sentHdr, [2]string{"Content-Length", fmt.Sprint(len(rs.Body))})
	case "chunked":
		e.sentHdr = append(e.sentHdr, [2]string{"Transfer-Encoding", "chunked"})
	}

	res := ep.ResSpec{Status: 200}
	if e.Res.Redirect {
		res.Status = 302
		res.Headers = append(res.Headers, [2]string{"Location", fmt.Sprintf("http://%s/moved/%d", originAddr, id)})
	}
	res.Headers = append(res.Headers, [2]string{"Set-Cookie", fmt.Sprintf("seen=%d; Path=/", id)}, [2]string{"X-Multi", "a"}, [2]string{"X-Multi", "b"})
	switch e.Res.Ct {
	case "text":
		res.Headers = append(res.Headers, [2]string{"Content-Type", "text/html; charset=utf-8"})
	case "json":
		res.Headers = append(res.Headers, [2]string{"Content-Type", "application/json"})
	case "binary":
		res.Headers = append(res.Headers, [2]string{"Content-Type", "image/png"})
	}
	m := sizeClass(rng)
	if e.Res.Framing == "cl0" {
		res.Framing = "cl"
	} else {
		switch e.Res.Ct {
		case "binary", "none":
			e.resPlain = binaryBody(rng, m)
		case "json":
			e.resPlain = []byte(fmt.Sprintf(`{"id":%d,"text":%q}`, id, textBody(rng, m)))
		default:
			e.resPlain = textBody(rng, m)
		}
		e.resWire = encode(e.Res.Enc, e.resPlain)
		if e.Res.Enc == "unknown" {
			e.resPlain = e.resWire // nothing to decode
		}
		if h := encHeader(e.Res.Enc); h != "" {
			res.Headers = append(res.Headers, [2]string{"Content-Encoding", h})
		}
		res.Body = e.resWire
		res.Framing = e.Res.Framing
		if res.Framing == "chunked" {
			res.Chunks = randChunks(rng, len(res.Body))
			if e.Res.Trailers {
				res.Trailers = ep.H{{"X-Res-Checksum", fmt.Sprintf("r%d", len(res.Body))}}
			}
		}
		if res.Framing == "close" {
			res.Close = true
		}
	}
	e.resHdr = append(ep.H{{"X-Verif-Id", fmt.Sprint(id)}}, res.Headers...)
	switch res.Framing {
	case "cl":
		e.resHdr = append(e.resHdr, [2]string{"Content-Length", fmt.Sprint(len(res.Body))})
	case "chunked":
		e.resHdr = append(e.resHdr, [2]string{"Transfer-Encoding", "chunked"})
	}
	e.spec = &ep.Exchange{Req: rs, Res: res}
}

// ---- the proxy under test

type sink struct {
	mu    sync.Mutex
	lines []string
}

func (s *sink) add(l string) {
	s.mu.Lock()
	s.lines = append(s.lines, l)
	s.mu.Unlock()
}

type lockedBuf struct {
	mu sync.Mutex
	b  bytes.Buffer
}

func (l *lockedBuf) Write(p []byte) (int, error) {
	l.mu.Lock()
	defer l.mu.Unlock()
	return l.b.Write(p)
}

// World is one proxy with its loggers.
type World struct {
	Proxy  *martian.Proxy
	L      net.Listener
	Har    *har.Logger
	Marbl  *lockedBuf
	Text   *sink
	closed bool
}

func harOpts(post, body string) []har.Option {
	var o []har.Option
	switch post {
	case "all":
		o = append(o, har.PostDataLogging(true))
	case "none":
		o = append(o, har.PostDataLogging(false))
	case "optin":
		o = append(o, har.PostDataLoggingForContentTypes(listed...))
	case "optout":
		o = append(o, har.SkipPostDataLoggingForContentTypes(listed...))
	}
	switch body {
	case "all":
		o = append(o, har.BodyLogging(true))
	case "none":
		o = append(o, har.BodyLogging(false))
	case "optin":
		o = append(o, har.BodyLoggingForContentTypes(listed...))
	case "optout":
		o = append(o, har.SkipBodyLoggingForContentTypes(listed...))
	}
	return o
}

// NewWorld starts a proxy; cfg == nil gives the twin without loggers.
func NewWorld(cfg *Cfg) (*World, error) {
	l, err := net.Listen("tcp", "127.0.0.1:0")
	if err != nil {
		return nil, err
	}
	w := &World{L: l, Proxy: martian.NewProxy()}
	w.Proxy.SetTimeout(10 * time.Second)
	stack := fifo.NewGroup()
	stack.AddRequestModifier(martian.RequestModifierFunc(func(req *http.Request) error {
		if req.Header.Get("X-Verif-Skip") != "" {
			martian.NewContext(req).SkipLogging()
		}
		return nil
	}))
	if cfg != nil {
		if cfg.Har {
			w.Har = har.NewLogger()
			w.Har.SetOption(harOpts(cfg.HarPost, cfg.HarBody)...)
			stack.AddRequestModifier(w.Har)
			stack.AddResponseModifier(w.Har)
		}
		if cfg.Marbl {
			w.Marbl = &lockedBuf{}
			m := marbl.NewModifier(w.Marbl)
			stack.AddRequestModifier(m)
			stack.AddResponseModifier(m)
		}
		if cfg.Text {
			w.Text = &sink{}
			t := martianlog.NewLogger()
			t.SetHeadersOnly(cfg.TextHeadersOnly)
			t.SetDecode(cfg.TextDecode)
			t.SetLogFunc(w.Text.add)
			stack.AddRequestModifier(t)
			stack.AddResponseModifier(t)
		}
	}
	w.Proxy.SetRequestModifier(stack)
	w.Proxy.SetResponseModifier(stack)
	go w.Proxy.Serve(l)
	return w, nil
}

func (w *World) Close() {
	if !w.closed {
		w.closed = true
		w.L.Close()
		w.Proxy.Close()
	}
}

// exchange sends one request through the proxy on a fresh connection and parses the answer.
func exchange(proxyAddr string, e *Exch) (*ep.Msg, error) {
	c, err := net.Dial("tcp", proxyAddr)
	if err != nil {
		return nil, err
	}
	defer c.Close()
	c.SetDeadline(time.Now().Add(20 * time.Second))
	raw := e.spec.Req.Bytes()
	go func() {
		// written in two pieces so that head and body do not always share a segment
		k := len(raw) / 2
		c.Write(raw[:k])
		c.Write(raw[k:])
	}()
	br := bufio.NewReader(c)
	m, err, _ := ep.ReadResponse(br, func() string { return e.Req.Method })
	if err != nil {
		return m, err
	}
	return m, nil
}

func sameMsg(a, b *ep.Msg) (bool, string) {
	switch {
	case a == nil || b == nil:
		return a == b, "one of the two runs has no message"
	case a.Line != b.Line:
		return false, fmt.Sprintf("start line %q vs %q", a.Line, b.Line)
	case a.Framing != b.Framing:
		return false, fmt.Sprintf("framing %s vs %s", a.Framing, b.Framing)
	case !bytes.Equal(a.Body, b.Body):
		return false, fmt.Sprintf("body of %d bytes vs %d bytes", len(a.Body), len(b.Body))
	case fmt.Sprint(a.Headers) != fmt.Sprint(b.Headers):
		return false, fmt.Sprintf("headers %v vs %v", a.Headers, b.Headers)
	case fmt.Sprint(a.Trailers) != fmt.Sprint(b.Trailers):
		return false, fmt.Sprintf("trailers %v vs %v", a.Trailers, b.Trailers)
	case a.Complete != b.Complete:
		return false, "one message is incomplete"
	}
	return true, ""
}

func framingOf(m *ep.Msg) string {
	if m == nil {
		return "?"
	}
	switch m.Framing {
	case "cl":
		if len(m.Headers.Get("Content-Length")) > 0 && m.Headers.Get("Content-Length")[0] == "0" {
			return "cl0"
		}
		return "cl"
	}
	return m.Framing
}

// Run is a batch of exchanges through one configuration.
type Run struct {
	Cfg   Cfg
	Exchs []*Exch
	Seed  int64
}

// Result of a run.
type Result struct {
	Events []string
	Notes  []string
	Err    string
}

type seen struct {
	mu sync.Mutex
	m  map[int]*ep.Msg
}

// Execute runs the batch twice (with the loggers, and on the twin) and reports what was seen.
func Execute(r *Run) *Result {
	res := &Result{}
	var nmu sync.Mutex
	note := func(f string, a ...interface{}) {
		nmu.Lock()
		res.Notes = append(res.Notes, fmt.Sprintf(f, a...))
		nmu.Unlock()
	}
	rng := rand.New(rand.NewSource(r.Seed))
	junk := &core.Recorder{}
	origin, err := ep.NewOrigin(junk)
	if err != nil {
		res.Err = err.Error()
		return res
	}
	defer origin.Close()
	var specs []*ep.Exchange
	for _, e := range r.Exchs {
		e.Concretise(rng, origin.Addr())
		specs = append(specs, e.spec)
	}
	origin.Set(specs)
	rec := &core.Recorder{}
	rec.Emit("newrun", "cfg", r.Cfg)

	// the twin first: what origin and client see with no logger attached
	twinO := &seen{m: map[int]*ep.Msg{}}
	origin.OnRequest = func(m *ep.Msg, id int) { twinO.mu.Lock(); twinO.m[id] = m; twinO.mu.Unlock() }
	tw, err := NewWorld(nil)
	if err != nil {
		res.Err = err.Error()
		return res
	}
	twinC := map[int]*ep.Msg{}
	for _, e := range r.Exchs {
		m, err := exchange(tw.L.Addr().String(), e)
		if err != nil {
			note("twin exchange %d: %v", e.I, err)
		}
		twinC[e.I] = m
	}
	tw.Close()
	origin.Set(specs) // forget what was seen

	logO := &seen{m: map[int]*ep.Msg{}}
	origin.OnRequest = func(m *ep.Msg, id int) {
		logO.mu.Lock()
		first := logO.m[id] == nil
		logO.m[id] = m
		logO.mu.Unlock()
		if !first {
			return
		}
		twinO.mu.Lock()
		t := twinO.m[id]
		twinO.mu.Unlock()
		same, why := sameMsg(t, m)
		if !same {
			note("request %d as the origin received it differs from the run without loggers: %s", id, why)
		}
		rec.Emit("origin", "i", id, "framing", framingOf(m), "same", same)
	}
	w, err := NewWorld(&r.Cfg)
	if err != nil {
		res.Err = err.Error()
		return res
	}
	defer w.Close()
	var wg sync.WaitGroup
	one := func(e *Exch) {
		defer wg.Done()
		m, err := exchange(w.L.Addr().String(), e)
		if err != nil {
			note("exchange %d: %v", e.I, err)
		}
		same, why := sameMsg(twinC[e.I], m)
		if !same {
			note("response %d as the client received it differs from the run without loggers: %s", e.I, why)
		}
		rec.Emit("client", "i", e.I, "same", same)
	}
	for _, e := range r.Exchs {
		rec.Emit("begin", "i", e.I, "req", e.Req, "res", e.Res, "skip", e.Skip)
		wg.Add(1)
		if e.Async {
			go one(e)
		} else {
			one(e)
		}
	}
	wg.Wait()
	w.Close() // every handler has finished: the logs are complete
	inspectLogs(r, w, rec, note)
	res.Events = strings.Split(strings.TrimRight(string(rec.Bytes()), "\n"), "\n")
	return res
}

func hget(hs []har.Header, name string) []string {
	var out []string
	for _, h := range hs {
		if strings.EqualFold(h.Name, name) {
			out = append(out, h.Value)
		}
	}
	return out
}

func sameSet(a, b []string) bool {
	a, b = append([]string{}, a...), append([]string{}, b...)
	sort.Strings(a)
	sort.Strings(b)
	return fmt.Sprint(a) == fmt.Sprint(b)
}

func headersMatch(sent ep.H, got []har.Header, skip map[string]bool) (bool, string) {
	names := map[string]bool{}
	for _, kv := range sent {
		names[http.CanonicalHeaderKey(kv[0])] = true
	}
	for n := range names {
		if skip[n] {
			continue
		}
		if !sameSet(sent.Get(n), hget(got, n)) {
			return false, fmt.Sprintf("header %s: sent %q, entry has %q", n, sent.Get(n), hget(got, n))
		}
	}
	return true, ""
}

func paramKey(p har.Param) string {
	return fmt.Sprintf("%q/%q/%q/%q", p.Name, p.Filename, p.ContentType, p.Value)
}

func sameParams(a, b []har.Param) bool {
	var x, y []string
	for _, p := range a {
		x = append(x, paramKey(p))
	}
	for _, p := range b {
		y = append(y, paramKey(p))
	}
	return sameSet(x, y)
}

// inspectLogs compares the three logs with what was sent.
func inspectLogs(r *Run, w *World, rec *core.Recorder, note func(string, ...interface{})) {
	byID := map[string]*har.Entry{}
	var exported *har.HAR
	jsonErr := ""
	if w.Har != nil {
		for _, en := range w.Har.Export().Log.Entries {
			if v := hget(en.Request.Headers, "X-Verif-Id"); len(v) == 1 {
				if byID[v[0]] != nil {
					note("two HAR entries for exchange %s", v[0])
				}
				byID[v[0]] = en
			}
		}
		// the export handler's JSON, parsed back
		rw := httptest.NewRecorder()
		har.NewExportHandler(w.Har).ServeHTTP(rw, httptest.NewRequest("GET", "http://martian.proxy/logs", nil))
		exported = &har.HAR{}
		if err := json.Unmarshal(rw.Body.Bytes(), exported); err != nil {
			jsonErr = err.Error()
			exported = nil
		}
	}
	backByID := map[string]*har.Entry{}
	if exported != nil && exported.Log != nil {
		for _, en := range exported.Log.Entries {
			if v := hget(en.Request.Headers, "X-Verif-Id"); len(v) == 1 {
				backByID[v[0]] = en
			}
		}
	}
	marblIDs := map[string]bool{}
	if w.Marbl != nil {
		w.Marbl.mu.Lock()
		data := append([]byte{}, w.Marbl.b.Bytes()...)
		w.Marbl.mu.Unlock()
		rd := marbl.NewReader(bytes.NewReader(data))
		for {
			f, err := rd.ReadFrame()
			if err != nil {
				break
			}
			if h, ok := f.(marbl.Header); ok && strings.EqualFold(h.Name, "X-Verif-Id") && h.MessageType == marbl.Request {
				marblIDs[h.Value] = true
			}
		}
	}
	textIDs := map[string]bool{}
	if w.Text != nil {
		w.Text.mu.Lock()
		for _, l := range w.Text.lines {
			if strings.Contains(l, "Request to ") {
				if i := strings.Index(l, "X-Verif-Id: "); i >= 0 {
					rest := l[i+12:]
					if j := strings.IndexAny(rest, "\r\n"); j >= 0 {
						textIDs[rest[:j]] = true
					}
				}
			}
		}
		w.Text.mu.Unlock()
	}
	for _, e := range r.Exchs {
		id := fmt.Sprint(e.I)
		if w.Har != nil {
			en := byID[id]
			if en == nil {
				rec.Emit("har", "i", e.I, "present", false, "hasResp", false, "post", "absent", "postOK", true, "captured", false, "contentOK", true, "fieldsOK", true, "jsonOK", true, "jsonWhy", "")
			} else {
				post, postOK, why := checkPost(e, en.Request.PostData)
				if !postOK {
					note("exchange %d: HAR post data: %s", e.I, why)
				}
				fieldsOK, why := checkFields(e, en)
				if !fieldsOK {
					note("exchange %d: HAR entry: %s", e.I, why)
				}
				captured, contentOK := false, true
				if en.Response != nil && en.Response.Content != nil {
					captured = en.Response.Content.Text != nil || en.Response.Content.Size > 0
					if len(e.resPlain) == 0 {
						// nothing to capture: an empty body looks the same either way
						captured = capturedWanted(r.Cfg.HarBody, e.Res.Ct)
					}
					if captured && (!bytes.Equal(en.Response.Content.Text, e.resPlain) || en.Response.Content.Size != int64(len(e.resPlain))) {
						contentOK = false
						note("exchange %d: HAR content has %d bytes (size field %d), the decoded body has %d; first difference at %d", e.I, len(en.Response.Content.Text), en.Response.Content.Size, len(e.resPlain), firstDiff(en.Response.Content.Text, e.resPlain))
					}
				}
				jsonOK := jsonErr == ""
				jsonWhy := ""
				if !jsonOK {
					note("the exported JSON does not parse: %s", jsonErr)
				} else if b := backByID[id]; b == nil {
					jsonOK = false
					note("exchange %d: entry missing from the exported JSON", e.I)
				} else if ok, why := sameEntry(en, b); !ok {
					jsonOK = false
					jsonWhy = why
					note("exchange %d: entry changed by the JSON round trip: %s", e.I, why)
				}
				rec.Emit("har", "i", e.I, "present", true, "hasResp", en.Response != nil, "post", post, "postOK", postOK, "captured", captured, "contentOK", contentOK, "fieldsOK", fieldsOK, "jsonOK", jsonOK, "jsonWhy", jsonWhy)
			}
		}
		if w.Marbl != nil {
			rec.Emit("marbl", "i", e.I, "present", marblIDs[id])
		}
		if w.Text != nil {
			rec.Emit("text", "i", e.I, "present", textIDs[id])
		}
	}
}

func capturedWanted(opt, ct string) bool {
	in := ct == "text" || ct == "json"
	switch opt {
	case "all":
		return true
	case "none":
		return false
	case "optin":
		return in
	}
	return !in
}

func firstDiff(a, b []byte) int {
	for i := range a {
		if i >= len(b) || a[i] != b[i] {
			return i
		}
	}
	return len(a)
}

// checkPost classifies the entry's post data and compares it with what the origin receives.
func checkPost(e *Exch, pd *har.PostData) (kind string, ok bool, why string) {
	if pd == nil {
		return "absent", true, ""
	}
	wantMime := strings.SplitN(ctHeader(e.Req.Ct, "b"), ";", 2)[0]
	if pd.MimeType != wantMime {
		return "mime", false, fmt.Sprintf("mimeType %q, the request has %q", pd.MimeType, wantMime)
	}
	switch {
	case len(pd.Params) > 0:
		if pd.Text != "" {
			return "params", false, "both params and text"
		}
		if !sameParams(pd.Params, e.params) {
			return "params", false, fmt.Sprintf("%d params do not equal the %d sent", len(pd.Params), len(e.params))
		}
		return "params", true, ""
	case pd.Text != "":
		if pd.Text != string(e.reqWire) {
			return "text", false, fmt.Sprintf("text of %d bytes is not the body the origin receives (%d bytes; first difference at %d; text starts %q)", len(pd.Text), len(e.reqWire), firstDiff([]byte(pd.Text), e.reqWire), clip(pd.Text, 24))
		}
		return "text", true, ""
	}
	return "mime", true, ""
}

func clip(s string, n int) string {
	if len(s) > n {
		return s[:n]
	}
	return s
}

func checkFields(e *Exch, en *har.Entry) (bool, string) {
	rq := en.Request
	if rq.Method != e.Req.Method {
		return false, "method " + rq.Method
	}
	if rq.URL != e.spec.Req.Target {
		return false, fmt.Sprintf("url %q, sent %q", rq.URL, e.spec.Req.Target)
	}
	if rq.HTTPVersion != "HTTP/1.1" {
		return false, "request version " + rq.HTTPVersion
	}
	if ok, why := headersMatch(e.sentHdr, rq.Headers, map[string]bool{"Trailer": true}); !ok {
		return false, "request " + why
	}
	var q []string
	for _, x := range rq.QueryString {
		q = append(q, x.Name+"="+x.Value)
	}
	var wq []string
	for k, vs := range e.query {
		for _, v := range vs {
			wq = append(wq, k+"="+v)
		}
	}
	if !sameSet(q, wq) {
		return false, fmt.Sprintf("query string %v, sent %v", q, wq)
	}
	var ck []string
	for _, c := range rq.Cookies {
		ck = append(ck, c.Name+"="+c.Value)
	}
	if !sameSet(ck, []string{fmt.Sprintf("sid=%d", e.I), "theme=dark"}) {
		return false, fmt.Sprintf("cookies %v", ck)
	}
	rs := en.Response
	if rs == nil {
		return true, ""
	}
	if rs.Status != e.spec.Res.Status || rs.HTTPVersion != "HTTP/1.1" {
		return false, fmt.Sprintf("status %d %s", rs.Status, rs.HTTPVersion)
	}
	skip := map[string]bool{"Trailer": true}
	if e.spec.Res.Framing == "close" {
		skip["Connection"] = true
	}
	if ok, why := headersMatch(e.resHdr, rs.Headers, skip); !ok {
		return false, "response " + why
	}
	if e.Res.Redirect {
		if want := fmt.Sprintf("http://%s/moved/%d", e.spec.Req.Host, e.I); rs.RedirectURL != want {
			return false, fmt.Sprintf("redirectURL %q, Location is %q", rs.RedirectURL, want)
		}
	} else if rs.RedirectURL != "" {
		return false, "redirectURL set on a 200"
	}
	var sc []string
	for _, c := range rs.Cookies {
		sc = append(sc, c.Name+"="+c.Value)
	}
	if !sameSet(sc, []string{fmt.Sprintf("seen=%d", e.I)}) {
		return false, fmt.Sprintf("response cookies %v", sc)
	}
	wantMime := ""
	if v := e.resHdr.Get("Content-Type"); len(v) > 0 {
		wantMime = v[0]
	}
	if rs.Content == nil || rs.Content.MimeType != wantMime {
		return false, "content mimeType"
	}
	return true, ""
}

// sameEntry compares an entry with its JSON round trip.
func sameEntry(a, b *har.Entry) (bool, string) {
	if a.Request.Method != b.Request.Method || a.Request.URL != b.Request.URL {
		return false, "request line"
	}
	if fmt.Sprint(a.Request.Headers) != fmt.Sprint(b.Request.Headers) {
		return false, "request headers"
	}
	if (a.Request.PostData == nil) != (b.Request.PostData == nil) {
		return false, "post data presence"
	}
	if a.Request.PostData != nil {
		if a.Request.PostData.Text != b.Request.PostData.Text {
			return false, fmt.Sprintf("post data text: %d bytes before, %d after; first difference at %d", len(a.Request.PostData.Text), len(b.Request.PostData.Text), firstDiff([]byte(a.Request.PostData.Text), []byte(b.Request.PostData.Text)))
		}
		if !sameParams(a.Request.PostData.Params, b.Request.PostData.Params) || a.Request.PostData.MimeType != b.Request.PostData.MimeType {
			for _, p := range a.Request.PostData.Params {
				if !utf8.ValidString(p.Value) && p.Filename != "" {
					return false, "the value of a multipart file part that is not valid UTF-8"
				}
			}
			return false, "post data params"
		}
	}
	if (a.Response == nil) != (b.Response == nil) {
		return false, "response presence"
	}
	if a.Response != nil {
		if a.Response.Status != b.Response.Status || fmt.Sprint(a.Response.Headers) != fmt.Sprint(b.Response.Headers) {
			return false, "response status or headers"
		}
		if (a.Response.Content == nil) != (b.Response.Content == nil) {
			return false, "content presence"
		}
		if a.Response.Content != nil && (!bytes.Equal(a.Response.Content.Text, b.Response.Content.Text) || a.Response.Content.Size != b.Response.Content.Size) {
			return false, "content text or size"
		}
	}
	return true, ""
}
