package c15

import (
	"bufio"
	"bytes"
	"fmt"
	"io"
	"math/rand"
	"net/http"
	"os"
	"path/filepath"
	"sort"
	"strings"
	"sync"
	"time"

	"github.com/google/martian/v3/messageview"

	"verif/harness/core"
	"verif/harness/ep"
)

func init() {
	core.Register("C15", func(c *core.Ctx) { Check(c, "C15") })
}

func mcCfg(ids, cfgs, reqs, ress string, marblSkip, noBody, chunks bool) string {
	b := func(x bool) string {
		if x {
			return "TRUE"
		}
		return "FALSE"
	}
	return fmt.Sprintf("SPECIFICATION Spec\nCONSTANTS\n  Ids = %s\n  Cfgs <- %s\n  ReqKinds <- %s\n  ResKinds <- %s\n  MarblIgnoresSkip = %s\n  NoBodyReplaced = %s\n  PostDataKeepsChunks = %s\n"+
		"INVARIANTS SkipMeansUnrecorded ForwardedFramingUnchanged RecordedWhenConfigured NoDuplicateEntries PostDataIsBody\nCHECK_DEADLOCK FALSE\n", ids, cfgs, reqs, ress, b(marblSkip), b(noBody), b(chunks))
}

func reqFromVal(v core.Val) ReqKind {
	return ReqKind{Method: v.Fields["method"].S, Framing: v.Fields["framing"].S, Ct: v.Fields["ct"].S, Enc: v.Fields["enc"].S, Trailers: v.Fields["trailers"].B}
}
func resFromVal(v core.Val) ResKind {
	return ResKind{Framing: v.Fields["framing"].S, Ct: v.Fields["ct"].S, Enc: v.Fields["enc"].S, Trailers: v.Fields["trailers"].B, Redirect: v.Fields["redirect"].B}
}
func cfgFromVal(v core.Val) Cfg {
	return Cfg{Har: v.Fields["har"].B, HarPost: v.Fields["harPost"].S, HarBody: v.Fields["harBody"].S, Marbl: v.Fields["marbl"].B,
		Text: v.Fields["text"].B, TextHeadersOnly: v.Fields["textHeadersOnly"].B, TextDecode: v.Fields["textDecode"].B}
}

// fromBehaviour: the configuration of the initial state and the exchanges in the order they begin;
// an exchange is asynchronous when the next one begins before its response reached the client.
func fromBehaviour(steps []core.Step) *Run {
	if len(steps) == 0 {
		return nil
	}
	r := &Run{Cfg: cfgFromVal(steps[0].State["cfg"])}
	open := map[int]*Exch{}
	for _, st := range steps {
		switch st.Action {
		case "Begin":
			for _, e := range open {
				e.Async = true
			}
			e := &Exch{I: int(st.Args[0].I), Req: reqFromVal(st.Args[1]), Res: resFromVal(st.Args[2]), Skip: st.Args[3].B}
			open[e.I] = e
			r.Exchs = append(r.Exchs, e)
		case "ClientRecv":
			delete(open, int(st.Args[0].I))
		}
	}
	if len(r.Exchs) == 0 {
		return nil
	}
	return r
}

func all(har, marbl, text bool) Cfg {
	return Cfg{Har: har, HarPost: "all", HarBody: "all", Marbl: marbl, Text: text}
}

// directed runs: the corners named in the property and in its "why tests cannot" text.
func directed() []*Run {
	post := func(fr, ct string) ReqKind { return ReqKind{Method: "POST", Framing: fr, Ct: ct, Enc: "identity"} }
	get := ReqKind{Method: "GET", Framing: "none", Ct: "none", Enc: "identity"}
	res := func(fr, ct, enc string) ResKind { return ResKind{Framing: fr, Ct: ct, Enc: enc} }
	var runs []*Run
	for _, cfg := range []Cfg{all(true, false, false), all(false, true, false), all(false, false, true), all(true, true, true),
		{Har: true, HarPost: "optin", HarBody: "optout", Marbl: true, Text: true, TextHeadersOnly: true},
		{Har: true, HarPost: "none", HarBody: "none", Text: true, TextDecode: true}} {
		r := &Run{Cfg: cfg}
		add := func(rq ReqKind, rs ResKind, skip, async bool) {
			r.Exchs = append(r.Exchs, &Exch{I: len(r.Exchs) + 1, Req: rq, Res: rs, Skip: skip, Async: async})
		}
		add(post("cl0", "form"), res("cl", "text", "identity"), false, false)                      // empty form submission
		add(post("chunked", "text"), res("chunked", "json", "gzip"), false, false)                  // chunked upload
		add(post("cl", "binary"), res("cl", "binary", "identity"), false, true)                     // binary both ways, concurrent ...
		add(post("cl", "multipart"), res("cl", "text", "deflate"), false, true)                     // ... with a multipart upload
		add(post("cl", "json"), res("close", "text", "identity"), true, false)                      // skipped
		add(get, res("cl0", "none", "identity"), false, false)                                     // nothing at all
		add(ReqKind{Method: "POST", Framing: "chunked", Ct: "binary", Enc: "gzip", Trailers: true}, // trailers both ways
			ResKind{Framing: "chunked", Ct: "text", Enc: "unknown", Trailers: true}, false, true)
		add(get, ResKind{Framing: "cl", Ct: "text", Enc: "gzip", Redirect: true}, false, false)
		add(post("cl", "formbad"), res("chunked", "text", "zlib"), false, false) // not a form after all; RFC-style deflate
		runs = append(runs, r)
	}
	return runs
}

// ---- the snapshot clause: a messageview of any message re-parses to the same message

type snapCase struct {
	name string
	raw  []byte
	req  bool
}

func snapshotCases(rng *rand.Rand) []snapCase {
	var out []snapCase
	for _, fr := range []string{"none", "cl0", "cl", "chunked"} {
		for _, tr := range []bool{false, true} {
			if tr && fr != "chunked" {
				continue
			}
			e := &Exch{I: 1, Req: ReqKind{Method: "POST", Framing: fr, Ct: "binary", Enc: "identity", Trailers: tr}, Res: ResKind{Framing: "cl", Ct: "text", Enc: "identity"}}
			if fr == "none" {
				e.Req.Method = "GET"
			}
			e.Concretise(rng, "origin.test")
			out = append(out, snapCase{fmt.Sprintf("request/%s/trailers=%v", fr, tr), e.spec.Req.Bytes(), true})
		}
	}
	for _, fr := range []string{"cl0", "cl", "chunked", "close"} {
		for _, tr := range []bool{false, true} {
			if tr && fr != "chunked" {
				continue
			}
			e := &Exch{I: 1, Req: ReqKind{Method: "GET", Framing: "none", Ct: "none", Enc: "identity"}, Res: ResKind{Framing: fr, Ct: "binary", Enc: "gzip", Trailers: tr}}
			if fr == "cl0" {
				e.Res.Enc = "identity"
			}
			e.Concretise(rng, "origin.test")
			out = append(out, snapCase{fmt.Sprintf("response/%s/trailers=%v", fr, tr), e.spec.Res.Bytes(1), false})
		}
	}
	return out
}

func readAllMsg(body io.ReadCloser) []byte {
	if body == nil {
		return nil
	}
	b, _ := io.ReadAll(body)
	return b
}

// snapshotOne: parse, snapshot, re-parse the snapshot, compare; also the original still reads the same.
func snapshotOne(sc snapCase) (parses, equal bool, why string) {
	mv := messageview.New()
	var want []byte
	var wantTrailer, wantHeader http.Header
	var line string
	// net/http cannot tell "no Content-Length" from "Content-Length: 0": the length is compared
	// as a number (in the start line string below), the header line itself is not
	noCL := func(h http.Header) http.Header {
		h = h.Clone()
		h.Del("Content-Length")
		return h
	}
	if sc.req {
		req, err := http.ReadRequest(bufio.NewReader(bytes.NewReader(sc.raw)))
		if err != nil {
			return false, false, "harness message does not parse: " + err.Error()
		}
		if err := mv.SnapshotRequest(req); err != nil {
			return false, false, "SnapshotRequest: " + err.Error()
		}
		want = readAllMsg(req.Body)
		wantTrailer, wantHeader, line = req.Trailer, noCL(req.Header), fmt.Sprintf("%s %s length=%d te=%v", req.Method, req.URL, req.ContentLength, req.TransferEncoding)
	} else {
		res, err := http.ReadResponse(bufio.NewReader(bytes.NewReader(sc.raw)), nil)
		if err != nil {
			return false, false, "harness message does not parse: " + err.Error()
		}
		if err := mv.SnapshotResponse(res); err != nil {
			return false, false, "SnapshotResponse: " + err.Error()
		}
		want = readAllMsg(res.Body)
		wantTrailer, wantHeader, line = res.Trailer, noCL(res.Header), fmt.Sprintf("%s length=%d te=%v", res.Status, res.ContentLength, res.TransferEncoding)
	}
	r, err := mv.Reader()
	if err != nil {
		return false, false, "Reader: " + err.Error()
	}
	snap, _ := io.ReadAll(r)
	var got []byte
	var gotTrailer, gotHeader http.Header
	var gotLine string
	if sc.req {
		req2, err := http.ReadRequest(bufio.NewReader(bytes.NewReader(snap)))
		if err != nil {
			return false, false, "the snapshot does not parse: " + err.Error()
		}
		got, err = io.ReadAll(req2.Body)
		if err != nil {
			return false, false, "the snapshot's body does not parse: " + err.Error()
		}
		gotTrailer, gotHeader, gotLine = req2.Trailer, noCL(req2.Header), fmt.Sprintf("%s %s length=%d te=%v", req2.Method, req2.URL, req2.ContentLength, req2.TransferEncoding)
	} else {
		res2, err := http.ReadResponse(bufio.NewReader(bytes.NewReader(snap)), nil)
		if err != nil {
			return false, false, "the snapshot does not parse: " + err.Error()
		}
		got, err = io.ReadAll(res2.Body)
		if err != nil {
			return false, false, "the snapshot's body does not parse: " + err.Error()
		}
		gotTrailer, gotHeader, gotLine = res2.Trailer, noCL(res2.Header), fmt.Sprintf("%s length=%d te=%v", res2.Status, res2.ContentLength, res2.TransferEncoding)
	}
	switch {
	case gotLine != line:
		return true, false, fmt.Sprintf("start line %q vs %q", gotLine, line)
	case !bytes.Equal(got, want):
		return true, false, fmt.Sprintf("body %d bytes vs %d", len(got), len(want))
	case fmt.Sprint(gotHeader) != fmt.Sprint(wantHeader):
		return true, false, fmt.Sprintf("headers %v vs %v", gotHeader, wantHeader)
	case fmt.Sprint(gotTrailer) != fmt.Sprint(wantTrailer):
		return true, false, fmt.Sprintf("trailers %v vs %v", gotTrailer, wantTrailer)
	}
	return true, true, ""
}

// ---- validation

type rejection struct {
	run      *Run
	res      *Result
	at       string
	violated string
}

func field(at, name string) string {
	i := strings.Index(at, `"`+name+`":`)
	if i < 0 {
		return "?"
	}
	rest := strings.TrimLeft(at[i+len(name)+3:], `"`)
	for j, ch := range rest {
		if ch == '"' || ch == ',' || ch == '}' {
			return rest[:j]
		}
	}
	return rest
}

// class: which property a rejected observation belongs to.
func (r rejection) class() string {
	at := r.at
	switch {
	case r.violated == "PostDataIsBody" || r.violated == "NoDuplicateEntries":
		return "C16"
	case r.violated != "":
		return "C15"
	case strings.Contains(at, `"ev":"har"`):
		// being recorded although marked to skip (or not recorded) is C15's clause; the entry's contents are C16's
		if field(at, "postOK") == "true" && field(at, "contentOK") == "true" && field(at, "fieldsOK") == "true" && field(at, "jsonOK") == "true" &&
			r.exch() != nil && r.exch().Skip == (field(at, "present") == "true") {
			return "C15"
		}
		return "C16"
	}
	return "C15"
}

func (r rejection) exch() *Exch {
	i := field(r.at, "i")
	for _, e := range r.run.Exchs {
		if fmt.Sprint(e.I) == i {
			return e
		}
	}
	return nil
}

func (r rejection) signature() string {
	at := r.at
	e := r.exch()
	desc := ""
	if e != nil {
		desc = fmt.Sprintf(" (%s request, %s framing, content type %s)", e.Req.Method, e.Req.Framing, e.Req.Ct)
	}
	switch {
	case r.violated != "":
		return "invariant " + r.violated
	case strings.Contains(at, `"ev":"origin"`):
		return "the request the origin receives differs from the one forwarded without loggers" + desc
	case strings.Contains(at, `"ev":"client"`):
		return "the response the client receives differs from the one forwarded without loggers"
	case strings.Contains(at, `"ev":"marbl"`):
		return "marbl: recorded=" + field(at, "present") + " for an exchange with skip=" + fmt.Sprint(e != nil && e.Skip)
	case strings.Contains(at, `"ev":"text"`):
		return "text logger: recorded=" + field(at, "present") + " for an exchange with skip=" + fmt.Sprint(e != nil && e.Skip)
	case strings.Contains(at, `"ev":"snapshot"`):
		return "snapshot of a " + field(at, "name") + " message is not a parseable equal message"
	case strings.Contains(at, `"ev":"har"`):
		switch {
		case field(at, "postOK") == "false":
			return "HAR post data is not the request body as the origin receives it" + desc
		case field(at, "contentOK") == "false":
			return "HAR response content is not the decoded body with its true size"
		case field(at, "fieldsOK") == "false":
			return "HAR entry fields differ from the message"
		case field(at, "jsonOK") == "false":
			return "HAR entry does not survive the JSON round trip: " + strings.SplitN(field(at, "jsonWhy"), ":", 2)[0]
		case e != nil && e.Skip == (field(at, "present") == "true"):
			return "HAR: recorded=" + field(at, "present") + " for an exchange with skip=" + fmt.Sprint(e.Skip)
		}
		return "HAR capture decision (post " + field(at, "post") + ", captured " + field(at, "captured") + ") differs from the options" + desc
	}
	return "sequencing at " + field(at, "ev")
}

func validate(c *core.Ctx, runs []*Run, ress []*Result, name string) []rejection {
	var rej []rejection
	const group = 40
	for g0 := 0; g0 < len(runs); g0 += group {
		g1 := g0 + group
		if g1 > len(runs) {
			g1 = len(runs)
		}
		alive := map[int]bool{}
		for i := g0; i < g1; i++ {
			alive[i] = true
		}
		for round := 0; round <= group; round++ {
			var sb strings.Builder
			var owner []int
			for i := g0; i < g1; i++ {
				if !alive[i] {
					continue
				}
				for _, l := range ress[i].Events {
					sb.WriteString(l + "\n")
					owner = append(owner, i)
				}
			}
			if len(owner) == 0 {
				break
			}
			path := filepath.Join(c.Work, fmt.Sprintf("%s-%d-%d.ndjson", name, g0, round))
			os.WriteFile(path, []byte(sb.String()), 0o644)
			v, err := core.ValidateTrace(c.Work, "LoggingTrace", "LoggingTrace.cfg", path, 10*time.Minute, nil)
			if err != nil {
				c.Inconclusive("trace validation (%s) failed to run: %v", name, err)
				return rej
			}
			if v.Infra {
				c.Inconclusive("trace validation (%s) failed to run: %s", name, v.Res.Tail(25))
				return rej
			}
			if v.Accepted {
				break
			}
			hw := v.HighWater
			if hw < 1 {
				hw = 1
			}
			if hw > len(owner) {
				hw = len(owner)
			}
			i := owner[hw-1]
			pos := 0
			for k := hw - 1; k >= 0 && owner[k] == i; k-- {
				pos++
			}
			at := ress[i].Events[pos-1]
			rej = append(rej, rejection{run: runs[i], res: ress[i], at: at, violated: v.Violated})
			// take only the offending observation out (or put it right, where later events depend
			// on the step), so that the rest of the run is still checked
			ev := append([]string{}, ress[i].Events[:pos-1]...)
			rj := rej[len(rej)-1]
			switch {
			case strings.Contains(at, `"ev":"origin"`) && rj.exch() != nil:
				ev = append(ev, fmt.Sprintf(`{"ev":"origin","i":%d,"framing":%q,"same":true}`, rj.exch().I, rj.exch().Req.Framing))
			case strings.Contains(at, `"ev":"client"`) && rj.exch() != nil:
				ev = append(ev, fmt.Sprintf(`{"ev":"client","i":%d,"same":true}`, rj.exch().I))
			}
			ress[i] = &Result{Events: append(ev, ress[i].Events[pos:]...), Notes: ress[i].Notes}
			if len(rej) > 60 {
				return rej
			}
		}
	}
	return rej
}

func describeRun(r *Run) string {
	var p []string
	for _, e := range r.Exchs {
		p = append(p, fmt.Sprintf("%d:%s/%s/%s/%s%s->%s/%s/%s%s", e.I, e.Req.Method, e.Req.Framing, e.Req.Ct, e.Req.Enc, flag(e.Skip, "/skip"), e.Res.Framing, e.Res.Ct, e.Res.Enc, flag(e.Async, "/async")))
	}
	return fmt.Sprintf("cfg %+v: %s", r.Cfg, strings.Join(p, " "))
}

func flag(b bool, s string) string {
	if b {
		return s
	}
	return ""
}

// Check runs the shared machinery and reports the rejections of property id.
func Check(c *core.Ctx, id string) {
	c.Describe(
		"TLC model-checks Logging.tla (the decisions of har.Logger, marbl.Modifier and martianlog.Logger: which exchanges are recorded, what is captured under the post-data and body options, how post data is represented, and the framing the origin receives; exchanges interleave) for SkipMeansUnrecorded, ForwardedFramingUnchanged, RecordedWhenConfigured, NoDuplicateEntries, PostDataIsBody; the deviations MarblIgnoresSkip, NoBodyReplaced, PostDataKeepsChunks (the code before the repairs) must violate them. Runs - simulated behaviours over the full attribute product, plus directed ones - are concretised (bodies of 1 B to 300 kB, form / multipart / text / JSON / binary with invalid UTF-8 after a valid prefix, gzip / deflate / unknown codings, chunked with trailers, redirects, cookies, repeated headers) and sent twice, through a proxy with the configured loggers and through a twin without them; a raw origin and a raw client compare line, headers, body, trailers and framing between the two; the HAR log (and its JSON export parsed back), the marbl stream and the text log are compared with what was sent; messageview snapshots are re-parsed. TLC validates every observation against LoggingTrace.",
		"Logging.tla invariants checked by TLC (three deviation runs must fail); binding: attribute records -> concrete exchanges through live proxies -> observation traces validated by TLC. Byte equality is evaluated by the harness and enters the trace as flags that must be TRUE.",
		false,
		"equality of bytes, header lists and JSON round trips is decided by the harness, not by TLC (the specification decides who records what and in which form)",
		"the Trailer announcement header is not compared (net/http moves it out of the header map)",
		"deflate-labelled bodies are sent both as raw deflate data and zlib-wrapped")
	type mrun struct{ name, cfg, want string }
	runs := []mrun{
		{"log_ref", mcCfg("{1, 2}", "SmallCfgs", "SmallReq", "SmallRes", false, false, false), ""},
		{"log_dev_marbl", mcCfg("{1}", "SmallCfgs", "SmallReq", "SmallRes", true, false, false), "SkipMeansUnrecorded"},
		{"log_dev_nobody", mcCfg("{1}", "SmallCfgs", "SmallReq", "SmallRes", false, true, false), "ForwardedFramingUnchanged"},
		{"log_dev_chunks", mcCfg("{1}", "SmallCfgs", "SmallReq", "SmallRes", false, false, true), "PostDataIsBody"},
	}
	if c.Thorough() {
		// the full product of configurations and attributes does not finish in half an hour:
		// all attributes under the small configuration family, all configurations under the small attribute families
		runs = append(runs, mrun{"log_ref_allmsgs", mcCfg("{1}", "SmallCfgs", "FullReq", "FullRes", false, false, false), ""},
			mrun{"log_ref_allcfgs", mcCfg("{1}", "FullCfgs", "SmallReq", "SmallRes", false, false, false), ""})
	}
	for _, r := range runs {
		os.WriteFile(filepath.Join(c.Work, r.name+".cfg"), []byte(r.cfg), 0o644)
		res, err := core.RunTLC(c.Work, core.TLCOpts{Module: "MCLogging", Cfg: r.name + ".cfg", Workers: 14, Timeout: 60 * time.Minute, Heap: "12g"})
		if err != nil || res.Infra() {
			c.Inconclusive("TLC on Logging (%s) failed: %v %s", r.name, err, res.Tail(20))
			return
		}
		if r.want == "" {
			if !res.OK() {
				c.Inconclusive("Logging reference model violates %s", res.Violated)
				return
			}
			c.Model(res)
		} else if res.Violated != r.want {
			c.Inconclusive("self-test: deviation %s expected to violate %s, TLC reported %q", r.name, r.want, res.Violated)
			return
		} else {
			c.Extra("deviation_"+r.name, res.Violated)
		}
	}
	simCfg := "SPECIFICATION Spec\nCONSTANTS\n  Ids = {1, 2, 3, 4}\n  Cfgs <- FullCfgs\n  ReqKinds <- FullReq\n  ResKinds <- FullRes\n  MarblIgnoresSkip = FALSE\n  NoBodyReplaced = FALSE\n  PostDataKeepsChunks = FALSE\nCHECK_DEADLOCK FALSE\n"
	os.WriteFile(filepath.Join(c.Work, "log_sim.cfg"), []byte(simCfg), 0o644)
	base := filepath.Join(c.Work, "log_sim")
	res, err := core.RunTLC(c.Work, core.TLCOpts{Module: "MCLogging", Cfg: "log_sim.cfg", Workers: 1, Timeout: 10 * time.Minute,
		Args: []string{"-simulate", fmt.Sprintf("file=%s,num=%d", base, c.Pick(120, 1500)), "-depth", "22", "-seed", fmt.Sprint(c.Seed)}})
	if err != nil || res.Infra() || res.Violated != "" {
		c.Inconclusive("simulation of Logging failed: %v %s", err, res.Tail(20))
		return
	}
	rng := rand.New(rand.NewSource(c.Seed))
	all := directed()
	files, _ := filepath.Glob(base + "_*")
	sort.Strings(files)
	for _, f := range files {
		st, err := core.ParseSimFile(f)
		os.Remove(f)
		if err != nil {
			continue
		}
		if r := fromBehaviour(st); r != nil {
			all = append(all, r)
		}
	}
	for _, r := range all {
		r.Seed = rng.Int63()
	}
	ress := make([]*Result, len(all))
	sem := make(chan struct{}, 12)
	var wg sync.WaitGroup
	for i, r := range all {
		wg.Add(1)
		sem <- struct{}{}
		go func(i int, r *Run) {
			defer wg.Done()
			defer func() { <-sem }()
			ress[i] = Execute(r)
		}(i, r)
	}
	wg.Wait()
	var okR []*Run
	var okS []*Result
	nex := 0
	for i, r := range ress {
		if r.Err != "" {
			c.Inconclusive("run %d: %s", i, r.Err)
			continue
		}
		okR, okS = append(okR, all[i]), append(okS, r)
		for _, e := range all[i].Exchs {
			nex++
			c.Eval(fmt.Sprintf("%+v|%+v|%+v|%v", all[i].Cfg, e.Req, e.Res, e.Skip))
		}
		if i%25 == 0 {
			c.Sample(map[string]interface{}{"run": describeRun(all[i]), "events": r.Events, "notes": r.Notes})
		}
	}
	c.Trace(len(okR))
	c.Extra("exchanges", nex)
	if id == "C15" {
		// the snapshot clause, as one more run
		rec := &core.Recorder{}
		rec.Emit("newrun", "cfg", Cfg{HarPost: "all", HarBody: "all"})
		var notes []string
		for _, sc := range snapshotCases(rng) {
			p, eq, why := snapshotOne(sc)
			if !p || !eq {
				notes = append(notes, sc.name+": "+why)
			}
			rec.Emit("snapshot", "name", sc.name, "parses", p, "equal", eq)
			c.Eval("snapshot:" + sc.name)
		}
		okR = append(okR, &Run{})
		okS = append(okS, &Result{Events: strings.Split(strings.TrimRight(string(rec.Bytes()), "\n"), "\n"), Notes: notes})
	}
	// Observations that are exactly a recorded finding (a multipart file part that is not valid
	// UTF-8 changes in the JSON round trip) are reported here and put right before validation:
	// in a long run there are hundreds of them, and each would cost a validation round.
	const mpWhy = "the value of a multipart file part that is not valid UTF-8"
	for i, r := range okS {
		for k, ev := range r.Events {
			if strings.Contains(ev, `"ev":"har"`) && strings.Contains(ev, `"jsonOK":false`) && strings.Contains(ev, `"jsonWhy":"`+mpWhy) &&
				field(ev, "postOK") == "true" && field(ev, "contentOK") == "true" && field(ev, "fieldsOK") == "true" {
				if id == "C16" {
					c.Violation("HAR entry does not survive the JSON round trip: "+mpWhy, fmt.Sprintf("run %s; observation %s", describeRun(okR[i]), ev), nil)
				}
				r.Events[k] = strings.Replace(strings.Replace(ev, `"jsonOK":false`, `"jsonOK":true`, 1), `"jsonWhy":"`+mpWhy, `"jsonWhy":"`, 1)
			}
		}
	}
	seenSig := map[string]bool{}
	for _, r := range validate(c, okR, okS, "log") {
		if r.class() != id {
			c.Extra("rejections_of_sibling_property", true)
			continue
		}
		sig := r.signature()
		if seenSig[sig] {
			continue
		}
		seenSig[sig] = true
		c.Violation(sig, fmt.Sprintf("run %s; first unmatched observation %s; notes %v", describeRun(r.run), r.at, clipNotes(r.res.Notes, 8)),
			map[string]interface{}{"run": describeRun(r.run), "events": r.res.Events, "notes": r.res.Notes})
	}
}

func clipNotes(n []string, k int) []string {
	if len(n) > k {
		return n[:k]
	}
	return n
}

var _ = ep.H{}
