package h2x

import (
	"fmt"
	"math/rand"
	"os"
	"path/filepath"
	"strings"
	"sync"
	"time"

	"verif/harness/core"
)

func mcCfg(maxPer, maxGrant int, initWin string, kinds string, cont, enc, cred bool, deltas string) string {
	b := func(x bool) string {
		if x {
			return "TRUE"
		}
		return "FALSE"
	}
	return fmt.Sprintf("SPECIFICATION Spec\nCONSTANTS\n  Streams = {1, 3}\n  MaxPerStream = %d\n  DataSizes = {1}\n  Pads = {0, 1}\n  InitWin = %s\n  ConnInit = 2\n  Grants = {1}\n  MaxGrant = %d\n  OutCap = 2\n  SettingsDeltas = %s\n  Ctls = {}\n  Kinds = %s\n  ContForcesES = %s\n  EncodeAtEnqueue = %s\n  CreditPayloadOnly = %s\n"+
		"INVARIANTS PerStreamFaithful HpackOrder NeverExceedsGrant Conservation CreditExact NoStrand ControlForwarded\nPROPERTIES SpendWithinGrant\n",
		maxPer, initWin, maxGrant, deltas, kinds, b(cont), b(enc), b(cred))
}

// Check runs the shared C08/C09 machinery and reports the rejections of class id.
func Check(c *core.Ctx, id string) {
	c.Describe(
		"TLC model-checks H2Relay.tla (one relay direction: source frames, per-stream output buffers, bounded output channel, writer, receiver grants in flight, credit returned) for PerStreamFaithful, HpackOrder, NeverExceedsGrant/SpendWithinGrant, Conservation, CreditExact, NoStrand, ControlForwarded, and shows that each deviation constant (ContForcesES, EncodeAtEnqueue, CreditPayloadOnly) violates its invariant. Simulated behaviours become frame scripts (HEADERS with and without priority, split over CONTINUATION, DATA with and without padding, trailers, RST_STREAM, PRIORITY, PUSH_PROMISE, SETTINGS, PING) for both directions of a live session through h2.Config.Proxy: an in-memory (loopback TCP) client whose writes are cut into small pieces (the 24-byte preface too) and a TLS h2 server the relay dials, each with its own HPACK encoder/decoder, byte ledgers per stream and a reader that never stops draining. Receivers start with a small initial window (1 unit; units of 1, 100 and 5000 bytes) and grant credit as in the behaviour; finally all windows are opened wide. TLC validates each direction against H2RelayTrace (the relay's own steps are silent): per-stream order, END_STREAM position, decoded header fields, DATA bytes, priorities and reset codes, control frames, releases within granted credit, credit equal to the flow-controlled length accepted, nothing stranded at quiescence. Non-trivial = scripts with a blocked DATA frame, a split header block, padding or trailers.",
		"H2Relay.tla invariants and the action property SpendWithinGrant checked by TLC (three deviation runs must fail); binding: behaviours -> live relay sessions -> traces validated by TLC per direction.",
		false,
		"DATA frames stay below the peers' maximum frame size, so the relay forwards them unsplit",
		"after a SETTINGS change of the initial window the harness lets the session quiesce before sending more DATA")
	// exhaustive reference + deviations
	type run struct {
		name string
		cfg  string
		want string
	}
	all := `{"H", "D", "R", "P"}`
	runs := []run{
		{"h2_ref", mcCfg(2, 2, "1", all, false, false, false, "{}"), ""},
		{"h2_dev_cont", mcCfg(2, 1, "1", all, true, false, false, "{}"), "PerStreamFaithful"},
		{"h2_dev_enc", mcCfg(3, 1, "0", `{"H", "D"}`, false, true, false, "{}"), "HpackOrder"},
		{"h2_dev_credit", mcCfg(2, 1, "1", all, false, false, true, "{}"), "CreditExact"},
	}
	if c.Thorough() {
		// measured: (2, 2, {1}) 4.5 M states in 70 s; (3, 1, {}) 28 M states in 6 min; (3, 2, {1}) does not finish in 25 min
		runs[0].cfg = mcCfg(2, 2, "1", all, false, false, false, "{1}")
		runs = append(runs, run{"h2_ref_long", mcCfg(3, 1, "1", all, false, false, false, "{}"), ""})
	}
	for _, r := range runs {
		os.WriteFile(filepath.Join(c.Work, r.name+".cfg"), []byte(r.cfg), 0o644)
		res, err := core.RunTLC(c.Work, core.TLCOpts{Module: "H2Relay", Cfg: r.name + ".cfg", Workers: 14, Timeout: 40 * time.Minute, Heap: "12g"})
		if err != nil || res.Infra() {
			c.Inconclusive("TLC on H2Relay (%s) failed: %v %s", r.name, err, res.Tail(20))
			return
		}
		if r.want == "" {
			if !res.OK() {
				c.Inconclusive("H2Relay reference model violates %s", res.Violated)
				return
			}
			c.Model(res)
		} else if res.Violated != r.want {
			c.Inconclusive("self-test: deviation %s expected to violate %s, TLC reported %q", r.name, r.want, res.Violated)
			return
		} else {
			c.Extra("deviation_"+r.name, res.Violated)
		}
	}
	behs, err := SimRelay(c, "h2_sim", c.Pick(260, 3000), all)
	if err != nil {
		c.Inconclusive("%v", err)
		return
	}
	srv, err := NewServer()
	if err != nil {
		c.Inconclusive("h2 server: %v", err)
		return
	}
	defer srv.L.Close()
	rng := rand.New(rand.NewSource(c.Seed))
	var scs []*Scenario
	seen := map[string]int{}
	for i := 0; i+1 < len(behs); i += 2 {
		unit := []int{1, 100, 5000}[(i/2)%3]
		up, ku := Script(behs[i], "c", "s", unit, rng)
		down, kd := Script(behs[i+1], "s", "c", unit, rng)
		key := ku + "|" + kd
		if len(up)+len(down) == 0 || seen[key] > 0 {
			continue
		}
		seen[key]++
		sc := &Scenario{Up: up, Down: down, Key: key, Unit: unit, Dribble: []int{0, 1, 3, 7, 50}[rng.Intn(5)], PrefacePieces: 1 + rng.Intn(3), Push: rng.Intn(4) == 0}
		scs = append(scs, sc)
	}
	scs = append(scs, Directed()...)
	outs := make([]*Outcome, len(scs))
	sem := make(chan struct{}, 8)
	var wg sync.WaitGroup
	for i, sc := range scs {
		wg.Add(1)
		sem <- struct{}{}
		go func(i int, sc *Scenario) {
			defer wg.Done()
			defer func() { <-sem }()
			outs[i] = Run(sc, srv, c.Seed*100000+int64(i))
		}(i, sc)
	}
	wg.Wait()
	var good []*Outcome
	for i, o := range outs {
		if o.Err != "" {
			if strings.Contains(o.Err, "preface") || strings.Contains(o.Err, "relay ended before") {
				if id == "C08" {
					c.Violation("session could not be established: preface delivered in several pieces",
						fmt.Sprintf("preface written in %d pieces: %s", o.Sc.PrefacePieces, o.Err), map[string]interface{}{"preface_pieces": o.Sc.PrefacePieces})
				}
				continue
			}
			c.Inconclusive("session %d: %s", i, o.Err)
			continue
		}
		good = append(good, o)
		nt := ""
		if strings.Contains(o.Sc.Key, "g") || strings.Contains(o.Sc.Key, "H") || o.Sc.Ordered {
			nt = o.Sc.Key
		}
		c.Eval(nt)
		if i%40 == 0 || o.Sc.Ordered {
			c.Sample(map[string]interface{}{"up": fmt.Sprint(o.Sc.Up), "down": fmt.Sprint(o.Sc.Down), "unit_bytes": o.Sc.Unit, "write_piece": o.Sc.Dribble, "preface_pieces": o.Sc.PrefacePieces, "push_promise": o.Sc.Push})
		}
	}
	c.Trace(len(good))
	if id == "C08" {
		pushContinuation(c, srv)
	}
	for _, r := range Validate(c, good, "h2") {
		if !strings.Contains(r.Class(), id) {
			c.Extra("rejections_of_sibling_property", true)
			continue
		}
		// a rejection counts only when the same session, run again on its own, is rejected the
		// same way: the quiescence checkpoints are the one place where timing could play a part
		confirmed := false
		for try := 0; try < 3 && !confirmed; try++ {
			o2 := Run(r.Out.Sc, srv, c.Seed*100000+int64(7919*(try+1)))
			if o2.Err != "" {
				continue
			}
			for _, r2 := range Validate(c, []*Outcome{o2}, fmt.Sprintf("h2confirm%d", try)) {
				if r2.Signature() == r.Signature() {
					confirmed = true
				}
			}
		}
		if !confirmed {
			c.Inconclusive("a rejected session (%s) was accepted when run again: %s", r.Signature(), r.At)
			continue
		}
		c.Violation(r.Signature(), fmt.Sprintf("%s direction of a relay session is not a behaviour of H2Relay (%s); first unmatched event: %s; notes: %v; script up=%v down=%v unit=%d; events: %v",
			r.Dir, r.Violated, r.At, r.Out.Notes, r.Out.Sc.Up, r.Out.Sc.Down, r.Out.Sc.Unit, clipLines(r.Lines, 40)),
			map[string]interface{}{"up": fmt.Sprint(r.Out.Sc.Up), "down": fmt.Sprint(r.Out.Sc.Down), "events": r.Lines, "notes": r.Out.Notes})
	}
}

// Directed scenarios: whole sessions in a fixed order, for the corners a random walk reaches
// rarely (unit = 100 bytes: both endpoints start with a 100-byte initial stream window).
func Directed() []*Scenario {
	c := func(k string, s uint32) Op { return Op{Who: "c", Kind: k, S: s, Frags: 1} }
	sv := func(k string, s uint32) Op { return Op{Who: "s", Kind: k, S: s, Frags: 1} }
	with := func(o Op, f func(*Op)) Op { f(&o); return o }
	n := func(v int) func(*Op) { return func(o *Op) { o.N = v } }
	es := func(o *Op) { o.ES = true }
	settle := Op{Who: "-", Kind: "settle"}
	mk := func(name string, ops ...Op) *Scenario {
		return &Scenario{Name: name, Key: "directed:" + name, Unit: 100, PrefacePieces: 1, Ordered: true, Up: ops}
	}
	return []*Scenario{
		// DATA blocked by the stream window, its trailers queued behind it, then another
		// stream's header block: blocks must reach the server in the order they were encoded
		mk("trailers-behind-blocked-data",
			c("H", 1), with(c("D", 1), n(150)), with(c("H", 1), es), with(c("H", 3), es), settle,
			with(sv("WU", 1), n(200)), settle),
		// RST_STREAM queued behind blocked DATA arrives after it
		mk("reset-behind-blocked-data",
			c("H", 1), with(c("D", 1), n(150)), c("R", 1), with(c("H", 3), es), settle,
			with(sv("WU", 1), n(200)), settle),
		// a continued block with priority, then a continued block without
		mk("continuation-with-then-without-priority",
			with(c("H", 1), func(o *Op) { o.Prio = true; o.Frags = 2; o.ES = true }),
			with(c("H", 3), func(o *Op) { o.Frags = 2; o.ES = true }), settle,
			with(sv("H", 1), func(o *Op) { o.Prio = true; o.Frags = 3 }), with(sv("H", 3), func(o *Op) { o.Frags = 2 }), settle),
		// the receiver lowers its initial window below what is in flight: the stream window is
		// negative, and a later WINDOW_UPDATE must first make up for that
		mk("settings-decrease-below-in-flight",
			c("H", 1), with(c("D", 1), n(100)), settle,
			with(sv("SET", 0), n(40)), settle,
			with(c("D", 1), n(100)), settle,
			with(sv("WU", 1), n(100)), settle,
			with(sv("WU", 1), n(60)), settle),
		// credit for a stream arrives before the relay has forwarded anything on it
		mk("window-update-before-first-frame",
			with(c("H", 1), es), with(c("WU", 1), n(200)), settle,
			sv("H", 1), with(sv("D", 1), n(100)), with(sv("D", 1), n(100)), with(sv("D", 1), func(o *Op) { o.N = 100; o.ES = true }), settle),
		// a zero window replenished one byte at a time
		mk("zero-window-byte-by-byte",
			with(sv("SET", 0), n(0)), settle,
			c("H", 1), with(c("D", 1), func(o *Op) { o.N = 3; o.ES = true }), settle,
			with(sv("WU", 1), n(1)), with(sv("WU", 1), n(1)), settle,
			with(sv("WU", 1), n(1)), settle),
		// padded DATA on two streams with the connection window as the bottleneck
		mk("padded-data-two-streams",
			c("H", 1), c("H", 3), with(c("D", 1), func(o *Op) { o.N = 60; o.Pad = 30 }), with(c("D", 3), func(o *Op) { o.N = 70; o.Pad = 25 }), settle,
			with(sv("WU", 0), n(10)), with(sv("WU", 1), n(100)), with(sv("WU", 3), n(100)), settle,
			with(c("D", 1), func(o *Op) { o.N = 90; o.Pad = 5; o.ES = true }), with(c("D", 3), func(o *Op) { o.N = 90; o.ES = true }), settle),
	}
}

func clipLines(ls []string, n int) []string {
	if len(ls) > n {
		return ls[:n]
	}
	return ls
}

// pushContinuation: a PUSH_PROMISE whose header block continues in a CONTINUATION frame.
func pushContinuation(c *core.Ctx, srv *Server) {
	if !c.Want("down: PUSH_PROMISE") {
		return
	}
	sc := &Scenario{Key: "push-promise+continuation", Unit: 100, PrefacePieces: 1,
		Up:   []Op{{Who: "c", Kind: "H", S: 1, Frags: 1}},
		Down: []Op{{Who: "-", Kind: "wait"}, {Who: "s", Kind: "H", S: 1, Frags: 1}, {Who: "s", Kind: "PP", S: 1, N: 2, Frags: 2}, {Who: "s", Kind: "D", S: 1, N: 50, ES: true}}}
	o := Run(sc, srv, c.Seed)
	if o.Err != "" {
		c.Inconclusive("push-promise scenario: %s", o.Err)
		return
	}
	c.Eval("push-promise+continuation")
	for _, r := range Validate(c, []*Outcome{o}, "h2pp") {
		c.Violation("down: PUSH_PROMISE continued by CONTINUATION is not relayed (session aborts)",
			fmt.Sprintf("first unmatched event: %s; events: %v; notes: %v", r.At, r.Lines, o.Notes), map[string]interface{}{"events": r.Lines})
		return
	}
}
