package h2x

import (
	"fmt"
	"math/rand"
	"net"
	"net/url"
	"os"
	"path/filepath"
	"sort"
	"strings"
	"sync"
	"time"

	"github.com/google/martian/v3/h2"
	"golang.org/x/net/http2"
	"golang.org/x/net/http2/hpack"

	"verif/harness/core"
)

// Op is one scripted step of a session.
type Op struct {
	Who   string // c | s | - (harness)
	Kind  string // H | D | R | P | PP | WU | SET | PING | GOAWAY | wait
	S     uint32
	ES    bool
	N     int // DATA bytes / WINDOW_UPDATE increment / new initial window (SET)
	Pad   int
	Frags int
	Prio  bool
}

func (o Op) String() string {
	return fmt.Sprintf("%s:%s(s=%d es=%v n=%d pad=%d frags=%d prio=%v)", o.Who, o.Kind, o.S, o.ES, o.N, o.Pad, o.Frags, o.Prio)
}

// Session is a live relay between a harness client and a harness TLS server.
type Session struct {
	C, S      *Endpoint
	Rec       *core.Recorder
	Closing   chan bool
	ProxyDone chan error
	Returned  time.Time
	mu        sync.Mutex
	sconn     net.Conn
	rawClient net.Conn
	ProxySide net.Conn // the connection handed to Config.Proxy
	iw        map[string]int // current initial window announced by each endpoint
	hdrN      int
}

// Start builds a session: a loopback pair for the client side, h2.Config.Proxy in a goroutine
// dialling the TLS server, the preface written in prefacePieces pieces.
func Start(rec *core.Recorder, srv *Server, dribblePiece, prefacePieces int, factories ...h2.StreamProcessorFactory) (*Session, error) {
	return StartWrapped(rec, srv, dribblePiece, prefacePieces, nil, factories...)
}

// StartWrapped is Start with the connection handed to Config.Proxy wrapped by wrap (fault injection).
func StartWrapped(rec *core.Recorder, srv *Server, dribblePiece, prefacePieces int, wrap func(net.Conn) net.Conn, factories ...h2.StreamProcessorFactory) (*Session, error) {
	cside, pside, err := Pair()
	if err != nil {
		return nil, err
	}
	if wrap != nil {
		pside = wrap(pside)
	}
	cfg := &h2.Config{RootCAs: srv.Roots, StreamProcessorFactories: factories}
	s := &Session{Rec: rec, Closing: make(chan bool), ProxyDone: make(chan error, 1), rawClient: cside, ProxySide: pside, iw: map[string]int{"c": 65535, "s": 65535}}
	u := &url.URL{Scheme: "https", Host: srv.L.Addr().String(), Path: "/"}
	srv.Mu.Lock()
	defer srv.Mu.Unlock()
	go func() {
		err := cfg.Proxy(s.Closing, pside, u)
		s.mu.Lock()
		s.Returned = time.Now()
		s.mu.Unlock()
		s.ProxyDone <- err
	}()
	// the preface, possibly in several writes
	if prefacePieces < 1 {
		prefacePieces = 1
	}
	step := len(Preface) / prefacePieces
	for i := 0; i < prefacePieces; i++ {
		lo, hi := i*step, (i+1)*step
		if i == prefacePieces-1 {
			hi = len(Preface)
		}
		if _, err := cside.Write(Preface[lo:hi]); err != nil {
			return nil, err
		}
		if prefacePieces > 1 {
			time.Sleep(3 * time.Millisecond)
		}
	}
	select {
	case sc := <-srv.Conns:
		s.sconn = sc
	case err := <-s.ProxyDone:
		s.ProxyDone <- err
		return nil, fmt.Errorf("relay ended before reaching the server: %v", err)
	case <-time.After(3 * time.Second):
		return nil, fmt.Errorf("the relay did not dial the server")
	}
	// the server reads the forwarded preface
	buf := make([]byte, len(Preface))
	s.sconn.SetReadDeadline(time.Now().Add(3 * time.Second))
	if _, err := readFull(s.sconn, buf); err != nil || string(buf) != string(Preface) {
		return nil, fmt.Errorf("server did not receive the preface: %q %v", buf, err)
	}
	s.sconn.SetReadDeadline(time.Time{})
	s.C = NewEndpoint("c", Dribble(cside, dribblePiece), rec)
	s.S = NewEndpoint("s", s.sconn, rec)
	go s.C.Reader()
	go s.S.Reader()
	return s, nil
}

func readFull(c net.Conn, b []byte) (int, error) {
	n := 0
	for n < len(b) {
		m, err := c.Read(b[n:])
		n += m
		if err != nil {
			return n, err
		}
	}
	return n, nil
}

// Close tears the session down.
func (s *Session) Close() {
	s.rawClient.Close()
	if s.sconn != nil {
		s.sconn.Close()
	}
	select {
	case <-s.Closing:
	default:
		close(s.Closing)
	}
}

func (s *Session) ep(who string) (*Endpoint, *Endpoint) {
	if who == "c" {
		return s.C, s.S
	}
	return s.S, s.C
}

// fieldsFor builds a header field list that exercises the HPACK dynamic table.
func (s *Session) fieldsFor(who string, stream uint32, trailer bool) []hpack.HeaderField {
	s.hdrN++
	if trailer {
		return []hpack.HeaderField{{Name: "x-trailer-unique", Value: fmt.Sprintf("tval-%d", s.hdrN)}, {Name: "grpc-status", Value: "0"}}
	}
	if who == "c" {
		return []hpack.HeaderField{{Name: ":method", Value: "POST"}, {Name: ":scheme", Value: "https"}, {Name: ":path", Value: fmt.Sprintf("/svc/m%d", stream)},
			{Name: ":authority", Value: "example.test"}, {Name: "x-one", Value: "1"}, {Name: fmt.Sprintf("x-unique-%d", s.hdrN), Value: strings.Repeat("v", 10+s.hdrN%7)}}
	}
	return []hpack.HeaderField{{Name: ":status", Value: "200"}, {Name: "x-one", Value: "1"}, {Name: fmt.Sprintf("x-unique-%d", s.hdrN), Value: strings.Repeat("w", 5+s.hdrN%9)}}
}

// Do performs one operation.
func (s *Session) Do(o Op, opened map[string]map[uint32]bool, rng *rand.Rand) error {
	me, peer := s.ep(o.Who)
	switch o.Kind {
	case "H":
		trailer := opened[o.Who][o.S]
		f := s.fieldsFor(o.Who, o.S, trailer)
		opened[o.Who][o.S] = true
		peer.ExpectHeaders(o.S, f)
		return me.Headers(o.S, f, o.ES, o.Prio, o.Frags)
	case "PP":
		f := []hpack.HeaderField{{Name: ":method", Value: "GET"}, {Name: ":scheme", Value: "https"}, {Name: ":path", Value: fmt.Sprintf("/pushed/%d", o.N)}, {Name: ":authority", Value: "example.test"}}
		peer.ExpectHeaders(uint32(o.N), f)
		return me.PushPromise(o.S, uint32(o.N), f, o.Frags)
	case "D":
		b := make([]byte, o.N)
		rng.Read(b)
		peer.ExpectData(o.S, b)
		return me.Data(o.S, b, o.ES, o.Pad)
	case "R":
		return me.Rst(o.S)
	case "P":
		return me.Priority(o.S)
	case "WU":
		return me.WindowUpdate(o.S, uint32(o.N))
	case "SET":
		delta := o.N - s.iw[o.Who]
		s.iw[o.Who] = o.N
		return me.Settings(delta, http2.Setting{ID: http2.SettingInitialWindowSize, Val: uint32(o.N)})
	case "PING":
		var d [8]byte
		rng.Read(d[:])
		return me.Ping(false, d)
	case "GOAWAY":
		return me.GoAway(o.S, http2.ErrCodeNo, "bye")
	case "wait":
		s.Quiesce(60*time.Millisecond, 3*time.Second)
	case "settle":
		// a checkpoint: when nothing has moved for a while, everything the windows allow must
		// have arrived
		time.Sleep(60 * time.Millisecond)
		if s.Quiesce(120*time.Millisecond, 4*time.Second) {
			s.Rec.Emit("quiet", "dir", "up")
			s.Rec.Emit("quiet", "dir", "down")
		}
	}
	return nil
}

// Quiesce waits until neither endpoint has received anything for `quiet`.
func (s *Session) Quiesce(quiet, max time.Duration) bool {
	deadline := time.Now().Add(max)
	time.Sleep(quiet / 2)
	for time.Now().Before(deadline) {
		if s.C.Quiet() >= quiet && s.S.Quiet() >= quiet {
			return true
		}
		time.Sleep(5 * time.Millisecond)
	}
	return false
}

// ---- scenarios from H2Relay behaviours

// SimRelay asks TLC for behaviours of H2Relay with small constants.
func SimRelay(c *core.Ctx, name string, n int, kinds string) ([][]core.Step, error) {
	cfg := "SPECIFICATION Spec\nCONSTANTS\n  Streams = {1, 3}\n  MaxPerStream = 4\n  DataSizes = {1, 2}\n  Pads = {0, 2}\n  InitWin = 1\n  ConnInit = 3\n  Grants = {1, 2}\n  MaxGrant = 4\n  OutCap = 2\n" +
		"  SettingsDeltas = {1}\n  Ctls = {\"PING\", \"SET\"}\n  Kinds = " + kinds + "\n  ContForcesES = FALSE\n  EncodeAtEnqueue = FALSE\n  CreditPayloadOnly = FALSE\n"
	os.WriteFile(filepath.Join(c.Work, name+".cfg"), []byte(cfg), 0o644)
	base := filepath.Join(c.Work, name+"_sim")
	res, err := core.RunTLC(c.Work, core.TLCOpts{Module: "H2Relay", Cfg: name + ".cfg", Workers: 1, Timeout: 10 * time.Minute,
		Args: []string{"-simulate", fmt.Sprintf("file=%s,num=%d", base, n), "-depth", "40", "-seed", fmt.Sprint(c.Seed)}})
	if err != nil {
		return nil, err
	}
	if res.Infra() || res.Violated != "" {
		return nil, fmt.Errorf("simulation of H2Relay failed: %s", res.Tail(20))
	}
	files, _ := filepath.Glob(base + "_*")
	sort.Strings(files)
	var out [][]core.Step
	for _, f := range files {
		st, err := core.ParseSimFile(f)
		os.Remove(f)
		if err == nil {
			out = append(out, st)
		}
	}
	return out, nil
}

// Script turns one behaviour into the operations of one direction: the source's frames and
// the destination's grants, with waits where the model let the relay catch up.
func Script(steps []core.Step, src, dst string, unit int, rng *rand.Rand) (ops []Op, key string) {
	var k []string
	// TLC labels steps whose parameters come from a state-dependent set only as "Next": the
	// frames the source wrote are recovered from the growth of `sent` / `ctlSent` between states
	count := func(st core.State) (map[int]int, int) {
		m := map[int]int{}
		sv := st["sent"]
		for i, e := range sv.Elems { // function over {1,3} prints as a tuple only when the domain is 1..n
			m[i+1] = e.Len()
		}
		for _, p := range sv.Pairs {
			m[p[0].Int()] = p[1].Len()
		}
		return m, st["ctlSent"].Len()
	}
	frameAt := func(st core.State, s, i int) core.Val {
		sv := st["sent"]
		for _, p := range sv.Pairs {
			if p[0].Int() == s {
				return p[1].Elems[i-1]
			}
		}
		return sv.Elems[s-1].Elems[i-1]
	}
	nsrc := 0
	var prev core.State
	for _, st := range steps {
		if prev != nil {
			pc, _ := count(prev)
			cc, _ := count(st.State)
			for s, n := range cc {
				nsrc += n - pc[s]
			}
		}
		prev = st.State
	}
	if nsrc < 2 {
		return nil, ""
	}
	prev = nil
	for _, st := range steps {
		if prev != nil {
			pc, pctl := count(prev)
			cc, cctl := count(st.State)
			for s, n := range cc {
				if n > pc[s] {
					f := frameAt(st.State, s, n)
					o := Op{Who: src, Kind: f.Get("k").S, S: uint32(s), ES: f.Get("es").B, Prio: f.Get("prio").B}
					switch o.Kind {
					case "D":
						o.N = f.Get("n").Int() * unit
						if p := f.Get("pad").Int(); p > 0 {
							o.Pad = p*unit - 1
							if o.Pad > 255 {
								o.Pad = 255
							}
							if o.Pad < 1 {
								o.Pad = 1
							}
						}
					case "H":
						o.Frags = 1
						if f.Get("cont").B {
							o.Frags = 2 + rng.Intn(2)
						}
					}
					ops = append(ops, o)
					k = append(k, fmt.Sprintf("%s%d%v", o.Kind, o.S, o.ES))
				}
			}
			if cctl > pctl && st.State["ctlSent"].Elems[cctl-1].S == "PING" {
				ops = append(ops, Op{Who: src, Kind: "PING"})
				k = append(k, "ping")
			}
		}
		prev = st.State
		switch st.Action {
		case "DstGrant":
			ops = append(ops, Op{Who: dst, Kind: "WU", S: uint32(st.Args[0].Int()), N: st.Args[1].Int() * unit})
			k = append(k, fmt.Sprintf("g%d+%d", st.Args[0].Int(), st.Args[1].Int()))
		case "DstSettings":
			ops = append(ops, Op{Who: dst, Kind: "SETDELTA", N: st.Args[0].Int() * unit}, Op{Who: "-", Kind: "wait"})
			k = append(k, "set")
		case "WriterSend":
			// the model delivered something: occasionally let the real relay catch up too
			if len(st.State["out"].Elems) == 0 && len(st.State["pipe"].Elems) == 0 && rng.Intn(3) == 0 {
				ops = append(ops, Op{Who: "-", Kind: "wait"})
				k = append(k, "w")
			}
		}
	}
	return ops, strings.Join(k, ",")
}
