package h2x

import (
	"encoding/json"
	"fmt"
	"math/rand"
	"os"
	"path/filepath"
	"strings"
	"time"

	"verif/harness/core"
)

// Scenario is a bidirectional session script.
type Scenario struct {
	Up, Down      []Op
	Key           string
	Unit          int
	Dribble       int
	PrefacePieces int
	Push          bool
	Ordered       bool // Up holds the whole session in order (a directed scenario); no merging
	Name          string
}

// Outcome of one scenario.
type Outcome struct {
	Sc    *Scenario
	Lines map[string][]string // per direction
	Notes []string
	Err   string
}

func merge(up, down []Op, rng *rand.Rand) []Op {
	var out []Op
	i, j := 0, 0
	opened := map[uint32]bool{}
	for i < len(up) || j < len(down) {
		takeUp := j >= len(down) || (i < len(up) && rng.Intn(2) == 0)
		if takeUp {
			o := up[i]
			i++
			if o.Kind == "H" {
				opened[o.S] = true
			}
			out = append(out, o)
			continue
		}
		o := down[j]
		if o.S != 0 && o.Who == "s" && !opened[o.S] && (o.Kind == "H" || o.Kind == "D" || o.Kind == "R" || o.Kind == "P" || o.Kind == "PP") {
			// the client must have opened the stream first: pull its opening HEADERS forward
			found := false
			for k := i; k < len(up); k++ {
				if up[k].Kind == "H" && up[k].S == o.S && up[k].Who == "c" {
					out = append(out, up[k])
					up = append(append([]Op{}, up[:k]...), up[k+1:]...)
					found = true
					break
				}
			}
			if !found {
				out = append(out, Op{Who: "c", Kind: "H", S: o.S, Frags: 1})
			}
			opened[o.S] = true
		}
		j++
		out = append(out, o)
	}
	return out
}

// Run executes one scenario and returns its events split by direction.
func Run(sc *Scenario, srv *Server, seed int64) *Outcome {
	rec := &core.Recorder{}
	out := &Outcome{Sc: sc, Lines: map[string][]string{}}
	rng := rand.New(rand.NewSource(seed))
	s, err := Start(rec, srv, sc.Dribble, sc.PrefacePieces)
	if err != nil {
		out.Err = err.Error()
		return out
	}
	defer s.Close()
	rec.Emit("newrun", "dir", "up", "iw", 65535, "cw", 65535)
	rec.Emit("newrun", "dir", "down", "iw", 65535, "cw", 65535)
	opened := map[string]map[uint32]bool{"c": {}, "s": {}}
	iw := sc.Unit
	// both endpoints announce a small initial window before anything else
	s.Do(Op{Who: "s", Kind: "SET", N: iw}, opened, rng)
	s.Do(Op{Who: "c", Kind: "SET", N: iw}, opened, rng)
	s.Quiesce(60*time.Millisecond, 3*time.Second)
	var ops []Op
	if sc.Ordered {
		ops = append(ops, sc.Up...)
	} else {
		ops = merge(append([]Op{}, sc.Up...), append([]Op{}, sc.Down...), rng)
	}
	usedS := map[uint32]bool{}
	heldWU := map[uint32][]Op{}
	pushed := false
	for _, o := range ops {
		if o.Kind == "SETDELTA" {
			o = Op{Who: o.Who, Kind: "SET", N: s.iw[o.Who] + o.N}
		}
		if o.S != 0 {
			usedS[o.S] = true
		}
		if o.Kind == "WU" && o.S != 0 && !opened["c"][o.S] {
			// WINDOW_UPDATE on an idle stream is a protocol error: keep it until the client has opened the stream
			heldWU[o.S] = append(heldWU[o.S], o)
			continue
		}
		if err := s.Do(o, opened, rng); err != nil {
			out.Notes = append(out.Notes, fmt.Sprintf("%v: %v", o, err))
			break
		}
		if o.Kind == "H" && o.Who == "c" {
			for _, w := range heldWU[o.S] {
				s.Do(w, opened, rng)
			}
			delete(heldWU, o.S)
		}
		if sc.Push && !pushed && o.Who == "s" && o.Kind == "H" && !o.ES {
			// the server promises a pushed stream on an open client stream
			pushed = true
			if err := s.Do(Op{Who: "s", Kind: "PP", S: o.S, N: 2, Frags: 1}, opened, rng); err != nil {
				out.Notes = append(out.Notes, err.Error())
			}
		}
	}
	s.Do(Op{Who: "-", Kind: "settle"}, opened, rng)
	// finally open every window wide: whatever was held back by flow control must now arrive
	for _, who := range []string{"c", "s"} {
		s.Do(Op{Who: who, Kind: "WU", S: 0, N: 1 << 24}, opened, rng)
		for st := range usedS {
			if !opened["c"][st] {
				continue
			}
			s.Do(Op{Who: who, Kind: "WU", S: st, N: 1 << 24}, opened, rng)
		}
	}
	s.Quiesce(100*time.Millisecond, 4*time.Second)
	rec.Emit("end", "dir", "up")
	rec.Emit("end", "dir", "down")
	out.Notes = append(append(out.Notes, s.C.Notes...), s.S.Notes...)
	for _, l := range strings.Split(strings.TrimRight(string(rec.Bytes()), "\n"), "\n") {
		var ev struct {
			Dir string `json:"dir"`
		}
		json.Unmarshal([]byte(l), &ev)
		if ev.Dir != "" {
			out.Lines[ev.Dir] = append(out.Lines[ev.Dir], l)
		}
	}
	return out
}

// Rejection is a direction of a scenario that TLC rejected.
type Rejection struct {
	Out      *Outcome
	Dir      string
	At       string // first unmatched event
	Violated string // invariant or property TLC reported, if any
	Lines    []string
	// Missing: at quiescence frames had not arrived (the trace is rejected even without the credit conjuncts)
	Missing bool
}

// Class tells which properties a rejection belongs to: "C08" (faithful delivery), "C09" (flow
// control), or "C08 C09" when frames are missing at quiescence (lost for C08, stranded for C09).
func (r Rejection) Class() string {
	switch {
	case r.Violated == "SpendWithinGrant" || r.Violated == "Conservation" || r.Violated == "NeverExceedsGrant":
		return "C09"
	case r.Violated != "":
		return "C08"
	case strings.Contains(r.At, `"ev":"credit"`) || strings.Contains(r.At, `"ev":"grant"`) || strings.Contains(r.At, `"ev":"settings"`):
		return "C09"
	case strings.Contains(r.At, `"ev":"end"`) || strings.Contains(r.At, `"ev":"quiet"`):
		if r.missingFrames() {
			return "C08 C09"
		}
		return "C09"
	case strings.Contains(r.At, `"ev":"dst"`) && strings.Contains(r.At, `"k":"D"`) && strings.Contains(r.At, `"ok":true`) && r.dataInOrder():
		// the DATA frame the stream expected next arrived intact, but the windows did not allow it
		return "C09"
	}
	return "C08"
}

// missingFrames: fewer stream frames had been delivered than were sent when the rejected event was logged.
func (r Rejection) missingFrames() bool { return r.Missing }

// dataInOrder: the rejected dst event is the frame its stream expected next (same kind, size, END_STREAM).
func (r Rejection) dataInOrder() bool {
	s := field(r.At, "s")
	var sent, got []string
	sig := func(l string) string { return field(l, "k") + "/" + field(l, "n") + "/" + field(l, "es") }
	for _, l := range r.Lines {
		if field(l, "s") != s {
			continue
		}
		if strings.Contains(l, `"ev":"src"`) {
			sent = append(sent, sig(l))
		}
		if l == r.At {
			return len(got) < len(sent) && sent[len(got)] == sig(l)
		}
		if strings.Contains(l, `"ev":"dst"`) {
			got = append(got, sig(l))
		}
	}
	return false
}

// Signature names the kind of mismatch.
func (r Rejection) Signature() string {
	at := r.At
	switch {
	case r.Violated != "":
		return r.Dir + ": invariant " + r.Violated
	case strings.Contains(at, `"ev":"dst"`) && strings.Contains(at, `"ok":false`) && strings.Contains(at, `"k":"H"`):
		return r.Dir + ": header block does not decode to the fields that were sent"
	case strings.Contains(at, `"ev":"dst"`) && strings.Contains(at, `"ok":false`):
		return r.Dir + ": frame contents altered (" + field(at, "k") + ")"
	case strings.Contains(at, `"ev":"dst"`) && strings.Contains(at, `"k":"D"`) && r.Class() == "C09":
		return r.Dir + ": DATA released although the receiver's windows did not allow it"
	case strings.Contains(at, `"ev":"dst"`) && strings.Contains(at, `"k":"H"`):
		return r.Dir + ": HEADERS delivered with a different END_STREAM / priority / position than sent"
	case strings.Contains(at, `"ev":"dst"`):
		return r.Dir + ": " + field(at, "k") + " frame delivered out of order, resized or with a different END_STREAM"
	case strings.Contains(at, `"ev":"credit"`):
		return r.Dir + ": more credit returned than the relay accepted"
	case (strings.Contains(at, `"ev":"end"`) || strings.Contains(at, `"ev":"quiet"`)) && r.missingFrames():
		return r.Dir + ": frames accepted by the relay had not arrived at quiescence although the windows allowed them"
	case strings.Contains(at, `"ev":"end"`) || strings.Contains(at, `"ev":"quiet"`):
		return r.Dir + ": not settled at quiescence (credit not equal to the flow-controlled length accepted, or data stranded / frames missing)"
	case strings.Contains(at, `"ev":"dctl"`):
		return r.Dir + ": control frame altered or reordered"
	}
	return r.Dir + ": sequencing at " + field(at, "ev")
}

func field(line, name string) string {
	i := strings.Index(line, `"`+name+`":`)
	if i < 0 {
		return "?"
	}
	rest := line[i+len(name)+3:]
	rest = strings.TrimLeft(rest, `"`)
	for j, ch := range rest {
		if ch == '"' || ch == ',' || ch == '}' {
			return rest[:j]
		}
	}
	return rest
}

// Validate checks every direction of every outcome, cutting out rejected ones.
func Validate(c *core.Ctx, outs []*Outcome, name string) []Rejection {
	type unit struct {
		o     *Outcome
		dir   string
		lines []string
	}
	var units []unit
	for _, o := range outs {
		for _, d := range []string{"up", "down"} {
			if len(o.Lines[d]) > 0 {
				units = append(units, unit{o, d, o.Lines[d]})
			}
		}
	}
	var rej []Rejection
	const group = 40
	for g0 := 0; g0 < len(units); g0 += group {
		g1 := g0 + group
		if g1 > len(units) {
			g1 = len(units)
		}
		alive := map[int]bool{}
		for i := g0; i < g1; i++ {
			alive[i] = true
		}
		for round := 0; round < group+1; round++ {
			var sb strings.Builder
			var owner []int
			for i := g0; i < g1; i++ {
				if !alive[i] {
					continue
				}
				for _, l := range units[i].lines {
					sb.WriteString(l + "\n")
					owner = append(owner, i)
				}
			}
			if len(owner) == 0 {
				break
			}
			path := filepath.Join(c.Work, fmt.Sprintf("%s-%d-%d.ndjson", name, g0, round))
			os.WriteFile(path, []byte(sb.String()), 0o644)
			v, err := core.ValidateTrace(c.Work, "H2RelayTrace", "H2RelayTrace.cfg", path, 10*time.Minute, map[string]string{"H2_CREDIT": "on"})
			if err != nil || v.Infra {
				c.Inconclusive("trace validation (%s) failed to run: %v %s", name, err, v.Res.Tail(25))
				return rej
			}
			if v.Accepted {
				break
			}
			hw := v.HighWater
			if hw < 1 {
				hw = 1
			}
			if hw > len(owner) {
				hw = len(owner)
			}
			i := owner[hw-1]
			alive[i] = false
			pos := 0
			for k := hw - 1; k >= 0 && owner[k] == i; k-- {
				pos++
			}
			at := units[i].lines[pos-1]
			r := Rejection{Out: units[i].o, Dir: units[i].dir, At: at, Violated: v.Violated, Lines: units[i].lines}
			if strings.Contains(at, `"ev":"end"`) || strings.Contains(at, `"ev":"quiet"`) {
				p2 := filepath.Join(c.Work, fmt.Sprintf("%s-%d-%d-nocredit.ndjson", name, g0, round))
				os.WriteFile(p2, []byte(strings.Join(units[i].lines, "\n")+"\n"), 0o644)
				v2, err := core.ValidateTrace(c.Work, "H2RelayTrace", "H2RelayTrace.cfg", p2, 10*time.Minute, map[string]string{"H2_CREDIT": "off"})
				if err != nil || v2.Infra {
					c.Inconclusive("trace validation (%s, credit off) failed to run: %v", name, err)
					return rej
				}
				r.Missing = !v2.Accepted
			}
			rej = append(rej, r)
		}
	}
	return rej
}
