package h2x

import (
	"fmt"
	"net"
	"os"
	"runtime"
	"strings"
	"sync"
	"time"

	"golang.org/x/net/http2"
	"golang.org/x/net/http2/hpack"

	"verif/harness/core"
)

// ---- session termination (C10): environment scripts of H2Session.tla executed on a live relay

// TermStep is one environment action of H2Session.
type TermStep struct {
	Act string `json:"act"` // send | stopdraining | close | wfail | bad | shutdown
	D   string `json:"d,omitempty"`
	C   string `json:"c,omitempty"`
	K   string `json:"k,omitempty"`
	Gap bool   `json:"gap,omitempty"` // let the relay catch up before this step
}

func (t TermStep) String() string {
	switch t.Act {
	case "send":
		return fmt.Sprintf("send(%s,%s)", t.D, t.K)
	case "bad":
		return fmt.Sprintf("bad(%s)", t.D)
	case "shutdown":
		return "shutdown"
	}
	return fmt.Sprintf("%s(%s)", t.Act, t.C)
}

// TermScenario is an environment script.
type TermScenario struct {
	Name    string     `json:"name"`
	Steps   []TermStep `json:"steps"`
	BoundMs int        `json:"bound_ms"`
}

// TermResult is what the harness saw.
type TermResult struct {
	Events       []string `json:"events"`
	Contaminated bool     `json:"contaminated"` // goroutines or descriptors of the session may be left in this process
	Err          string   `json:"err,omitempty"`
	ReturnedMs   int      `json:"returned_ms"`
	Notes        []string `json:"notes,omitempty"`
	Goroutines   string   `json:"goroutines,omitempty"`
}

// FailConn lets writes fail on demand while reads keep blocking.
type FailConn struct {
	net.Conn
	mu   sync.Mutex
	fail bool
}

// Fail makes every write (also one blocked right now) fail from now on.
func (f *FailConn) Fail() {
	f.mu.Lock()
	f.fail = true
	f.mu.Unlock()
	f.Conn.SetWriteDeadline(time.Unix(1, 0))
}

func (f *FailConn) Write(b []byte) (int, error) {
	f.mu.Lock()
	fail := f.fail
	f.mu.Unlock()
	if fail {
		return 0, fmt.Errorf("verif: injected write failure")
	}
	return f.Conn.Write(b)
}

// H2Goroutines counts goroutines that are inside martian's h2 package and returns their stacks.
func H2Goroutines() (int, string) {
	buf := make([]byte, 1<<20)
	for {
		n := runtime.Stack(buf, true)
		if n < len(buf) {
			buf = buf[:n]
			break
		}
		buf = make([]byte, 2*len(buf))
	}
	n := 0
	var keep []string
	for _, g := range strings.Split(string(buf), "\n\n") {
		if strings.Contains(g, "github.com/google/martian/v3/h2.") {
			n++
			keep = append(keep, g)
		}
	}
	return n, strings.Join(keep, "\n\n")
}

// SocketFDs counts the socket descriptors of this process.
func SocketFDs() int {
	ents, err := os.ReadDir("/proc/self/fd")
	if err != nil {
		return -1
	}
	n := 0
	for _, e := range ents {
		if t, err := os.Readlink("/proc/self/fd/" + e.Name()); err == nil && strings.HasPrefix(t, "socket:") {
			n++
		}
	}
	return n
}

func peerOf(d string) string {
	if d == "up" {
		return "down"
	}
	return "up"
}

// RunTerm executes one environment script on a fresh session and observes how it ends. It must
// run alone in its process (it counts goroutines and socket descriptors).
func RunTerm(sc *TermScenario, srv *Server) *TermResult {
	res := &TermResult{}
	g0, _ := H2Goroutines()
	fd0 := SocketFDs()
	tr := &core.Recorder{}
	junk := &core.Recorder{}
	var fc *FailConn
	s, err := StartWrapped(junk, srv, 0, 1, func(c net.Conn) net.Conn { fc = &FailConn{Conn: c}; return fc })
	if err != nil {
		res.Err = err.Error()
		res.Contaminated = true
		return res
	}
	note := func(f string, a ...interface{}) { res.Notes = append(res.Notes, fmt.Sprintf(f, a...)) }
	ep := map[string]*Endpoint{"cc": s.C, "sc": s.S}
	srcOf := map[string]string{"up": "cc", "down": "sc"}
	// both endpoints start with a zero initial stream window: DATA is held by the relay until released
	s.S.Settings(0, http2.Setting{ID: http2.SettingInitialWindowSize, Val: 0})
	s.C.Settings(0, http2.Setting{ID: http2.SettingInitialWindowSize, Val: 0})
	fields := func(id uint32) []hpack.HeaderField {
		return []hpack.HeaderField{{Name: ":method", Value: "POST"}, {Name: ":scheme", Value: "https"}, {Name: ":path", Value: fmt.Sprintf("/t/%d", id)}, {Name: ":authority", Value: "example.test"}}
	}
	// streams 1-7 carry DATA that is held, 9 DATA that is forwarded, 11-19 the server's HEADERS
	for _, id := range []uint32{1, 3, 5, 7, 9, 11, 13, 15, 17, 19} {
		s.S.ExpectHeaders(id, fields(id))
		s.C.Headers(id, fields(id), false, false, 1)
	}
	s.Quiesce(40*time.Millisecond, 2*time.Second)
	// stream 9 carries the DATA that is forwarded: both receivers open its window
	s.S.Fr.WriteWindowUpdate(9, 1<<29)
	s.C.Fr.WriteWindowUpdate(9, 1<<29)
	s.Quiesce(40*time.Millisecond, 2*time.Second)
	tr.Emit("newrun")
	closedByHarness := map[string]bool{}
	paused := map[string]bool{}
	heldq := map[string][]uint32{}
	heldN := map[string]int{}
	nextUp := uint32(21)
	downIdx := 0
	timedWrite := func(c string, f func() error) {
		conn := ep[c].Conn
		conn.SetWriteDeadline(time.Now().Add(250 * time.Millisecond))
		if err := f(); err != nil {
			note("%s write: %v", c, err)
		}
		conn.SetWriteDeadline(time.Time{})
	}
	chunk := make([]byte, 16000)
	shutdown := false
	for _, st := range sc.Steps {
		if st.Gap {
			time.Sleep(25 * time.Millisecond)
		}
		switch st.Act {
		case "send":
			src := srcOf[st.D]
			e := ep[src]
			if closedByHarness[src] {
				continue
			}
			switch st.K {
			case "fwd":
				tr.Emit("send", "d", st.D, "k", "fwd")
				if st.D == "up" {
					id := nextUp
					nextUp += 2
					ep["sc"].ExpectHeaders(id, fields(id))
					timedWrite(src, func() error { return e.Headers(id, fields(id), false, false, 1) })
				} else {
					id := []uint32{11, 13, 15, 17, 19}[downIdx%5]
					downIdx++
					f := []hpack.HeaderField{{Name: ":status", Value: "200"}, {Name: "x-n", Value: fmt.Sprint(downIdx)}}
					ep["cc"].ExpectHeaders(id, f)
					timedWrite(src, func() error { return e.Headers(id, f, false, false, 1) })
				}
			case "data":
				tr.Emit("send", "d", st.D, "k", "data")
				timedWrite(src, func() error { return e.Fr.WriteData(9, false, chunk[:100]) })
			case "held":
				tr.Emit("send", "d", st.D, "k", "held")
				id := []uint32{1, 3, 5, 7}[heldN[st.D]%4]
				heldN[st.D]++
				heldq[st.D] = append(heldq[st.D], id)
				timedWrite(src, func() error {
					for i := 0; i < 20; i++ {
						if err := e.Fr.WriteData(id, false, chunk[:100]); err != nil {
							return err
						}
					}
					return nil
				})
			case "rel":
				tr.Emit("send", "d", st.D, "k", "rel")
				ids := heldq[peerOf(st.D)]
				heldq[peerOf(st.D)] = nil
				timedWrite(src, func() error {
					for _, id := range ids {
						if err := e.Fr.WriteWindowUpdate(id, 1<<20); err != nil {
							return err
						}
					}
					return nil
				})
			}
		case "stopdraining":
			e := ep[st.C]
			other := "cc"
			d := "up"
			if st.C == "cc" {
				other, d = "sc", "down"
			}
			if closedByHarness[st.C] || closedByHarness[other] || paused[st.C] {
				continue
			}
			// open the windows of a dedicated stream wide, then stop reading and let the other side fill the path
			timedWrite(st.C, func() error {
				if err := e.Fr.WriteWindowUpdate(0, 1<<30); err != nil {
					return err
				}
				return e.Fr.WriteWindowUpdate(9, 1<<29)
			})
			time.Sleep(40 * time.Millisecond)
			tr.Emit("stopdraining", "c", st.C)
			e.Pause(true)
			paused[st.C] = true
			for i := 0; i < 3; i++ {
				tr.Emit("send", "d", d, "k", "data")
			}
			o := ep[other]
			n := 0
			for {
				o.Conn.SetWriteDeadline(time.Now().Add(300 * time.Millisecond))
				if err := o.Fr.WriteData(9, false, chunk); err != nil {
					break
				}
				n++
				if n > 20000 {
					res.Err = "the path never filled up"
					break
				}
			}
			o.Conn.SetWriteDeadline(time.Time{})
			note("blast toward %s: %d frames of %d bytes until the writer stalled", st.C, n, len(chunk))
		case "close":
			tr.Emit("close", "c", st.C)
			closedByHarness[st.C] = true
			if st.C == "cc" {
				s.rawClient.Close()
			} else {
				s.sconn.Close()
			}
		case "wfail":
			tr.Emit("wfail", "c", st.C)
			if st.C == "cc" {
				fc.Fail()
			} else {
				res.Err = "write failure toward the server cannot be injected"
			}
		case "bad":
			src := srcOf[st.D]
			if closedByHarness[src] {
				continue
			}
			tr.Emit("bad", "d", st.D)
			timedWrite(src, func() error { _, err := ep[src].Conn.Write(make([]byte, 9)); return err }) // DATA on stream 0
		case "shutdown":
			tr.Emit("shutdown")
			shutdown = true
			close(s.Closing)
		}
	}
	bound := time.Duration(sc.BoundMs) * time.Millisecond
	if bound == 0 {
		bound = 2 * time.Second
	}
	t0 := time.Now()
	returned := false
	select {
	case <-s.ProxyDone:
		returned = true
		res.ReturnedMs = int(time.Since(t0) / time.Millisecond)
	case <-time.After(bound):
	}
	cleanup := func() {
		s.C.Pause(false)
		s.S.Pause(false)
		s.rawClient.Close()
		s.sconn.Close()
		s.ProxySide.Close()
		if !shutdown {
			shutdown = true
			close(s.Closing)
		}
	}
	if !returned {
		tr.Emit("notreturned")
		_, res.Goroutines = H2Goroutines()
		cleanup()
		res.Contaminated = true
		res.Events = lines(tr)
		return res
	}
	tr.Emit("returned")
	// the server must see the upstream connection end (unless it closed it itself)
	eofOK := true
	if !closedByHarness["sc"] {
		s.S.Pause(false)
		select {
		case <-s.S.Done():
		case <-time.After(time.Second):
			eofOK = false
			note("the server saw no end of its connection within 1s of Proxy returning")
		}
	}
	tr.Emit("callerclose")
	s.ProxySide.Close()
	cleanup()
	fdsBack := false
	for i := 0; i < 100; i++ {
		if SocketFDs() <= fd0 {
			fdsBack = true
			break
		}
		time.Sleep(10 * time.Millisecond)
	}
	if !fdsBack {
		note("socket descriptors: %d before the session, %d after it and after closing the harness's own", fd0, SocketFDs())
	}
	tr.Emit("upstream", "closed", eofOK && fdsBack)
	left := 0
	for i := 0; i < 150; i++ {
		var dump string
		left, dump = H2Goroutines()
		left -= g0
		if left <= 0 {
			left = 0
			break
		}
		res.Goroutines = dump
		time.Sleep(10 * time.Millisecond)
	}
	if left == 0 {
		res.Goroutines = ""
	}
	tr.Emit("goroutines", "n", left)
	res.Contaminated = left > 0 || !fdsBack
	res.Events = lines(tr)
	return res
}

func lines(r *core.Recorder) []string {
	return strings.Split(strings.TrimRight(string(r.Bytes()), "\n"), "\n")
}
