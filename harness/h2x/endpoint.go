// Package h2x holds the HTTP/2 observers used around h2.Config.Proxy: a client endpoint on a
// loopback TCP connection handed to the relay, and a TLS h2 server the relay dials. Both speak
// raw frames through http2.Framer, keep their own HPACK state and never stop draining their
// connection. It serves properties C08, C09 and C10.
package h2x

import (
	"bytes"
	"crypto/tls"
	"crypto/x509"
	"fmt"
	"io"
	"net"
	"sync"
	"sync/atomic"
	"time"

	"github.com/google/martian/v3/mitm"
	"golang.org/x/net/http2"
	"golang.org/x/net/http2/hpack"

	"verif/harness/core"
)

// Preface is the HTTP/2 client connection preface.
var Preface = []byte("PRI * HTTP/2.0\r\n\r\nSM\r\n\r\n")

// Endpoint is one side of a session.
type Endpoint struct {
	Name    string // "c" or "s"
	SendDir string // direction in which this endpoint is the source: "up" (client) or "down" (server)
	RecvDir string
	Conn    net.Conn
	Fr      *http2.Framer
	Rec     *core.Recorder

	wmu    sync.Mutex
	enc    *hpack.Encoder
	encBuf bytes.Buffer
	dec    *hpack.Decoder

	mu       sync.Mutex
	expect   map[uint32][][]hpack.HeaderField // header blocks the peer will send, per stream, in order
	expectD  map[uint32][]byte                // DATA bytes the peer will send, per stream
	gotD     map[uint32]int
	gotH     map[uint32]int
	LastRecv time.Time
	Closed   bool
	EOFAt    time.Time
	Notes    []string
	done     chan struct{}
	paused   int32 // 1: the reader does not read (the endpoint stops draining its connection)
}

// Pause stops (or resumes) the reader: a paused endpoint leaves what is sent to it unread.
func (e *Endpoint) Pause(on bool) {
	v := int32(0)
	if on {
		v = 1
	}
	atomic.StoreInt32(&e.paused, v)
}

// NewEndpoint wraps a connection.
func NewEndpoint(name string, conn net.Conn, rec *core.Recorder) *Endpoint {
	e := &Endpoint{Name: name, Conn: conn, Rec: rec, Fr: http2.NewFramer(conn, conn),
		expect: map[uint32][][]hpack.HeaderField{}, expectD: map[uint32][]byte{}, gotD: map[uint32]int{}, gotH: map[uint32]int{}, done: make(chan struct{})}
	e.SendDir, e.RecvDir = "up", "down"
	if name == "s" {
		e.SendDir, e.RecvDir = "down", "up"
	}
	e.enc = hpack.NewEncoder(&e.encBuf)
	e.dec = hpack.NewDecoder(4096, nil)
	e.Fr.SetMaxReadFrameSize(1 << 24)
	return e
}

// ExpectHeaders tells the endpoint which fields the peer's next header block on a stream carries.
func (e *Endpoint) ExpectHeaders(s uint32, fields []hpack.HeaderField) {
	e.mu.Lock()
	defer e.mu.Unlock()
	e.expect[s] = append(e.expect[s], fields)
}

// ExpectData tells the endpoint which DATA bytes the peer will send on a stream.
func (e *Endpoint) ExpectData(s uint32, b []byte) {
	e.mu.Lock()
	defer e.mu.Unlock()
	e.expectD[s] = append(e.expectD[s], b...)
}

func (e *Endpoint) note(format string, a ...interface{}) {
	e.mu.Lock()
	defer e.mu.Unlock()
	e.Notes = append(e.Notes, fmt.Sprintf(e.Name+": "+format, a...))
}

func sameFields(a, b []hpack.HeaderField) bool {
	if len(a) != len(b) {
		return false
	}
	for i := range a {
		if a[i].Name != b[i].Name || a[i].Value != b[i].Value {
			return false
		}
	}
	return true
}

// Reader drains the connection until it ends and logs every frame.
func (e *Endpoint) Reader() {
	defer close(e.done)
	var block bytes.Buffer
	var pending struct {
		kind   string
		s      uint32
		es     bool
		prio   bool
		cont   bool
		promID uint32
	}
	finish := func() {
		fields, err := e.dec.DecodeFull(block.Bytes())
		block.Reset()
		e.mu.Lock()
		ok := err == nil
		key := pending.s
		if pending.kind == "PP" {
			key = pending.promID
		}
		idx := e.gotH[key]
		e.gotH[key]++
		var want []hpack.HeaderField
		if idx < len(e.expect[key]) {
			want = e.expect[key][idx]
		}
		e.mu.Unlock()
		if ok && !sameFields(fields, want) {
			ok = false
			e.note("stream %d header block #%d decoded to %v, sent %v", key, idx+1, fields, want)
		}
		if err != nil {
			e.note("stream %d header block does not decode: %v", key, err)
		}
		e.Rec.Emit("dst", "dir", e.RecvDir, "k", pending.kind, "s", int(pending.s), "es", pending.es, "n", 0, "prio", pending.prio, "ok", ok, "cont", pending.cont, "prom", int(pending.promID))
	}
	for {
		for atomic.LoadInt32(&e.paused) == 1 {
			time.Sleep(2 * time.Millisecond)
		}
		f, err := e.Fr.ReadFrame()
		e.mu.Lock()
		e.LastRecv = time.Now()
		e.mu.Unlock()
		if err != nil {
			e.mu.Lock()
			e.Closed = true
			e.EOFAt = time.Now()
			e.mu.Unlock()
			if err != io.EOF {
				e.note("read ended: %v", err)
			}
			return
		}
		switch f := f.(type) {
		case *http2.HeadersFrame:
			block.Write(f.HeaderBlockFragment())
			pending.kind, pending.s, pending.es, pending.prio, pending.cont, pending.promID = "H", f.StreamID, f.StreamEnded(), f.HasPriority(), !f.HeadersEnded(), 0
			if f.HeadersEnded() {
				finish()
			}
		case *http2.PushPromiseFrame:
			block.Write(f.HeaderBlockFragment())
			pending.kind, pending.s, pending.es, pending.prio, pending.cont, pending.promID = "PP", f.StreamID, false, false, !f.HeadersEnded(), f.PromiseID
			if f.HeadersEnded() {
				finish()
			}
		case *http2.ContinuationFrame:
			block.Write(f.HeaderBlockFragment())
			if f.HeadersEnded() {
				finish()
			}
		case *http2.DataFrame:
			d := f.Data()
			e.mu.Lock()
			off := e.gotD[f.StreamID]
			want := e.expectD[f.StreamID]
			ok := off+len(d) <= len(want) && bytes.Equal(d, want[off:off+len(d)])
			e.gotD[f.StreamID] += len(d)
			e.mu.Unlock()
			if !ok {
				e.note("stream %d DATA of %d bytes at offset %d is not what was sent", f.StreamID, len(d), off)
			}
			e.Rec.Emit("dst", "dir", e.RecvDir, "k", "D", "s", int(f.StreamID), "es", f.StreamEnded(), "n", len(d), "prio", false, "ok", ok, "cont", false, "prom", 0, "fc", int(f.Length))
		case *http2.RSTStreamFrame:
			e.Rec.Emit("dst", "dir", e.RecvDir, "k", "R", "s", int(f.StreamID), "es", false, "n", 0, "prio", false, "ok", f.ErrCode == http2.ErrCode(8+f.StreamID%4), "cont", false, "prom", 0)
		case *http2.PriorityFrame:
			e.Rec.Emit("dst", "dir", e.RecvDir, "k", "P", "s", int(f.StreamID), "es", false, "n", 0, "prio", false, "ok", f.PriorityParam.Weight == uint8(10+f.StreamID) && f.PriorityParam.StreamDep == 0, "cont", false, "prom", 0)
		case *http2.WindowUpdateFrame:
			// credit returned by the relay for data this endpoint sent
			e.Rec.Emit("credit", "dir", e.SendDir, "s", int(f.StreamID), "n", int(f.Increment))
		case *http2.SettingsFrame:
			tok := "ACK"
			if !f.IsAck() {
				tok = "SET"
				f.ForeachSetting(func(s http2.Setting) error { tok += fmt.Sprintf(" %d=%d", s.ID, s.Val); return nil })
			}
			e.Rec.Emit("dctl", "dir", e.RecvDir, "c", tok)
		case *http2.PingFrame:
			e.Rec.Emit("dctl", "dir", e.RecvDir, "c", fmt.Sprintf("PING %v %x", f.IsAck(), f.Data))
		case *http2.GoAwayFrame:
			e.Rec.Emit("dctl", "dir", e.RecvDir, "c", fmt.Sprintf("GOAWAY %d %d %q", f.LastStreamID, f.ErrCode, f.DebugData()))
		}
	}
}

// Done is closed when the reader has ended.
func (e *Endpoint) Done() <-chan struct{} { return e.done }

// Quiet reports how long nothing has been received.
func (e *Endpoint) Quiet() time.Duration {
	e.mu.Lock()
	defer e.mu.Unlock()
	if e.LastRecv.IsZero() {
		return time.Hour
	}
	return time.Since(e.LastRecv)
}

// ---- writing (events are logged before the bytes are written)

// Headers writes a header block, split into the given number of fragments.
func (e *Endpoint) Headers(s uint32, fields []hpack.HeaderField, es bool, prio bool, fragments int) error {
	e.wmu.Lock()
	defer e.wmu.Unlock()
	e.encBuf.Reset()
	for _, f := range fields {
		e.enc.WriteField(f)
	}
	blk := append([]byte(nil), e.encBuf.Bytes()...)
	if fragments < 1 || len(blk) < fragments {
		fragments = 1
	}
	e.Rec.Emit("src", "dir", e.SendDir, "k", "H", "s", int(s), "es", es, "n", 0, "pad", 0, "cont", fragments > 1, "prio", prio)
	p := http2.HeadersFrameParam{StreamID: s, EndStream: es, EndHeaders: fragments == 1}
	if prio {
		p.Priority = http2.PriorityParam{Weight: uint8(20 + s), StreamDep: 0}
	}
	step := len(blk) / fragments
	p.BlockFragment = blk[:step]
	if fragments == 1 {
		p.BlockFragment = blk
	}
	if err := e.Fr.WriteHeaders(p); err != nil {
		return err
	}
	for i := 1; i < fragments; i++ {
		lo, hi := i*step, (i+1)*step
		if i == fragments-1 {
			hi = len(blk)
		}
		if err := e.Fr.WriteContinuation(s, i == fragments-1, blk[lo:hi]); err != nil {
			return err
		}
	}
	return nil
}

// PushPromise writes a PUSH_PROMISE block.
func (e *Endpoint) PushPromise(s, promised uint32, fields []hpack.HeaderField, fragments int) error {
	e.wmu.Lock()
	defer e.wmu.Unlock()
	e.encBuf.Reset()
	for _, f := range fields {
		e.enc.WriteField(f)
	}
	blk := append([]byte(nil), e.encBuf.Bytes()...)
	if fragments < 1 || len(blk) < fragments {
		fragments = 1
	}
	e.Rec.Emit("src", "dir", e.SendDir, "k", "PP", "s", int(s), "es", false, "n", 0, "pad", 0, "cont", fragments > 1, "prio", false)
	step := len(blk) / fragments
	frag := blk
	if fragments > 1 {
		frag = blk[:step]
	}
	if err := e.Fr.WritePushPromise(http2.PushPromiseParam{StreamID: s, PromiseID: promised, BlockFragment: frag, EndHeaders: fragments == 1}); err != nil {
		return err
	}
	for i := 1; i < fragments; i++ {
		lo, hi := i*step, (i+1)*step
		if i == fragments-1 {
			hi = len(blk)
		}
		if err := e.Fr.WriteContinuation(s, i == fragments-1, blk[lo:hi]); err != nil {
			return err
		}
	}
	return nil
}

// Data writes a DATA frame with optional padding.
func (e *Endpoint) Data(s uint32, b []byte, es bool, pad int) error {
	e.wmu.Lock()
	defer e.wmu.Unlock()
	fcpad := 0
	if pad > 0 {
		fcpad = pad + 1
	}
	e.Rec.Emit("src", "dir", e.SendDir, "k", "D", "s", int(s), "es", es, "n", len(b), "pad", fcpad, "cont", false, "prio", false)
	if pad > 0 {
		return e.Fr.WriteDataPadded(s, es, b, make([]byte, pad))
	}
	return e.Fr.WriteData(s, es, b)
}

// Rst writes RST_STREAM with a code derived from the stream id.
func (e *Endpoint) Rst(s uint32) error {
	e.wmu.Lock()
	defer e.wmu.Unlock()
	e.Rec.Emit("src", "dir", e.SendDir, "k", "R", "s", int(s), "es", false, "n", 0, "pad", 0, "cont", false, "prio", false)
	return e.Fr.WriteRSTStream(s, http2.ErrCode(8+s%4))
}

// Priority writes a PRIORITY frame with a weight derived from the stream id.
func (e *Endpoint) Priority(s uint32) error {
	e.wmu.Lock()
	defer e.wmu.Unlock()
	e.Rec.Emit("src", "dir", e.SendDir, "k", "P", "s", int(s), "es", false, "n", 0, "pad", 0, "cont", false, "prio", false)
	return e.Fr.WritePriority(s, http2.PriorityParam{Weight: uint8(10 + s), StreamDep: 0})
}

// WindowUpdate grants credit to the relay for the direction in which this endpoint receives.
func (e *Endpoint) WindowUpdate(s uint32, n uint32) error {
	e.wmu.Lock()
	defer e.wmu.Unlock()
	e.Rec.Emit("grant", "dir", e.RecvDir, "s", int(s), "n", int(n))
	return e.Fr.WriteWindowUpdate(s, n)
}

// Settings writes a SETTINGS frame; delta is the change of this endpoint's initial window size.
func (e *Endpoint) Settings(delta int, settings ...http2.Setting) error {
	e.wmu.Lock()
	defer e.wmu.Unlock()
	tok := "SET"
	for _, s := range settings {
		tok += fmt.Sprintf(" %d=%d", s.ID, s.Val)
	}
	if delta != 0 {
		e.Rec.Emit("settings", "dir", e.RecvDir, "delta", delta)
	}
	e.Rec.Emit("ctl", "dir", e.SendDir, "c", tok)
	return e.Fr.WriteSettings(settings...)
}

// Ping writes a PING frame.
func (e *Endpoint) Ping(ack bool, data [8]byte) error {
	e.wmu.Lock()
	defer e.wmu.Unlock()
	e.Rec.Emit("ctl", "dir", e.SendDir, "c", fmt.Sprintf("PING %v %x", ack, data))
	return e.Fr.WritePing(ack, data)
}

// GoAway writes a GOAWAY frame.
func (e *Endpoint) GoAway(last uint32, code http2.ErrCode, debug string) error {
	e.wmu.Lock()
	defer e.wmu.Unlock()
	e.Rec.Emit("ctl", "dir", e.SendDir, "c", fmt.Sprintf("GOAWAY %d %d %q", last, code, debug))
	return e.Fr.WriteGoAway(last, code, []byte(debug))
}

// ---- TLS h2 server the relay dials

// Server is a TLS listener accepting relay connections.
type Server struct {
	// Mu serialises session start-up: the connection accepted next belongs to the session that dials now.
	Mu    sync.Mutex
	L     net.Listener
	Roots *x509.CertPool
	Conns chan net.Conn
}

// NewServer starts the listener with a certificate for 127.0.0.1 under a fresh CA.
func NewServer() (*Server, error) {
	ca, key, err := mitm.NewAuthority("h2x CA", "h2x", time.Hour)
	if err != nil {
		return nil, err
	}
	mc, err := mitm.NewConfig(ca, key)
	if err != nil {
		return nil, err
	}
	cert, err := mc.TLSForHost("127.0.0.1").GetCertificate(&tls.ClientHelloInfo{})
	if err != nil {
		return nil, err
	}
	l, err := tls.Listen("tcp", "127.0.0.1:0", &tls.Config{Certificates: []tls.Certificate{*cert}, NextProtos: []string{"h2"}})
	if err != nil {
		return nil, err
	}
	roots := x509.NewCertPool()
	roots.AddCert(ca)
	s := &Server{L: l, Roots: roots, Conns: make(chan net.Conn, 16)}
	go func() {
		for {
			c, err := l.Accept()
			if err != nil {
				return
			}
			s.Conns <- c
		}
	}()
	return s, nil
}

// dribble cuts every write into small pieces.
type dribble struct {
	net.Conn
	piece int
}

func (d *dribble) Write(b []byte) (int, error) {
	n := 0
	for len(b) > 0 {
		k := d.piece
		if k > len(b) {
			k = len(b)
		}
		m, err := d.Conn.Write(b[:k])
		n += m
		if err != nil {
			return n, err
		}
		b = b[k:]
	}
	return n, nil
}

// Dribble wraps a connection so that writes are cut into pieces of the given size (0: no-op).
func Dribble(c net.Conn, piece int) net.Conn {
	if piece <= 0 {
		return c
	}
	return &dribble{Conn: c, piece: piece}
}

// Pair returns the two ends of a loopback TCP connection.
func Pair() (a, b net.Conn, err error) {
	l, err := net.Listen("tcp", "127.0.0.1:0")
	if err != nil {
		return nil, nil, err
	}
	defer l.Close()
	ch := make(chan net.Conn, 1)
	go func() {
		c, _ := l.Accept()
		ch <- c
	}()
	a, err = net.Dial("tcp", l.Addr().String())
	if err != nil {
		return nil, nil, err
	}
	b = <-ch
	if b == nil {
		return nil, nil, fmt.Errorf("accept failed")
	}
	return a, b, nil
}
