package main

import (
	_ "verif/harness/c01"
	_ "verif/harness/c02"
	_ "verif/harness/c03"
	_ "verif/harness/c04"
	_ "verif/harness/c05"
	_ "verif/harness/c06"
	_ "verif/harness/c07"
	_ "verif/harness/c08"
	_ "verif/harness/c09"
	_ "verif/harness/c10"
	_ "verif/harness/c11"
	_ "verif/harness/c12"
	_ "verif/harness/c13"
	_ "verif/harness/c14"
	_ "verif/harness/c15"
	_ "verif/harness/c16"
	_ "verif/harness/c17"
	_ "verif/harness/c18"
	_ "verif/harness/c19"
	_ "verif/harness/c20"
)
