package main

import (
	_ "verif/harness/c17"
)
