// Command check runs one property check:  check <ID> [--tier quick|thorough] [--replay file]
package main

import (
	"encoding/json"
	"fmt"
	"os"
	"strconv"

	mlog "github.com/google/martian/v3/log"

	"verif/harness/core"
)

func main() {
	args := os.Args[1:]
	mlog.SetLevel(mlog.Silent)
	if len(args) >= 2 && args[0] == "--child" {
		f := core.LookupChild(args[1])
		if f == nil {
			fmt.Fprintf(os.Stderr, "unknown child %q\n", args[1])
			os.Exit(2)
		}
		os.Exit(f(args[2:]))
	}
	if len(args) == 0 {
		fmt.Fprintf(os.Stderr, "usage: check <ID> [--tier quick|thorough] [--replay file]; known: %v\n", core.IDs())
		os.Exit(2)
	}
	id := args[0]
	tier := os.Getenv("VERIF_TIER")
	if tier == "" {
		tier = "quick"
	}
	replay := ""
	for i := 1; i < len(args); i++ {
		switch args[i] {
		case "--tier":
			i++
			tier = args[i]
		case "--replay":
			i++
			replay = args[i]
		}
	}
	seed := int64(1)
	if s := os.Getenv("VERIF_SEED"); s != "" {
		if n, err := strconv.ParseInt(s, 10, 64); err == nil {
			seed = n
		}
	}
	filter := ""
	if replay != "" {
		b, err := os.ReadFile(replay)
		if err != nil {
			fmt.Fprintln(os.Stderr, err)
			os.Exit(2)
		}
		var r struct {
			Seed      int64  `json:"seed"`
			Tier      string `json:"tier"`
			Signature string `json:"signature"`
		}
		if err := json.Unmarshal(b, &r); err != nil {
			fmt.Fprintln(os.Stderr, err)
			os.Exit(2)
		}
		seed, tier, filter = r.Seed, r.Tier, r.Signature
	}
	f := core.Lookup(id)
	if f == nil {
		fmt.Fprintf(os.Stderr, "unknown property %q; known: %v\n", id, core.IDs())
		os.Exit(2)
	}
	c, err := core.NewCtx(id, tier, seed)
	if err != nil {
		fmt.Fprintln(os.Stderr, err)
		os.Exit(2)
	}
	c.Filter = filter
	func() {
		defer func() {
			if r := recover(); r != nil {
				c.Inconclusive("check panicked: %v", r)
			}
		}()
		f(c)
	}()
	os.Exit(c.Finish())
}
