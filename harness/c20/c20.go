// Package c20 decides property C20: every case of the Range.tla decision table (content
// length x range-spec list) and of its path algebra is concretised and executed against
// body.Modifier and static.Modifier; the outcome must be one the specification allows.
package c20

import (
	"bufio"
	"bytes"
	"encoding/json"
	"fmt"
	"io"
	"io/ioutil"
	"math/rand"
	"mime"
	"mime/multipart"
	"net/http"
	"os"
	"path/filepath"
	"strconv"
	"strings"
	"time"

	"github.com/google/martian/v3"
	"github.com/google/martian/v3/body"
	"github.com/google/martian/v3/proxyutil"
	"github.com/google/martian/v3/static"

	"verif/harness/core"
)

func init() {
	core.Register("C20", Run)
	core.RegisterChild("c20-worker", worker)
}

const hugeAbs = 1000

type env struct {
	root, parent string
	content      map[string][]byte // file name under root -> content
	secret       []byte
}

func mkContent(n int, seed int64) []byte {
	b := make([]byte, n)
	rand.New(rand.NewSource(seed)).Read(b)
	return b
}

func newEnv(dir string, seed int64, scales []int, maxLen int) (*env, error) {
	e := &env{parent: filepath.Join(dir, "parent"), content: map[string][]byte{}}
	e.root = filepath.Join(e.parent, "root")
	if err := os.MkdirAll(filepath.Join(e.root, "sub"), 0o755); err != nil {
		return nil, err
	}
	e.secret = []byte("TOP-SECRET-OUTSIDE-ROOT-" + strconv.FormatInt(seed, 10))
	if err := os.WriteFile(filepath.Join(e.parent, "secret"), e.secret, 0o644); err != nil {
		return nil, err
	}
	// also a file named like the root's sibling and one deeper, to catch prefix confusions
	os.WriteFile(filepath.Join(dir, "secret"), e.secret, 0o644)
	put := func(name string, b []byte) error {
		e.content[name] = b
		return os.WriteFile(filepath.Join(e.root, name), b, 0o644)
	}
	if err := put("f", []byte("content of f "+strconv.FormatInt(seed, 10))); err != nil {
		return nil, err
	}
	if err := put("sub/g", []byte("content of sub/g "+strconv.FormatInt(seed, 10))); err != nil {
		return nil, err
	}
	for _, sc := range scales {
		for l := 0; l <= maxLen; l++ {
			if err := put(fmt.Sprintf("r%d_%d.bin", l, sc), mkContent(l*sc, seed+int64(l*131+sc))); err != nil {
				return nil, err
			}
		}
	}
	return e, nil
}

type machine struct {
	e       *env
	w       *core.Worker
	init    core.State
	target  string // "body" | "static"
	scale   int
	variant int
	result  string
	detail  string
}

func numStr(v, scale int, end bool, variant int) string {
	if v == hugeAbs {
		if variant%2 == 0 {
			return "99999999999999999999" // beyond int64
		}
		return "1099511627776" // 2^40: fits an int but far beyond the content
	}
	if end {
		return strconv.Itoa(v*scale + scale - 1)
	}
	return strconv.Itoa(v * scale)
}

var badSpecs = []string{"abc", "1-2-3", "x-y", "-", "--1", "1-x"}

func (m *machine) header() string {
	specs := m.init["specs"].Elems
	if len(specs) == 0 {
		return ""
	}
	var parts []string
	for i, s := range specs {
		a, b := s.Get("a").Int(), s.Get("b").Int()
		var p string
		switch s.Get("k").S {
		case "fromto":
			p = numStr(a, m.scale, false, m.variant) + "-" + numStr(b, m.scale, true, m.variant)
		case "from":
			p = numStr(a, m.scale, false, m.variant) + "-"
		case "suffix":
			p = "-" + numStr(a, m.scale, false, m.variant)
		case "bad":
			p = badSpecs[(m.variant+i)%len(badSpecs)]
		}
		parts = append(parts, p)
	}
	sep := ","
	unit := "bytes="
	switch m.variant % 3 {
	case 1:
		sep = ", "
	case 2:
		unit = "Bytes="
	}
	return unit + strings.Join(parts, sep)
}

// job is one case shipped to the worker process.
type job struct {
	Root    string           `json:"root"`
	Mode    string           `json:"mode"`
	Len     int              `json:"len"`
	Specs   [][3]interface{} `json:"specs"`
	Segs    []string         `json:"segs"`
	Target  string           `json:"target"`
	Scale   int              `json:"scale"`
	Variant int              `json:"variant"`
}

type jobResult struct {
	Result string `json:"result"`
	Detail string `json:"detail"`
}

func (m *machine) Apply(action string, args []core.Val) error {
	if action != "Serve" {
		return fmt.Errorf("unknown action %s", action)
	}
	if m.w == nil {
		m.serve()
		return nil
	}
	j := job{Root: m.e.root, Mode: m.init["mode"].S, Len: m.init["len"].Int(), Segs: m.init["segs"].Strs(),
		Target: m.target, Scale: m.scale, Variant: m.variant}
	for _, s := range m.init["specs"].Elems {
		j.Specs = append(j.Specs, [3]interface{}{s.Get("k").S, s.Get("a").Int(), s.Get("b").Int()})
	}
	var r jobResult
	crashed, diag, err := m.w.Call(j, &r)
	if err != nil {
		return err
	}
	if crashed {
		m.result = "CRASH"
		m.detail = fmt.Sprintf("the process serving %+v died: %s", j, diag)
		return nil
	}
	m.result, m.detail = r.Result, r.Detail
	return nil
}

func (m *machine) serve() {
	if m.init["mode"].S == "range" {
		m.serveRange()
	} else {
		m.servePath()
	}
}

func stateOf(j job) core.State {
	st := core.State{"mode": core.Val{K: core.KStr, S: j.Mode}, "len": core.Val{K: core.KInt, I: int64(j.Len)}}
	specs := core.Val{K: core.KSeq}
	for _, s := range j.Specs {
		specs.Elems = append(specs.Elems, core.Val{K: core.KRec, Fields: map[string]core.Val{
			"k": {K: core.KStr, S: s[0].(string)}, "a": {K: core.KInt, I: int64(s[1].(float64))}, "b": {K: core.KInt, I: int64(s[2].(float64))}}})
	}
	st["specs"] = specs
	segs := core.Val{K: core.KSeq}
	for _, s := range j.Segs {
		segs.Elems = append(segs.Elems, core.Val{K: core.KStr, S: s})
	}
	st["segs"] = segs
	return st
}

var envCache = map[string]*env{}

func loadEnv(root string) *env {
	if e, ok := envCache[root]; ok {
		return e
	}
	e := &env{root: root, parent: filepath.Dir(root), content: map[string][]byte{}}
	e.secret, _ = os.ReadFile(filepath.Join(e.parent, "secret"))
	filepath.Walk(root, func(p string, info os.FileInfo, err error) error {
		if err == nil && !info.IsDir() {
			rel, _ := filepath.Rel(root, p)
			e.content[rel], _ = os.ReadFile(p)
		}
		return nil
	})
	envCache[root] = e
	return e
}

func worker(args []string) int {
	return core.ServeWorker(func(req []byte) interface{} {
		var j job
		if err := json.Unmarshal(req, &j); err != nil {
			return jobResult{Result: "BAD:job", Detail: err.Error()}
		}
		m := &machine{e: loadEnv(j.Root), init: stateOf(j), target: j.Target, scale: j.Scale, variant: j.Variant}
		m.serve()
		return jobResult{Result: m.result, Detail: m.detail}
	})
}

func (m *machine) serveRange() {
	l := m.init["len"].Int()
	var content []byte
	var res *http.Response
	var err error
	hdr := m.header()
	name := fmt.Sprintf("r%d_%d.bin", l, m.scale)
	content = m.e.content[name]
	req, _ := http.NewRequest("GET", "http://example.com/"+name, nil)
	if hdr != "" {
		req.Header.Set("Range", hdr)
	}
	_, remove, _ := martian.TestContext(req, nil, nil)
	defer remove()
	res = proxyutil.NewResponse(200, nil, req)
	func() {
		defer func() {
			if r := recover(); r != nil {
				m.result = "PANIC"
				m.detail = fmt.Sprint(r)
			}
		}()
		var mod martian.ResponseModifier
		if m.target == "body" {
			mod = body.NewModifier(content, "application/octet-stream")
		} else {
			mod = static.NewModifier(m.e.root)
		}
		err = mod.ModifyResponse(res)
		// Before the body of this response is consumed, other responses are produced by
		// the same modifier and by another one (as on concurrent connections): the bodies
		// must be independent of each other.
		for i, h := range []string{"bytes=0-0,1-1,0-1", "bytes=1-", ""} {
			dreq, _ := http.NewRequest("GET", "http://example.com/"+fmt.Sprintf("r%d_%d.bin", 3, m.scale), nil)
			if h != "" {
				dreq.Header.Set("Range", h)
			}
			_, rm, _ := martian.TestContext(dreq, nil, nil)
			dres := proxyutil.NewResponse(200, nil, dreq)
			dm := mod
			if i == 0 && m.target == "body" {
				dm = body.NewModifier(bytes.Repeat([]byte{0xEE}, len(content)+3*m.scale), "application/octet-stream")
			}
			dm.ModifyResponse(dres)
			if i == 2 && dres.Body != nil {
				ioutil.ReadAll(dres.Body)
			}
			rm()
		}
	}()
	if m.result == "PANIC" {
		m.detail = fmt.Sprintf("Range %q on %d bytes: panic: %s", hdr, len(content), m.detail)
		return
	}
	m.result, m.detail = classify(res, err, content, m.scale)
	if strings.HasPrefix(m.result, "BAD") {
		m.detail = fmt.Sprintf("Range %q on %d bytes: %s", hdr, len(content), m.detail)
	}
}

// classify turns the modified response into an abstract outcome.
func classify(res *http.Response, err error, content []byte, scale int) (string, string) {
	var bodyBytes []byte
	var rerr error
	if res.Body != nil {
		bodyBytes, rerr = ioutil.ReadAll(res.Body)
	}
	if err != nil {
		return "BAD:error", fmt.Sprintf("modifier returned error %v leaving status %d and a %d-byte body", err, res.StatusCode, len(bodyBytes))
	}
	if rerr != nil {
		return "BAD:bodyread", rerr.Error()
	}
	switch res.StatusCode {
	case 416:
		return "unsat", ""
	case 200:
		if !bytes.Equal(bodyBytes, content) {
			return "BAD:full-body", fmt.Sprintf("200 with %d body bytes, content has %d", len(bodyBytes), len(content))
		}
		if res.ContentLength != int64(len(content)) {
			return "BAD:full-length", fmt.Sprintf("Content-Length %d, content has %d", res.ContentLength, len(content))
		}
		return "full", ""
	case 206:
		if res.ContentLength != int64(len(bodyBytes)) {
			return "BAD:partial-length", fmt.Sprintf("Content-Length %d but body has %d bytes", res.ContentLength, len(bodyBytes))
		}
		ct := res.Header.Get("Content-Type")
		var ranges []string
		check := func(cr string, data []byte) string {
			var a, b, total int
			if _, e := fmt.Sscanf(cr, "bytes %d-%d/%d", &a, &b, &total); e != nil {
				return "bad Content-Range " + cr
			}
			if total != len(content) {
				return fmt.Sprintf("Content-Range total %d, content has %d", total, len(content))
			}
			if a < 0 || b < a || b >= len(content) {
				return fmt.Sprintf("Content-Range %q outside the %d-byte content", cr, len(content))
			}
			if !bytes.Equal(data, content[a:b+1]) {
				return fmt.Sprintf("part %q: %d bytes that are not content[%d:%d]", cr, len(data), a, b+1)
			}
			// back to abstract units
			if a%scale != 0 || (b+1)%scale != 0 && b != len(content)-1 {
				return fmt.Sprintf("range %d-%d is not one that was asked for", a, b)
			}
			ranges = append(ranges, fmt.Sprintf("%d-%d", a/scale, b/scale))
			return ""
		}
		if mt, params, e := mime.ParseMediaType(ct); e == nil && mt == "multipart/byteranges" {
			mr := multipart.NewReader(bytes.NewReader(bodyBytes), params["boundary"])
			for {
				p, e := mr.NextPart()
				if e == io.EOF {
					break
				}
				if e != nil {
					return "BAD:multipart", e.Error()
				}
				data, _ := ioutil.ReadAll(p)
				if why := check(p.Header.Get("Content-Range"), data); why != "" {
					return "BAD:part", why
				}
			}
			if len(ranges) < 2 {
				return "BAD:multipart-count", fmt.Sprintf("multipart/byteranges with %d parts", len(ranges))
			}
		} else {
			if why := check(res.Header.Get("Content-Range"), bodyBytes); why != "" {
				return "BAD:single", why
			}
		}
		return "partial:[" + strings.Join(ranges, " ") + "]", ""
	}
	return "BAD:status", fmt.Sprintf("status %d", res.StatusCode)
}

func encodeSeg(s string, variant, i int) string {
	switch (variant + i) % 4 {
	case 1:
		return strings.ReplaceAll(s, ".", "%2e")
	case 2:
		return strings.ReplaceAll(s, ".", "%2E")
	}
	return s
}

func (m *machine) servePath() {
	segs := m.init["segs"].Strs()
	var parts []string
	for i, s := range segs {
		parts = append(parts, encodeSeg(s, m.variant, i))
	}
	sep := "/"
	if m.variant%5 == 4 {
		sep = "%2f" // encoded separators: the decoded path holds real slashes
	}
	target := "/" + strings.Join(parts, sep)
	if m.variant%5 == 4 && len(parts) > 0 {
		target = "/" + parts[0]
		for _, p := range parts[1:] {
			target += "%2F" + p
		}
	}
	raw := "GET " + target + " HTTP/1.1\r\nHost: example.com\r\n\r\n"
	if m.variant%2 == 1 {
		raw = "GET http://example.com" + target + " HTTP/1.1\r\nHost: example.com\r\n\r\n"
	}
	req, err := http.ReadRequest(bufio.NewReader(strings.NewReader(raw)))
	if err != nil {
		m.result, m.detail = "404", "request not parseable: "+err.Error() // never reaches the modifier
		return
	}
	_, remove, _ := martian.TestContext(req, nil, nil)
	defer remove()
	res := proxyutil.NewResponse(200, nil, req)
	var merr error
	func() {
		defer func() {
			if r := recover(); r != nil {
				m.result = "PANIC"
				m.detail = fmt.Sprintf("path %q: panic: %v", target, r)
			}
		}()
		merr = static.NewModifier(m.e.root).ModifyResponse(res)
	}()
	if m.result == "PANIC" {
		return
	}
	var b []byte
	var rerr error
	if res.Body != nil {
		b, rerr = ioutil.ReadAll(res.Body)
	}
	switch {
	case bytes.Contains(b, m.e.secret[:10]):
		m.result, m.detail = "BAD:escaped-root", fmt.Sprintf("path %q served the sentinel file outside the root", target)
	case res.StatusCode == 404:
		m.result = "404"
	case res.StatusCode == 200 && merr == nil && rerr == nil && bytes.Equal(b, m.e.content["f"]):
		m.result = "f"
	case res.StatusCode == 200 && merr == nil && rerr == nil && bytes.Equal(b, m.e.content["sub/g"]):
		m.result = "g"
	default:
		m.result = "BAD:path"
		m.detail = fmt.Sprintf("path %q: status %d, modifier error %v, body read error %v, %d body bytes", target, res.StatusCode, merr, rerr, len(b))
	}
}

func (m *machine) Detail() string { return m.detail }

func (m *machine) Project() string {
	if m.result == "" {
		return "ask"
	}
	return m.result
}

func abstract(s core.State) string {
	if s["phase"].S == "ask" {
		return "ask"
	}
	out := s["out"]
	switch t := out.Get("t").S; t {
	case "full", "unsat":
		return t
	case "partial":
		var rs []string
		for _, r := range out.Get("r").Elems {
			rs = append(rs, fmt.Sprintf("%d-%d", r.Elems[0].Int(), r.Elems[1].Int()))
		}
		return "partial:[" + strings.Join(rs, " ") + "]"
	default:
		return t
	}
}

// Run is the C20 check.
func Run(c *core.Ctx) {
	c.Describe(
		"TLC enumerates the whole decision table of Range.tla: content length 0..MaxLen x every list of <= MaxSpecs range specs over FromTo/From/Suffix/Bad with positions in 0..MaxLen+1 and Huge, and every request path of <= MaxSegs segments over {f, sub, g, secret, root, .., ., empty}. Each case is concretised (content scaled by 1/1000/21845 bytes per unit, header spacing/case variants, numbers beyond int64, percent-encoded dots and slashes, origin-form and absolute-form request lines) and run against body.Modifier and static.Modifier inside recover(); the classified outcome (full / partial with exact ranges / 416 / file served) must be in the specification's allowed set. Non-trivial = cases with at least one range spec or one dot/empty segment.",
		"Range.tla invariants InContent, OnePartPerRange, UnderRoot, NeverSecret checked by TLC over the full table; binding: every table row executed on the real modifiers.",
		true,
		"for a header mixing satisfiable and unsatisfiable ranges both 'serve the satisfiable ones' and 416 are accepted; for malformed or reversed specs both 'ignore the header' (full content) and 416 are accepted",
		"the static root lives in a temporary directory with a sentinel file one and two levels above it")
	maxLen, maxSpecs, maxSegs := 3, 2, c.Pick(3, 4)
	cfg := fmt.Sprintf("SPECIFICATION Spec\nCONSTANTS\n  MaxLen = %d\n  MaxSpecs = %d\n  Huge = %d\n  MaxSegs = %d\nINVARIANTS InContent OnePartPerRange UnderRoot NeverSecret\n", maxLen, maxSpecs, hugeAbs, maxSegs)
	os.WriteFile(filepath.Join(c.Work, "Range_run.cfg"), []byte(cfg), 0o644)
	dot := filepath.Join(c.Work, "range.dot")
	res, err := core.RunTLC(c.Work, core.TLCOpts{Module: "Range", Cfg: "Range_run.cfg", Workers: 8, Timeout: 20 * time.Minute,
		Args: []string{"-dump", "dot,actionlabels", dot}})
	if err != nil || !res.OK() {
		c.Inconclusive("TLC on Range failed: %v %s", err, tail(res))
		return
	}
	c.Model(res)
	g, err := core.ParseDot(dot)
	if err != nil {
		c.Inconclusive("parse graph: %v", err)
		return
	}
	c.ModelGraph(g)
	scales := []int{1, 1000, 21845}
	e, err := newEnv(c.Work, c.Seed, scales, maxLen)
	if err != nil {
		c.Inconclusive("temp tree: %v", err)
		return
	}
	w := &core.Worker{Name: "c20-worker", CallTimeout: 30 * time.Second}
	defer w.Close()
	variants := c.Pick(2, 6)
	for _, target := range []string{"body", "static"} {
		for si, scale := range scales {
			for v := 0; v < variants; v++ {
				variant := v + int(c.Seed)%7 + si
				opts := core.ReplayOpts{
					SigPrefix: fmt.Sprintf("%s/x%d/v%d:", target, scale, variant),
					NewFor: func(init core.State) core.Machine {
						return &machine{e: e, w: w, init: init, target: target, scale: scale, variant: variant}
					},
					Abstract: abstract,
					NonTrivial: func(from core.State, ed core.Edge, to core.State) string {
						if from["mode"].S == "range" && from["specs"].Len() > 0 {
							return fmt.Sprintf("%s/%d/%v", target, from["len"].Int(), from["specs"])
						}
						if from["mode"].S == "path" && target == "static" {
							return fmt.Sprintf("path/%v", from["segs"])
						}
						return ""
					},
					Skip: func(init core.State) bool {
						// the path algebra applies to the static modifier only, once per variant
						return init["mode"].S == "path" && (target != "static" || si != 0)
					},
				}
				core.ReplayGraph(c, g, opts)
			}
		}
	}
}

func tail(r *core.TLCResult) string {
	if r == nil {
		return ""
	}
	return r.Tail(30)
}
