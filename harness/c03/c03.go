// Package c03 decides property C03: origin faults (refused dial, non-HTTP bytes, close at
// any offset of a Content-Length or chunked response) and arbitrary client byte streams are
// driven against a proxy running in a child process; traces are validated by TLC against
// Http1ConnTrace (502 through the response modifier, or detectable truncation followed by
// close, never a desync) and the child must stay alive.
package c03

import (
	"bufio"
	"fmt"
	"math/rand"
	"net"
	"net/http"
	"os"
	"os/exec"
	"path/filepath"
	"sort"
	"strings"
	"time"

	"github.com/google/martian/v3"
	"github.com/google/martian/v3/mitm"

	"verif/harness/core"
	"verif/harness/ep"
	"verif/harness/h1"
)

func init() {
	core.Register("C03", Run)
	core.RegisterChild("c03-proxy", proxyChild)
}

// proxyChild serves a proxy whose response modifier marks every response it sees.
func proxyChild(args []string) int {
	p := martian.NewProxy()
	p.SetResponseModifier(martian.ResponseModifierFunc(func(res *http.Response) error {
		res.Header.Set("X-Verif-Resmod", "1")
		return nil
	}))
	if len(args) > 0 && args[0] == "mitm" {
		ca, key, err := mitm.NewAuthority("verif CA", "verif", time.Hour)
		if err != nil {
			fmt.Println("ERR", err)
			return 2
		}
		mc, err := mitm.NewConfig(ca, key)
		if err != nil {
			fmt.Println("ERR", err)
			return 2
		}
		p.SetMITM(mc)
	}
	l, err := net.Listen("tcp", "127.0.0.1:0")
	if err != nil {
		fmt.Println("ERR", err)
		return 2
	}
	fmt.Println("ADDR", l.Addr().String())
	go p.Serve(l)
	// live until stdin closes
	bufio.NewReader(os.Stdin).ReadString(0)
	return 0
}

type child struct {
	cmd  *exec.Cmd
	addr string
	errb *strings.Builder
	done chan struct{}
}

func startChild(args ...string) (*child, error) {
	cmd := exec.Command(core.SelfBin(), append([]string{"--child", "c03-proxy"}, args...)...)
	in, _ := cmd.StdinPipe()
	_ = in
	out, err := cmd.StdoutPipe()
	if err != nil {
		return nil, err
	}
	ch := &child{cmd: cmd, errb: &strings.Builder{}, done: make(chan struct{})}
	cmd.Stderr = ch.errb
	if err := cmd.Start(); err != nil {
		return nil, err
	}
	line, err := bufio.NewReader(out).ReadString('\n')
	if err != nil || !strings.HasPrefix(line, "ADDR ") {
		cmd.Process.Kill()
		return nil, fmt.Errorf("proxy child did not start: %q %v", line, err)
	}
	ch.addr = strings.TrimSpace(strings.TrimPrefix(line, "ADDR "))
	go func() { cmd.Wait(); close(ch.done) }()
	return ch, nil
}

func (ch *child) alive() bool {
	select {
	case <-ch.done:
		return false
	default:
		return true
	}
}

func (ch *child) stop() {
	if ch.alive() {
		ch.cmd.Process.Kill()
		<-ch.done
	}
}

// Run is the C03 check.
func Run(c *core.Ctx) {
	c.Describe(
		"TLC model-checks Http1Conn with origin faults (refused dial; garbage or close before a whole response head -> 502; close inside the body -> truncated) and shows that the IgnoreWriteError deviation violates NoDesync. Simulated behaviours with faults become scenarios in which each faulty exchange is followed by further well-formed requests on the same client connection; in addition every truncation offset class (quick: sampled offsets, thorough: every byte offset) of Content-Length and chunked responses is generated directly. The proxy runs in a child process with a response modifier that marks every response; the raw client classifies what it parses (502 with Warning and the modifier's mark / complete / detectably incomplete) and TLC validates the traces. Client byte streams come from TLC -simulate over ClientBytes.tla plus grammar mutations; after each the child must be alive and serve a fresh connection. Non-trivial = scenarios with at least one fault followed by another request; byte streams of >= 2 tokens.",
		"Http1Conn.tla invariants NoDesync, OneToOneInOrder, CloseAfter with faults checked by TLC (deviation run must fail); binding: behaviours and truncation sweeps through a live child-process proxy, traces validated by TLC; liveness of the child observed.",
		false,
		"a truncated close-delimited response cannot be told from a complete one and is not generated",
		"http.Transport may re-send a request when a reused upstream connection dies before any response byte; the origin logs only the first arrival")
	if !h1.ModelCheck(c, "h1_c03", c.Pick(3, 4), true, false, false) || !h1.DeviationCaught(c) {
		return
	}
	ch, err := startChild()
	if err != nil {
		c.Inconclusive("%v", err)
		return
	}
	defer ch.stop()
	rec := &core.Recorder{}
	origin, err := ep.NewOrigin(rec)
	if err != nil {
		c.Inconclusive("origin: %v", err)
		return
	}
	defer origin.Close()
	rng := rand.New(rand.NewSource(c.Seed))
	var scs []*h1.Scenario
	behs, err := h1.Simulate(c, "h1_c03_sim", h1.SimOpts{MaxReq: c.Pick(3, 5), Faults: true, N: c.Pick(500, 4000), Depth: 90})
	if err != nil {
		c.Inconclusive("%v", err)
		return
	}
	seen := map[string]int{}
	for _, b := range behs {
		env := h1.EnvOf(b)
		faulty := false
		for _, o := range env.Origin {
			if o == "refuse" || o == "reached502" || o == "trunc" {
				faulty = true
			}
		}
		if !faulty || seen[env.Key] >= c.Pick(2, 8) {
			continue
		}
		seen[env.Key]++
		scs = append(scs, h1.Concretise(env, rng, origin.Addr(), c.Thorough()))
		c.Eval("beh:" + env.Key)
	}
	// truncation sweep: request 1 cut at offset k, then a well-formed request 2
	for _, framing := range []string{"cl", "chunked"} {
		base := ep.ResSpec{Status: 200, Framing: framing, Body: []byte("0123456789abcdefghij"), Chunks: []int{7, 9}, Headers: ep.H{{"Content-Type", "text/plain"}}}
		total := len(base.Bytes(1))
		var offs []int
		if c.Thorough() {
			for k := 0; k < total; k++ {
				offs = append(offs, k)
			}
		} else {
			head := strings.Index(string(base.Bytes(1)), "\r\n\r\n") + 4
			offs = []int{0, 1, 9, 10, head / 2, head - 1, head, head + 1, head + 5, total - 6, total - 2, total - 1}
			for i := 0; i < 8; i++ {
				offs = append(offs, rng.Intn(total))
			}
		}
		sort.Ints(offs)
		for _, k := range offs {
			head := strings.Index(string(base.Bytes(1)), "\r\n\r\n") + 4
			r1 := base
			r1.Fault, r1.CutAt = "cut", k
			kind := "trunc"
			if k < head {
				kind = "reached502"
			}
			if framing == "chunked" && k >= total-5 && k < total {
				// inside "0\r\n\r\n": all data delivered, terminator incomplete: still detectably incomplete
				kind = "trunc"
			}
			mk := func(id int, res ep.ResSpec) *ep.Exchange {
				return &ep.Exchange{RqB: "pass", RsB: "pass", Res: res,
					Req: ep.ReqSpec{ID: id, Method: "GET", Target: fmt.Sprintf("/sweep/%s/%d/%d", framing, k, id), Path: fmt.Sprintf("/sweep/%s/%d/%d", framing, k, id), Host: origin.Addr(), Version: "HTTP/1.1", Framing: "none"}}
			}
			good := ep.ResSpec{Status: 200, Framing: "cl", Body: []byte("second response"), Headers: ep.H{{"Content-Type", "text/plain"}}}
			sc := &h1.Scenario{Ex: []*ep.Exchange{mk(1, r1), mk(2, good)},
				Sched:  []ep.SchedOp{{Op: "send", I: 1}, {Op: "wait", I: 1}, {Op: "send", I: 2}},
				Origin: fmt.Sprintf("sweep:%s@%d(%s)", framing, k, kind)}
			if k%2 == 1 {
				sc.Sched = []ep.SchedOp{{Op: "send", I: 1}, {Op: "send", I: 2}} // pipelined
			}
			scs = append(scs, sc)
			c.Eval(sc.Origin)
		}
	}
	results, err := h1.RunScenarios(scs, h1.RunOpts{ProxyAddr: ch.addr, Origin: origin, Rec: rec})
	if err != nil {
		if !ch.alive() {
			c.Violation("proxy process died during fault scenarios", "the proxy child exited: "+ch.errb.String(), nil)
		} else {
			c.Inconclusive("driver: %v", err)
		}
		return
	}
	c.Trace(len(results))
	for i, r := range results {
		if i%60 == 0 {
			c.Sample(r.Scenario.Describe())
		}
	}
	if !ch.alive() {
		c.Violation("proxy process died during fault scenarios", "the proxy child exited: "+clip(ch.errb.String(), 1500), nil)
		return
	}
	for _, r := range h1.Validate(c, rec, results, false, "c03") {
		at := ""
		if r.Line >= 1 && r.Line-1 < len(r.Lines) {
			at = r.Lines[r.Line-1]
		}
		sig := "fault handling: " + r.Res.Scenario.Origin
		if strings.HasPrefix(r.Res.Scenario.Origin, "sweep:") {
			sig = "fault handling: " + r.Res.Scenario.Origin[:strings.Index(r.Res.Scenario.Origin, "@")] + " " + r.Res.Scenario.Origin[strings.Index(r.Res.Scenario.Origin, "("):]
		}
		c.Violation(sig, fmt.Sprintf("%s; first unmatched event (#%d): %s; notes: %v; scenario: %v", r.Reason, r.Line, at, r.Res.Notes, r.Res.Scenario.Describe()),
			map[string]interface{}{"scenario": r.Res.Scenario.Describe(), "trace": r.Lines})
	}
	clientBytes(c, ch, origin, "plain")
	mch, err := startChild("mitm")
	if err != nil {
		c.Inconclusive("%v", err)
		return
	}
	defer mch.stop()
	clientBytes(c, mch, origin, "mitm")
}

func clip(s string, n int) string {
	if len(s) > n {
		return s[:n]
	}
	return s
}

var tokenBytes = map[string]string{"CRLF": "\r\n", "LF": "\n", "CR": "\r", "SP": " ", "COLON": ":", "NUL": "\x00", "0x16": "\x16\x03\x01\x02\x00", "0xff": "\xff\xfe",
	"LONGLINE": strings.Repeat("A", 1<<20), "HEADER-NO-COLON": "NoColonHere\r\n", "TAB": "\t", "obs-fold": "\r\n continued",
	"chunk:5": "5\r\nhello\r\n", "chunk:ffffffffffffffff": "ffffffffffffffff\r\n", "chunk:zz": "zz\r\n", "chunk:0": "0\r\n\r\n"}

func render(tokens []string, originAddr string) []byte {
	var b strings.Builder
	for _, t := range tokens {
		if s, ok := tokenBytes[t]; ok {
			b.WriteString(s)
			continue
		}
		t = strings.ReplaceAll(t, "origin", originAddr)
		b.WriteString(t)
		if strings.Contains(t, ": ") {
			b.WriteString("\r\n")
		}
	}
	return []byte(b.String())
}

// clientBytes sends hostile byte streams and checks the proxy process survives.
func clientBytes(c *core.Ctx, ch *child, origin *ep.Origin, mode string) {
	if !c.Want("bytes:") {
		return
	}
	cfg := "SPECIFICATION Spec\nCONSTANTS MaxTokens = 9\nINVARIANT ProxyAlive\n"
	os.WriteFile(filepath.Join(c.Work, "cb.cfg"), []byte(cfg), 0o644)
	base := filepath.Join(c.Work, "cb_sim")
	n := c.Pick(250, 3000)
	res, err := core.RunTLC(c.Work, core.TLCOpts{Module: "ClientBytes", Cfg: "cb.cfg", Workers: 1, Timeout: 5 * time.Minute,
		Args: []string{"-simulate", fmt.Sprintf("file=%s,num=%d", base, n), "-depth", "11", "-seed", fmt.Sprint(c.Seed)}})
	if err != nil || res.Infra() || res.Violated != "" {
		c.Inconclusive("TLC simulation of ClientBytes failed: %v %s", err, res.Tail(15))
		return
	}
	files, _ := filepath.Glob(base + "_*")
	sort.Strings(files)
	var streams [][]string
	for _, f := range files {
		steps, err := core.ParseSimFile(f)
		if err != nil || len(steps) == 0 {
			continue
		}
		streams = append(streams, steps[len(steps)-1].State["stream"].Strs())
	}
	// grammar mutations of a valid request
	valid := []string{"POST ", "http://origin/x", " HTTP/1.1", "CRLF", "Host: origin", "Content-Length: 5", "CRLF", "hello"}
	for i := range valid {
		for _, rep := range []string{"NUL", "LONGLINE", "Content-Length: -1", "Content-Length: 99999999999999999999", "Transfer-Encoding: gzip", "chunk:zz", "HEADER-NO-COLON", "0x16"} {
			m := append([]string{}, valid...)
			m[i] = rep
			streams = append(streams, m)
		}
	}
	// CONNECT followed by nothing, by garbage, by the start of a TLS handshake
	for _, tail := range [][]string{{}, {"NUL"}, {"0x16"}, {"0x16", "0xff"}, {"GET ", "/path", " HTTP/1.1", "CRLF", "CRLF"}, {"LONGLINE"}} {
		streams = append(streams, append([]string{"CONNECT ", "origin:443", " HTTP/1.1", "CRLF", "Host: origin", "CRLF"}, tail...))
	}
	origin.Set(nil)
	for i, toks := range streams {
		raw := render(toks, origin.Addr())
		conn, err := net.DialTimeout("tcp", ch.addr, 2*time.Second)
		if err != nil {
			// a proxy that has just crashed may not have been reaped yet
			for w := 0; w < 100 && ch.alive(); w++ {
				time.Sleep(10 * time.Millisecond)
			}
			if !ch.alive() {
				c.Violation("bytes: proxy process died", fmt.Sprintf("before stream %d; stderr: %s", i, clip(ch.errb.String(), 1500)), nil)
				return
			}
			c.Inconclusive("dial proxy: %v", err)
			return
		}
		conn.SetDeadline(time.Now().Add(300 * time.Millisecond))
		conn.Write(raw)
		buf := make([]byte, 4096)
		conn.Read(buf)
		if i%2 == 0 {
			conn.Read(buf) // stay a little longer: the proxy may be waiting for more
		}
		conn.Close()
		nt := ""
		if len(toks) >= 2 {
			nt = "bytes:" + mode + ":" + strings.Join(toks, "|")
		}
		c.Eval(nt)
		if i%100 == 0 {
			c.Sample(map[string]interface{}{"client_byte_stream_tokens": toks})
		}
		if !ch.alive() {
			c.Violation("bytes: proxy process died ("+mode+")", fmt.Sprintf("after client stream %v; stderr: %s", toks, clip(ch.errb.String(), 2000)), map[string]interface{}{"tokens": toks})
			return
		}
	}
	// the proxy still serves a fresh connection
	good := &ep.Exchange{RqB: "pass", RsB: "pass", Res: ep.ResSpec{Status: 200, Framing: "cl", Body: []byte("still here")},
		Req: ep.ReqSpec{ID: 1, Method: "GET", Target: "/alive", Path: "/alive", Host: origin.Addr(), Version: "HTTP/1.1", Framing: "none"}}
	rec := &core.Recorder{}
	o2, err := ep.NewOrigin(rec)
	if err != nil {
		c.Inconclusive("origin: %v", err)
		return
	}
	defer o2.Close()
	good.Req.Host = o2.Addr()
	o2.Set([]*ep.Exchange{good})
	cr, err := ep.RunClient(ch.addr, rec, []*ep.Exchange{good}, []ep.SchedOp{{Op: "send", I: 1}}, 0, 3*time.Second)
	if err != nil || cr.Items < 1 || !strings.Contains(string(rec.Bytes()), `"k":"ok"`) {
		c.Violation("bytes: proxy no longer serves", fmt.Sprintf("after %d hostile client streams a fresh exchange failed: %v %v", len(streams), err, cr), nil)
	}
	c.Extra("client_byte_streams_"+mode, len(streams))
}
