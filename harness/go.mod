module verif/harness

go 1.18

require github.com/google/martian/v3 v3.0.0

require (
	golang.org/x/net v0.0.0-20190628185345-da137c7871d7 // indirect
	golang.org/x/text v0.3.0 // indirect
)

replace github.com/google/martian/v3 => /repo
