module verif/harness

go 1.18

require (
	github.com/golang/snappy v0.0.3
	github.com/google/martian/v3 v3.0.0
	golang.org/x/net v0.0.0-20190628185345-da137c7871d7
)

require golang.org/x/text v0.3.0 // indirect

replace github.com/google/martian/v3 => /repo
