// Package c08 decides property C08 (faithful per-stream HTTP/2 relaying): behaviours of
// H2Relay.tla become bidirectional frame scripts run through h2.Config.Proxy between harness
// endpoints with their own HPACK state; TLC validates both directions of every session
// against H2RelayTrace. The same sessions serve C09; each check reports its own class.
package c08

import (
	"verif/harness/core"
	"verif/harness/h2x"
)

func init() { core.Register("C08", func(c *core.Ctx) { h2x.Check(c, "C08") }) }
