package core

import (
	"bufio"
	"fmt"
	"os"
	"regexp"
	"strings"
)

// Edge of a TLC state graph.
type Edge struct {
	From, To string
	Action   string
	Args     []Val
	Label    string
}

// Graph is a TLC state graph dumped with -dump dot,actionlabels.
type Graph struct {
	States map[string]State
	Order  []string // node ids in file order
	Edges  []Edge
	Out    map[string][]int // node id -> indices into Edges
	Init   []string
}

var (
	nodeRe = regexp.MustCompile(`^(-?\d+) \[label="((?:[^"\\]|\\.)*)"(,style = filled)?(?:,tooltip=.*)?\];?$`)
	edgeRe = regexp.MustCompile(`^(-?\d+) -> (-?\d+) \[label="((?:[^"\\]|\\.)*)",color=.*\];?$`)
)

func unescapeDot(s string) string {
	var sb strings.Builder
	for i := 0; i < len(s); i++ {
		if s[i] == '\\' && i+1 < len(s) {
			i++
			switch s[i] {
			case 'n':
				sb.WriteByte('\n')
			case '"':
				sb.WriteByte('"')
			case '\\':
				sb.WriteByte('\\')
			default:
				sb.WriteByte('\\')
				sb.WriteByte(s[i])
			}
			continue
		}
		sb.WriteByte(s[i])
	}
	return sb.String()
}

// ParseDot reads a graph written by `tlc -dump dot,actionlabels`.
func ParseDot(path string) (*Graph, error) {
	f, err := os.Open(path)
	if err != nil {
		return nil, err
	}
	defer f.Close()
	g := &Graph{States: map[string]State{}, Out: map[string][]int{}}
	sc := bufio.NewScanner(f)
	sc.Buffer(make([]byte, 1<<20), 1<<28)
	for sc.Scan() {
		line := strings.TrimSpace(sc.Text())
		if m := edgeRe.FindStringSubmatch(line); m != nil {
			lab := unescapeDot(m[3])
			name, args, err := ParseCall(lab)
			if err != nil {
				return nil, err
			}
			g.Out[m[1]] = append(g.Out[m[1]], len(g.Edges))
			g.Edges = append(g.Edges, Edge{From: m[1], To: m[2], Action: name, Args: args, Label: lab})
			continue
		}
		if m := nodeRe.FindStringSubmatch(line); m != nil {
			st, err := ParseState(unescapeDot(m[2]))
			if err != nil {
				return nil, err
			}
			if _, dup := g.States[m[1]]; !dup {
				g.Order = append(g.Order, m[1])
			}
			g.States[m[1]] = st
			if m[3] != "" {
				g.Init = append(g.Init, m[1])
			}
		}
	}
	if err := sc.Err(); err != nil {
		return nil, err
	}
	if len(g.States) == 0 {
		return nil, fmt.Errorf("graph %s: no states parsed", path)
	}
	return g, nil
}

// Paths computes, by BFS from the initial states, for every reachable node the
// list of edge indices of a shortest path leading to it.
func (g *Graph) Paths() map[string][]int {
	paths := map[string][]int{}
	var queue []string
	for _, n := range g.Init {
		paths[n] = []int{}
		queue = append(queue, n)
	}
	for len(queue) > 0 {
		n := queue[0]
		queue = queue[1:]
		for _, ei := range g.Out[n] {
			e := g.Edges[ei]
			if _, seen := paths[e.To]; seen {
				continue
			}
			p := make([]int, len(paths[n])+1)
			copy(p, paths[n])
			p[len(p)-1] = ei
			paths[e.To] = p
			queue = append(queue, e.To)
		}
	}
	return paths
}

// Step of a simulated behaviour.
type Step struct {
	Action string
	Args   []Val
	State  State
}

var simHdr = regexp.MustCompile(`^\\\* <?(\w+)(\(.*\))? line \d+, col`)
var simHdr2 = regexp.MustCompile(`^STATE_\d+ ==`)

// ParseSimFile reads one behaviour written by `tlc -simulate file=...`.
// Format (TLC 1.8):  STATE_1 == \n /\ x = ... \n\n \* <Action("a") line 12, col 3 ...>\n STATE_2 == ...
func ParseSimFile(path string) ([]Step, error) {
	b, err := os.ReadFile(path)
	if err != nil {
		return nil, err
	}
	var steps []Step
	var cur *Step
	var body strings.Builder
	pendingAct := ""
	flush := func() error {
		if cur == nil {
			return nil
		}
		st, err := ParseState(body.String())
		if err != nil {
			return err
		}
		cur.State = st
		steps = append(steps, *cur)
		cur = nil
		body.Reset()
		return nil
	}
	for _, line := range strings.Split(string(b), "\n") {
		t := strings.TrimSpace(line)
		if strings.HasPrefix(t, "\\*") {
			if m := simHdr.FindStringSubmatch(t); m != nil {
				pendingAct = m[1] + m[2]
			}
			continue
		}
		if simHdr2.MatchString(t) {
			if err := flush(); err != nil {
				return nil, err
			}
			cur = &Step{}
			if pendingAct != "" {
				name, args, err := ParseCall(pendingAct)
				if err != nil {
					return nil, err
				}
				cur.Action, cur.Args = name, args
			}
			pendingAct = ""
			continue
		}
		if strings.HasPrefix(t, "====") || strings.HasPrefix(t, "----") {
			continue
		}
		if cur != nil {
			body.WriteString(line)
			body.WriteByte('\n')
		}
	}
	if err := flush(); err != nil {
		return nil, err
	}
	return steps, nil
}
