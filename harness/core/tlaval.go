// Package core holds the plumbing shared by every check: a parser for the
// values TLC prints, the DOT state-graph and -simulate readers, the TLC runner,
// trace recording, evidence and known-findings handling.
package core

import (
	"fmt"
	"sort"
	"strconv"
	"strings"
)

// Kind of a TLA+ value as printed by TLC.
type Kind int

const (
	KInt Kind = iota
	KStr
	KBool
	KSeq
	KSet
	KRec
	KFun
	KModel
)

// Val is a parsed TLA+ value.
type Val struct {
	K      Kind
	I      int64
	S      string // string contents or model value name
	B      bool
	Elems  []Val          // sequence or set elements
	Fields map[string]Val // record fields
	Pairs  [][2]Val       // function pairs (non-string domain)
}

func (v Val) String() string {
	switch v.K {
	case KInt:
		return strconv.FormatInt(v.I, 10)
	case KStr:
		return strconv.Quote(v.S)
	case KBool:
		if v.B {
			return "TRUE"
		}
		return "FALSE"
	case KModel:
		return v.S
	case KSeq, KSet:
		parts := make([]string, len(v.Elems))
		for i, e := range v.Elems {
			parts[i] = e.String()
		}
		if v.K == KSeq {
			return "<<" + strings.Join(parts, ", ") + ">>"
		}
		return "{" + strings.Join(parts, ", ") + "}"
	case KRec:
		keys := make([]string, 0, len(v.Fields))
		for k := range v.Fields {
			keys = append(keys, k)
		}
		sort.Strings(keys)
		parts := make([]string, len(keys))
		for i, k := range keys {
			parts[i] = k + " |-> " + v.Fields[k].String()
		}
		return "[" + strings.Join(parts, ", ") + "]"
	case KFun:
		parts := make([]string, len(v.Pairs))
		for i, p := range v.Pairs {
			parts[i] = p[0].String() + " :> " + p[1].String()
		}
		return "(" + strings.Join(parts, " @@ ") + ")"
	}
	return "?"
}

// Get returns a record field or function application at a string key.
func (v Val) Get(k string) Val {
	if v.K == KRec {
		if f, ok := v.Fields[k]; ok {
			return f
		}
	}
	if v.K == KFun {
		for _, p := range v.Pairs {
			if (p[0].K == KStr || p[0].K == KModel) && p[0].S == k {
				return p[1]
			}
		}
	}
	panic(fmt.Sprintf("tlaval: no field %q in %s", k, v))
}

// Has reports whether a record has the field.
func (v Val) Has(k string) bool {
	if v.K == KRec {
		_, ok := v.Fields[k]
		return ok
	}
	if v.K == KFun {
		for _, p := range v.Pairs {
			if (p[0].K == KStr || p[0].K == KModel) && p[0].S == k {
				return true
			}
		}
	}
	return false
}

// At returns function application at an integer (sequence index 1-based too).
func (v Val) At(i int64) Val {
	if v.K == KSeq {
		return v.Elems[i-1]
	}
	if v.K == KFun {
		for _, p := range v.Pairs {
			if p[0].K == KInt && p[0].I == i {
				return p[1]
			}
		}
	}
	panic(fmt.Sprintf("tlaval: no index %d in %s", i, v))
}

// Len of a sequence, set or function.
func (v Val) Len() int {
	switch v.K {
	case KSeq, KSet:
		return len(v.Elems)
	case KFun:
		return len(v.Pairs)
	case KRec:
		return len(v.Fields)
	}
	return 0
}

// Int returns the integer value.
func (v Val) Int() int { return int(v.I) }

// Strs returns a sequence/set of strings as []string.
func (v Val) Strs() []string {
	out := make([]string, len(v.Elems))
	for i, e := range v.Elems {
		out[i] = e.S
	}
	return out
}

// Ints returns a sequence/set of ints as []int.
func (v Val) Ints() []int {
	out := make([]int, len(v.Elems))
	for i, e := range v.Elems {
		out[i] = int(e.I)
	}
	return out
}

// Go converts to plain Go data (for JSON output in evidence).
func (v Val) Go() interface{} {
	switch v.K {
	case KInt:
		return v.I
	case KStr, KModel:
		return v.S
	case KBool:
		return v.B
	case KSeq, KSet:
		out := make([]interface{}, len(v.Elems))
		for i, e := range v.Elems {
			out[i] = e.Go()
		}
		return out
	case KRec:
		m := map[string]interface{}{}
		for k, f := range v.Fields {
			m[k] = f.Go()
		}
		return m
	case KFun:
		m := map[string]interface{}{}
		for _, p := range v.Pairs {
			m[strings.Trim(p[0].String(), "\"")] = p[1].Go()
		}
		return m
	}
	return nil
}

type parser struct {
	s string
	i int
}

func (p *parser) ws() {
	for p.i < len(p.s) && (p.s[p.i] == ' ' || p.s[p.i] == '\n' || p.s[p.i] == '\t' || p.s[p.i] == '\r') {
		p.i++
	}
}

func (p *parser) has(tok string) bool {
	p.ws()
	return strings.HasPrefix(p.s[p.i:], tok)
}

func (p *parser) eat(tok string) bool {
	if p.has(tok) {
		p.i += len(tok)
		return true
	}
	return false
}

func (p *parser) expect(tok string) {
	if !p.eat(tok) {
		end := p.i + 40
		if end > len(p.s) {
			end = len(p.s)
		}
		panic(fmt.Sprintf("tlaval: expected %q at %d: %q", tok, p.i, p.s[p.i:end]))
	}
}

func isIdent(c byte) bool {
	return c == '_' || (c >= 'a' && c <= 'z') || (c >= 'A' && c <= 'Z') || (c >= '0' && c <= '9')
}

func (p *parser) ident() string {
	p.ws()
	st := p.i
	for p.i < len(p.s) && isIdent(p.s[p.i]) {
		p.i++
	}
	return p.s[st:p.i]
}

func (p *parser) value() Val {
	p.ws()
	if p.i >= len(p.s) {
		panic("tlaval: unexpected end")
	}
	c := p.s[p.i]
	switch {
	case c == '"':
		p.i++
		var sb strings.Builder
		for p.s[p.i] != '"' {
			if p.s[p.i] == '\\' {
				p.i++
				switch p.s[p.i] {
				case 'n':
					sb.WriteByte('\n')
				case 't':
					sb.WriteByte('\t')
				case 'r':
					sb.WriteByte('\r')
				default:
					sb.WriteByte(p.s[p.i])
				}
			} else {
				sb.WriteByte(p.s[p.i])
			}
			p.i++
		}
		p.i++
		return Val{K: KStr, S: sb.String()}
	case strings.HasPrefix(p.s[p.i:], "<<"):
		p.i += 2
		v := Val{K: KSeq}
		if p.eat(">>") {
			return v
		}
		for {
			v.Elems = append(v.Elems, p.value())
			if p.eat(">>") {
				return v
			}
			p.expect(",")
		}
	case c == '{':
		p.i++
		v := Val{K: KSet}
		if p.eat("}") {
			return v
		}
		for {
			v.Elems = append(v.Elems, p.value())
			if p.eat("}") {
				return v
			}
			p.expect(",")
		}
	case c == '[':
		p.i++
		v := Val{K: KRec, Fields: map[string]Val{}}
		for {
			k := p.ident()
			p.expect("|->")
			v.Fields[k] = p.value()
			if p.eat("]") {
				return v
			}
			p.expect(",")
		}
	case c == '(':
		p.i++
		v := Val{K: KFun}
		for {
			k := p.value()
			p.expect(":>")
			val := p.value()
			v.Pairs = append(v.Pairs, [2]Val{k, val})
			if p.eat(")") {
				return v
			}
			p.expect("@@")
		}
	case c == '-' || (c >= '0' && c <= '9'):
		st := p.i
		p.i++
		for p.i < len(p.s) && p.s[p.i] >= '0' && p.s[p.i] <= '9' {
			p.i++
		}
		n, err := strconv.ParseInt(p.s[st:p.i], 10, 64)
		if err != nil {
			panic("tlaval: bad int " + p.s[st:p.i])
		}
		if strings.HasPrefix(p.s[p.i:], "..") {
			p.i += 2
			hi := p.value()
			v := Val{K: KSet}
			for k := n; k <= hi.I; k++ {
				v.Elems = append(v.Elems, Val{K: KInt, I: k})
			}
			return v
		}
		return Val{K: KInt, I: n}
	default:
		id := p.ident()
		switch id {
		case "TRUE":
			return Val{K: KBool, B: true}
		case "FALSE":
			return Val{K: KBool, B: false}
		case "":
			end := p.i + 40
			if end > len(p.s) {
				end = len(p.s)
			}
			panic(fmt.Sprintf("tlaval: unexpected %q", p.s[p.i:end]))
		}
		return Val{K: KModel, S: id}
	}
}

// ParseVal parses one TLA+ value.
func ParseVal(s string) (v Val, err error) {
	defer func() {
		if r := recover(); r != nil {
			err = fmt.Errorf("%v", r)
		}
	}()
	p := &parser{s: s}
	v = p.value()
	p.ws()
	if p.i != len(p.s) {
		return v, fmt.Errorf("tlaval: trailing input at %d: %q", p.i, s[p.i:])
	}
	return v, nil
}

// State maps variable names to values.
type State map[string]Val

// ParseState parses "/\ x = v\n/\ y = w" (or "x = v" for a single variable).
func ParseState(s string) (st State, err error) {
	defer func() {
		if r := recover(); r != nil {
			err = fmt.Errorf("%v in state %q", r, s)
		}
	}()
	st = State{}
	p := &parser{s: s}
	for {
		p.ws()
		if p.i >= len(p.s) {
			return st, nil
		}
		p.eat("/\\")
		name := p.ident()
		if name == "" {
			return st, fmt.Errorf("tlaval: expected variable name at %d in %q", p.i, s)
		}
		p.expect("=")
		st[name] = p.value()
	}
}

// ParseCall parses an action label such as `RecordRequest("a", 3)` into name and args.
func ParseCall(s string) (name string, args []Val, err error) {
	defer func() {
		if r := recover(); r != nil {
			err = fmt.Errorf("%v in call %q", r, s)
		}
	}()
	p := &parser{s: s}
	name = p.ident()
	if !p.eat("(") {
		return name, nil, nil
	}
	if p.eat(")") {
		return name, nil, nil
	}
	for {
		args = append(args, p.value())
		if p.eat(")") {
			return name, args, nil
		}
		p.expect(",")
	}
}
