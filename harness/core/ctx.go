package core

import (
	"crypto/sha1"
	"encoding/hex"
	"encoding/json"
	"fmt"
	"math/rand"
	"os"
	"path/filepath"
	"sort"
	"strings"
	"sync"
	"time"
)

// Root of the verification tree.
var Root = "/verif"

// Ctx is the per-run context of one property check.
type Ctx struct {
	ID     string
	Tier   string // quick | thorough
	Seed   int64
	Work   string // scratch directory, removed by Finish
	Rand   *rand.Rand
	Filter string // when replaying: only scenarios whose key has this prefix run
	start  time.Time

	mu           sync.Mutex
	level        string
	states       int64
	transitions  int64
	traces       int64
	evals        int64
	nontrivial   map[string]struct{}
	samples      []interface{}
	rule         string
	explanation  string
	assumptions  []string
	extra        map[string]interface{}
	exhaustive   bool
	violations   []violation
	knownHit     map[string]string
	inconclusive []string
	findings     *Findings
}

type violation struct {
	Sig, Detail, Replay string
}

// Findings is the committed known-findings file.
type Findings struct {
	Known []Finding `json:"known"`
	Fixed []Finding `json:"fixed"`
}

// Finding identifies one recorded defect by property and signature.
type Finding struct {
	Property  string `json:"property"`
	Signature string `json:"signature"`
	Commit    string `json:"commit,omitempty"`
	What      string `json:"what"`
}

// NewCtx prepares a run.
func NewCtx(id, tier string, seed int64) (*Ctx, error) {
	c := &Ctx{ID: id, Tier: tier, Seed: seed, start: time.Now(), level: "model_checking",
		nontrivial: map[string]struct{}{}, knownHit: map[string]string{}, extra: map[string]interface{}{}}
	c.Rand = rand.New(rand.NewSource(seed))
	base := filepath.Join(Root, ".work")
	if err := os.MkdirAll(base, 0o755); err != nil {
		return nil, err
	}
	w, err := os.MkdirTemp(base, id+"-")
	if err != nil {
		return nil, err
	}
	c.Work = w
	if err := CopySpecs(filepath.Join(Root, "specs"), w); err != nil {
		return nil, err
	}
	c.findings = &Findings{}
	if b, err := os.ReadFile(filepath.Join(Root, "findings", "known_findings.json")); err == nil {
		if err := json.Unmarshal(b, c.findings); err != nil {
			return nil, fmt.Errorf("known_findings.json: %v", err)
		}
	}
	return c, nil
}

// Thorough reports whether the thorough tier was requested.
func (c *Ctx) Thorough() bool { return c.Tier == "thorough" }

// Pick returns q in the quick tier and t in the thorough tier.
func (c *Ctx) Pick(q, t int) int {
	if c.Thorough() {
		return t
	}
	return q
}

// Want reports whether the scenario with this key should run (replay filter).
func (c *Ctx) Want(key string) bool {
	return c.Filter == "" || strings.HasPrefix(key, c.Filter)
}

// Model records the size of an exhaustive TLC exploration.
func (c *Ctx) Model(r *TLCResult) {
	c.mu.Lock()
	defer c.mu.Unlock()
	c.states += r.Distinct
	c.transitions += r.Generated
}

// ModelGraph records a graph's size.
func (c *Ctx) ModelGraph(g *Graph) {
	c.mu.Lock()
	defer c.mu.Unlock()
	c.extra["graph_states"] = len(g.States)
	c.extra["graph_edges"] = len(g.Edges)
}

// Eval counts one evaluation against the implementation; key (may be empty)
// identifies a distinct non-trivial case.
func (c *Ctx) Eval(nontrivialKey string) {
	c.mu.Lock()
	defer c.mu.Unlock()
	c.evals++
	if nontrivialKey != "" {
		c.nontrivial[nontrivialKey] = struct{}{}
	}
}

// Trace counts implementation runs replayed or validated.
func (c *Ctx) Trace(n int) {
	c.mu.Lock()
	defer c.mu.Unlock()
	c.traces += int64(n)
}

// Sample keeps up to 8 example cases for the evidence file.
func (c *Ctx) Sample(x interface{}) {
	c.mu.Lock()
	defer c.mu.Unlock()
	if len(c.samples) < 8 {
		c.samples = append(c.samples, x)
	}
}

// Describe sets the enumeration rule and explanation for the evidence file.
func (c *Ctx) Describe(rule, explanation string, exhaustive bool, assumptions ...string) {
	c.mu.Lock()
	defer c.mu.Unlock()
	c.rule, c.explanation, c.exhaustive = rule, explanation, exhaustive
	c.assumptions = append(c.assumptions, assumptions...)
}

// Extra adds a free-form coverage key.
func (c *Ctx) Extra(k string, v interface{}) {
	c.mu.Lock()
	defer c.mu.Unlock()
	c.extra[k] = v
}

// Inconclusive records an infrastructure problem: the run exits 2.
func (c *Ctx) Inconclusive(format string, a ...interface{}) {
	c.mu.Lock()
	defer c.mu.Unlock()
	c.inconclusive = append(c.inconclusive, fmt.Sprintf(format, a...))
}

// Violation reports an observation of the real code that the specification rejects.
// sig identifies the failing scenario class and observation; if it is listed in the
// known-findings file it is downgraded to a KNOWN-FINDING line. replay is stored as JSON.
func (c *Ctx) Violation(sig, detail string, replay interface{}) {
	c.mu.Lock()
	defer c.mu.Unlock()
	for _, f := range c.findings.Known {
		if f.Property == c.ID && f.Signature == sig {
			if _, seen := c.knownHit[sig]; !seen {
				c.knownHit[sig] = f.What
			}
			return
		}
	}
	for _, v := range c.violations {
		if v.Sig == sig {
			return // one report per signature
		}
	}
	if len(c.violations) >= 10 {
		c.extra["violations_not_listed"] = true
		return
	}
	h := sha1.Sum([]byte(sig))
	name := fmt.Sprintf("%s-%s.json", c.ID, hex.EncodeToString(h[:6]))
	path := filepath.Join(Root, "replays", name)
	os.MkdirAll(filepath.Dir(path), 0o755)
	b, _ := json.MarshalIndent(map[string]interface{}{
		"property": c.ID, "signature": sig, "detail": detail, "seed": c.Seed, "tier": c.Tier, "scenario": replay,
	}, "", " ")
	os.WriteFile(path, b, 0o644)
	c.violations = append(c.violations, violation{sig, detail, path})
}

// Violations returns the number of unlisted violations so far.
func (c *Ctx) Violations() int {
	c.mu.Lock()
	defer c.mu.Unlock()
	return len(c.violations)
}

// Finish writes the evidence file, prints verdict lines and returns the exit code.
func (c *Ctx) Finish() int {
	c.mu.Lock()
	defer c.mu.Unlock()
	if os.Getenv("VERIF_KEEP_WORK") == "" {
		os.RemoveAll(c.Work)
	}
	cov := map[string]interface{}{
		"states": c.states, "transitions": c.transitions,
		"traces_validated_against_impl": c.traces,
		"evaluations":                   c.evals,
		"distinct_nontrivial":           len(c.nontrivial),
		"rule":                          c.rule,
		"explanation":                   c.explanation,
		"samples":                       c.samples,
		"exhaustive":                    c.exhaustive,
	}
	for k, v := range c.extra {
		cov[k] = v
	}
	known := make([]string, 0, len(c.knownHit))
	for s := range c.knownHit {
		known = append(known, s)
	}
	sort.Strings(known)
	cov["known_findings_observed"] = known
	ev := map[string]interface{}{
		"property_id": c.ID, "tier": c.Tier, "seed": c.Seed, "level": c.level,
		"coverage": cov, "assumptions": c.assumptions,
		"wall_s":     time.Since(c.start).Seconds(),
		"violations": len(c.violations),
	}
	if len(c.inconclusive) > 0 {
		ev["inconclusive"] = c.inconclusive
	}
	if c.Filter == "" {
		b, _ := json.MarshalIndent(ev, "", " ")
		os.MkdirAll(filepath.Join(Root, "evidence"), 0o755)
		if err := os.WriteFile(filepath.Join(Root, "evidence", c.ID+".json"), append(b, '\n'), 0o644); err != nil {
			fmt.Fprintf(os.Stderr, "cannot write evidence: %v\n", err)
			return 2
		}
	}
	for _, s := range known {
		fmt.Printf("KNOWN-FINDING: property=%s %s — %s\n", c.ID, s, c.knownHit[s])
	}
	for _, v := range c.violations {
		fmt.Printf("VIOLATION property=%s replay=%s\n", c.ID, v.Replay)
		fmt.Printf("  signature: %s\n  detail: %s\n", v.Sig, v.Detail)
	}
	if len(c.violations) > 0 {
		return 1
	}
	if len(c.inconclusive) > 0 {
		for i, m := range c.inconclusive {
			if i >= 5 {
				fmt.Printf("INCONCLUSIVE property=%s ... and %d more\n", c.ID, len(c.inconclusive)-5)
				break
			}
			fmt.Printf("INCONCLUSIVE property=%s %s\n", c.ID, m)
		}
		return 2
	}
	fmt.Printf("OK property=%s tier=%s seed=%d states=%d transitions=%d impl_runs=%d evaluations=%d nontrivial=%d wall=%.1fs\n",
		c.ID, c.Tier, c.Seed, c.states, c.transitions, c.traces, c.evals, len(c.nontrivial), time.Since(c.start).Seconds())
	return 0
}

// CheckFunc is a property check.
type CheckFunc func(c *Ctx)

var registry = map[string]CheckFunc{}

// Register adds a property check.
func Register(id string, f CheckFunc) { registry[id] = f }

// Lookup finds a property check.
func Lookup(id string) CheckFunc { return registry[id] }

// IDs lists registered checks.
func IDs() []string {
	var ids []string
	for k := range registry {
		ids = append(ids, k)
	}
	sort.Strings(ids)
	return ids
}

// ChildFunc is an entry point run in a child process (`check --child name args...`).
type ChildFunc func(args []string) int

var children = map[string]ChildFunc{}

// RegisterChild adds a child-process entry point.
func RegisterChild(name string, f ChildFunc) { children[name] = f }

// LookupChild finds one.
func LookupChild(name string) ChildFunc { return children[name] }
