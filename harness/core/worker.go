package core

import (
	"bufio"
	"bytes"
	"encoding/json"
	"fmt"
	"io"
	"os"
	"os/exec"
	"strings"
	"sync"
	"time"
)

// Worker runs implementation calls in a child process (`check --child name args...`), one
// JSON request per line on stdin and one JSON reply per line on stdout, so that a crash of
// the code under test (panic in a goroutine, fatal runtime error, out of memory) is an
// observation of the parent instead of the end of the check.
type Worker struct {
	Bin  string
	Name string
	Args []string
	Env  []string
	// CallTimeout bounds one call (0 = 60 s).
	CallTimeout time.Duration

	mu     sync.Mutex
	cmd    *exec.Cmd
	in     io.WriteCloser
	out    *bufio.Reader
	stderr *bytes.Buffer
	Spawns int
}

func (w *Worker) start() error {
	a := append([]string{"--child", w.Name}, w.Args...)
	bin := w.Bin
	if bin == "" {
		bin = SelfBin()
	}
	cmd := exec.Command(bin, a...)
	cmd.Env = append(os.Environ(), w.Env...)
	in, err := cmd.StdinPipe()
	if err != nil {
		return err
	}
	out, err := cmd.StdoutPipe()
	if err != nil {
		return err
	}
	w.stderr = &bytes.Buffer{}
	cmd.Stderr = w.stderr
	if err := cmd.Start(); err != nil {
		return err
	}
	w.cmd, w.in, w.out = cmd, in, bufio.NewReaderSize(out, 1<<20)
	w.Spawns++
	return nil
}

// Call sends one request. crashed is true when the child died or hung while serving it;
// diag then holds the tail of its stderr. The worker restarts on the next call.
func (w *Worker) Call(req, resp interface{}) (crashed bool, diag string, err error) {
	w.mu.Lock()
	defer w.mu.Unlock()
	if w.cmd == nil {
		if err := w.start(); err != nil {
			return false, "", err
		}
	}
	b, err := json.Marshal(req)
	if err != nil {
		return false, "", err
	}
	type reply struct {
		line []byte
		err  error
	}
	ch := make(chan reply, 1)
	go func() {
		if _, err := w.in.Write(append(b, '\n')); err != nil {
			ch <- reply{nil, err}
			return
		}
		line, err := w.out.ReadBytes('\n')
		ch <- reply{line, err}
	}()
	to := w.CallTimeout
	if to == 0 {
		to = 60 * time.Second
	}
	var r reply
	hung := false
	select {
	case r = <-ch:
	case <-time.After(to):
		hung = true
		w.cmd.Process.Kill()
		r = <-ch
	}
	if r.err != nil || hung {
		w.cmd.Process.Kill()
		w.cmd.Wait()
		diag = tailLines(w.stderr.String(), 25)
		if hung {
			diag = fmt.Sprintf("no reply within %v\n%s", to, diag)
		}
		w.cmd = nil
		return true, diag, nil
	}
	if err := json.Unmarshal(r.line, resp); err != nil {
		return false, "", fmt.Errorf("bad worker reply %q: %v", r.line, err)
	}
	return false, "", nil
}

// Close stops the child.
func (w *Worker) Close() {
	w.mu.Lock()
	defer w.mu.Unlock()
	if w.cmd != nil {
		w.in.Close()
		done := make(chan struct{})
		go func() { w.cmd.Wait(); close(done) }()
		select {
		case <-done:
		case <-time.After(2 * time.Second):
			w.cmd.Process.Kill()
			<-done
		}
		w.cmd = nil
	}
}

func tailLines(s string, n int) string {
	ls := strings.Split(strings.TrimRight(s, "\n"), "\n")
	if len(ls) > n {
		// keep the head of a Go crash report: it names the fault
		return strings.Join(ls[:n], "\n")
	}
	return strings.Join(ls, "\n")
}

// ServeWorker is the child side: handle is called for every request line.
func ServeWorker(handle func(req []byte) interface{}) int {
	in := bufio.NewReaderSize(os.Stdin, 1<<20)
	out := bufio.NewWriter(os.Stdout)
	for {
		line, err := in.ReadBytes('\n')
		if len(line) > 0 {
			b, _ := json.Marshal(handle(line))
			out.Write(b)
			out.WriteByte('\n')
			out.Flush()
		}
		if err != nil {
			return 0
		}
	}
}
