package core

import (
	"bytes"
	"encoding/json"
	"fmt"
	"os"
	"os/exec"
	"path/filepath"
	"regexp"
	"strconv"
	"sync"
	"time"
)

// Recorder collects ndjson events. The sequence number is assigned under the
// same mutex that appends the line, so file order is sequence order. Callers
// follow the rule: log a send before writing, log a receive after reading.
type Recorder struct {
	mu  sync.Mutex
	buf bytes.Buffer
	n   int
}

// Ev is one event; "ev" names the action.
type Ev map[string]interface{}

// Emit appends an event.
func (r *Recorder) Emit(ev string, kv ...interface{}) {
	m := Ev{"ev": ev}
	for i := 0; i+1 < len(kv); i += 2 {
		m[kv[i].(string)] = kv[i+1]
	}
	r.mu.Lock()
	defer r.mu.Unlock()
	r.n++
	m["seq"] = r.n
	b, err := json.Marshal(m)
	if err != nil {
		panic(err)
	}
	r.buf.Write(b)
	r.buf.WriteByte('\n')
}

// Len returns the number of events.
func (r *Recorder) Len() int {
	r.mu.Lock()
	defer r.mu.Unlock()
	return r.n
}

// Bytes returns the ndjson so far.
func (r *Recorder) Bytes() []byte {
	r.mu.Lock()
	defer r.mu.Unlock()
	return append([]byte(nil), r.buf.Bytes()...)
}

// WriteFile stores the trace.
func (r *Recorder) WriteFile(path string) error {
	return os.WriteFile(path, r.Bytes(), 0o644)
}

// TraceVerdict of a trace validation.
type TraceVerdict struct {
	Accepted  bool
	HighWater int    // longest matched prefix (event index, 1-based position of first unmatched event)
	Violated  string // invariant other than the acceptance witness that fired
	Infra     bool
	Res       *TLCResult
}

var hwRe = regexp.MustCompile(`HIGHWATER (\d+)`)
var lRe = regexp.MustCompile(`(?m)^/\\ l = (\d+)$`)

// ValidateTrace runs the trace spec `module` with config cfg on the ndjson file.
// Convention for trace specs: the cfg lists INVARIANT NotAccepted (its violation is
// the acceptance witness), CONSTRAINT HW maintaining TLCGet(1), and a POSTCONDITION
// that prints "HIGHWATER n".
func ValidateTrace(dir, module, cfg, tracePath string, timeout time.Duration, env map[string]string) (*TraceVerdict, error) {
	e := map[string]string{"TRACE": tracePath}
	for k, v := range env {
		e[k] = v
	}
	res, err := RunTLC(dir, TLCOpts{Module: module, Cfg: cfg, Workers: 1, Timeout: timeout, DFS: true, Env: e})
	if err != nil {
		return nil, err
	}
	v := &TraceVerdict{Res: res}
	if res.Violated == "NotAccepted" {
		v.Accepted = true
		return v, nil
	}
	if res.Violated != "" {
		v.Violated = res.Violated
		// the counterexample's last state tells how far the trace had been consumed
		if ms := lRe.FindAllStringSubmatch(res.Out, -1); len(ms) > 0 {
			v.HighWater, _ = strconv.Atoi(ms[len(ms)-1][1])
		}
		return v, nil
	}
	if res.Infra() || res.ExitCode != 0 && !hwRe.MatchString(res.Out) {
		v.Infra = true
		return v, nil
	}
	if m := hwRe.FindStringSubmatch(res.Out); m != nil {
		v.HighWater, _ = strconv.Atoi(m[1])
	}
	return v, nil
}

// SelfBin is the path of the running check binary.
func SelfBin() string {
	if s := os.Getenv("VERIF_SELF"); s != "" {
		return s
	}
	p, _ := os.Executable()
	return p
}

var raceOnce sync.Once
var raceBin string
var raceErr error

// RaceBin builds (once per run) the check binary with the race detector.
func RaceBin(c *Ctx) (string, error) {
	raceOnce.Do(func() {
		out := filepath.Join(c.Work, "check-race")
		cmd := exec.Command("go", "build", "-race", "-tags", "verif", "-o", out, "./cmd/check")
		cmd.Dir = filepath.Join(Root, "harness")
		cmd.Env = append(os.Environ(), "GOFLAGS=-mod=mod", "GOPROXY=off", "GOSUMDB=off", "GOTOOLCHAIN=local", "CGO_ENABLED=1")
		b, err := cmd.CombinedOutput()
		if err != nil {
			raceErr = fmt.Errorf("race build failed: %v\n%s", err, b)
			return
		}
		raceBin = out
	})
	return raceBin, raceErr
}

// RunChild runs `bin --child name args...` and returns combined output and exit code.
func RunChild(bin string, timeout time.Duration, env []string, name string, args ...string) (string, int, error) {
	a := append([]string{"--child", name}, args...)
	cmd := exec.Command(bin, a...)
	cmd.Env = append(os.Environ(), env...)
	var buf bytes.Buffer
	cmd.Stdout = &buf
	cmd.Stderr = &buf
	if err := cmd.Start(); err != nil {
		return "", -1, err
	}
	done := make(chan error, 1)
	go func() { done <- cmd.Wait() }()
	select {
	case <-done:
	case <-time.After(timeout):
		cmd.Process.Kill()
		<-done
		return buf.String(), -2, fmt.Errorf("child %s timed out after %v", name, timeout)
	}
	return buf.String(), cmd.ProcessState.ExitCode(), nil
}
