package core

import (
	"crypto/sha1"
	"encoding/hex"
	"fmt"
	"sort"
	"strings"
	"sync"
)

// Machine is a real object driven by spec actions.
type Machine interface {
	// Apply performs the spec action on the implementation.
	Apply(action string, args []Val) error
	// Project returns the canonical abstract state of the implementation.
	Project() string
}

// ReplayOpts configures ReplayGraph.
type ReplayOpts struct {
	New      func() Machine           // fresh implementation instance
	NewFor   func(init State) Machine // alternative to New when the spec has several initial states
	Abstract func(s State) string     // canonical form of a spec state, comparable with Project()
	// NonTrivial returns a key if the edge exercises the property's antecedent ("" otherwise).
	NonTrivial func(from State, e Edge, to State) string
	SigPrefix  string
	MaxGroups  int // 0 = all; otherwise a deterministic sample of (state,label) groups
	// Parallel > 1 runs whole behaviours concurrently in ReplayPaths (machines must be independent).
	Parallel int
	// Skip excludes behaviours starting in the given initial state.
	Skip func(init State) bool
	// Classify may map a mismatch to a finding-class signature ("" = use the scenario key).
	Classify func(m Machine, got string, wants []string) string
}

// Detailer is optionally implemented by machines to explain their last observation.
type Detailer interface{ Detail() string }

// ReplayGraph executes, for every state s of the graph and every action label a
// enabled in s, a fresh implementation through a shortest path to s and then a, and
// requires the projected implementation state to equal one of the spec's successor
// states under that label. Every mismatch is reported through c.Violation.
func ReplayGraph(c *Ctx, g *Graph, o ReplayOpts) (groups int) {
	paths := g.Paths()
	nodes := make([]string, 0, len(paths))
	for n := range paths {
		nodes = append(nodes, n)
	}
	sort.Slice(nodes, func(i, j int) bool {
		if len(paths[nodes[i]]) != len(paths[nodes[j]]) {
			return len(paths[nodes[i]]) < len(paths[nodes[j]])
		}
		return nodes[i] < nodes[j]
	})
	type grp struct {
		node  string
		label string
		edges []int
	}
	var all []grp
	for _, n := range nodes {
		by := map[string][]int{}
		var labels []string
		for _, ei := range g.Out[n] {
			l := g.Edges[ei].Label
			if _, ok := by[l]; !ok {
				labels = append(labels, l)
			}
			by[l] = append(by[l], ei)
		}
		sort.Strings(labels)
		for _, l := range labels {
			all = append(all, grp{n, l, by[l]})
		}
	}
	if o.MaxGroups > 0 && len(all) > o.MaxGroups {
		c.Rand.Shuffle(len(all), func(i, j int) { all[i], all[j] = all[j], all[i] })
		all = all[:o.MaxGroups]
	}
	for _, gr := range all {
		pathLabels := make([]string, 0, len(paths[gr.node])+1)
		for _, ei := range paths[gr.node] {
			pathLabels = append(pathLabels, g.Edges[ei].Label)
		}
		full := append(append([]string{}, pathLabels...), gr.label)
		initNode := gr.node
		if len(paths[gr.node]) > 0 {
			initNode = g.Edges[paths[gr.node][0]].From
		}
		key := o.SigPrefix + initTag(g, initNode) + strings.Join(full, ";")
		if !c.Want(o.SigPrefix) && !c.Want(key) {
			continue
		}
		if o.Skip != nil && o.Skip(g.States[initNode]) {
			continue
		}
		var m Machine
		if o.NewFor != nil {
			in := gr.node
			if len(paths[gr.node]) > 0 {
				in = g.Edges[paths[gr.node][0]].From
			}
			m = o.NewFor(g.States[in])
		} else {
			m = o.New()
		}
		var err error
		for _, ei := range paths[gr.node] {
			e := g.Edges[ei]
			if err = m.Apply(e.Action, e.Args); err != nil {
				break
			}
		}
		if err != nil {
			c.Inconclusive("replay %s: driver error on path: %v", key, err)
			continue
		}
		if got, want := m.Project(), o.Abstract(g.States[gr.node]); got != want {
			// the divergence happened on an earlier edge and is reported there
			c.Eval("")
			continue
		}
		e0 := g.Edges[gr.edges[0]]
		if err := m.Apply(e0.Action, e0.Args); err != nil {
			c.Inconclusive("replay %s: driver error: %v", key, err)
			continue
		}
		got := m.Project()
		ok := false
		var wants []string
		for _, ei := range gr.edges {
			w := o.Abstract(g.States[g.Edges[ei].To])
			wants = append(wants, w)
			if w == got {
				ok = true
			}
		}
		nt := ""
		if o.NonTrivial != nil {
			nt = o.NonTrivial(g.States[gr.node], e0, g.States[e0.To])
		}
		c.Eval(nt)
		groups++
		if groups%997 == 1 {
			c.Sample(map[string]interface{}{"actions": full, "impl_state": got})
		}
		if !ok {
			sig := key
			if o.Classify != nil {
				if s := o.Classify(m, got, wants); s != "" {
					sig = s
				}
			}
			det := ""
			if d, ok := m.(Detailer); ok {
				det = " [" + d.Detail() + "]"
			}
			c.Violation(sig, fmt.Sprintf("scenario %s: from %s after %v the implementation is in %s but the specification allows only %v%s", clip(key, 300), clip(fmtState(g.States[initNode]), 400), full, got, wants, clip(det, 600)),
				map[string]interface{}{"key": key, "init": fmtState(g.States[initNode]), "actions": full, "got": got, "want": wants})
		}
	}
	c.Trace(groups)
	return groups
}

// ReplayPaths executes whole behaviours of the graph on fresh implementations:
// every label sequence of length <= depth when their number is at most maxPaths,
// otherwise maxPaths random ones. After every step the implementation's projection
// must equal a specification successor. Unlike ReplayGraph, which reaches every
// abstract state along one shortest path, this exposes implementation state that
// the abstraction does not distinguish (two histories leading to the same abstract
// state but to different concrete ones).
func ReplayPaths(c *Ctx, g *Graph, o ReplayOpts, depth, maxPaths int) (paths int) {
	if !c.Want(o.SigPrefix) && c.Filter != "" && !stringsHasPrefix(c.Filter, o.SigPrefix) {
		return 0
	}
	// successors by label
	type succ struct {
		labels []string
		by     map[string][]int
	}
	cache := map[string]*succ{}
	var cmu sync.Mutex
	get := func(n string) *succ {
		cmu.Lock()
		defer cmu.Unlock()
		if s, ok := cache[n]; ok {
			return s
		}
		s := &succ{by: map[string][]int{}}
		for _, ei := range g.Out[n] {
			l := g.Edges[ei].Label
			if _, ok := s.by[l]; !ok {
				s.labels = append(s.labels, l)
			}
			s.by[l] = append(s.by[l], ei)
		}
		sort.Strings(s.labels)
		cache[n] = s
		return s
	}
	run := func(init string, seq []int) { // seq: edge indices (first edge of each chosen label group along one spec path)
		var m Machine
		if o.NewFor != nil {
			m = o.NewFor(g.States[init])
		} else {
			m = o.New()
		}
		cur := map[string]bool{init: true}
		var labels []string
		for _, ei := range seq {
			e := g.Edges[ei]
			labels = append(labels, e.Label)
			if err := m.Apply(e.Action, e.Args); err != nil {
				c.Inconclusive("replay %s%s: driver error: %v", o.SigPrefix, strings.Join(labels, ";"), err)
				return
			}
			got := m.Project()
			next := map[string]bool{}
			var wants []string
			for n := range cur {
				for _, ej := range get(n).by[e.Label] {
					t := g.Edges[ej].To
					w := o.Abstract(g.States[t])
					wants = append(wants, w)
					if w == got {
						next[t] = true
					}
				}
			}
			if len(wants) == 0 {
				// the label is not enabled in the specification state the implementation
				// actually reached (the path was drawn along another nondeterministic branch)
				break
			}
			if len(next) == 0 {
				key := o.SigPrefix + initTag(g, init) + strings.Join(labels, ";")
				if o.Classify != nil {
					if s := o.Classify(m, got, wants); s != "" {
						key = s
					}
				}
				if d, ok := m.(Detailer); ok {
					got += " [" + clip(d.Detail(), 400) + "]"
				}
				c.Violation(key, fmt.Sprintf("from initial state "+clip(fmtState(g.States[init]), 300)+" after %v the implementation is in %s but the specification allows only %v", labels, got, wants),
					map[string]interface{}{"actions": labels, "got": got, "want": wants})
				return
			}
			cur = next
		}
		cmu.Lock()
		paths++
		np := paths
		cmu.Unlock()
		nt := ""
		if o.NonTrivial != nil && len(seq) > 0 {
			e := g.Edges[seq[len(seq)-1]]
			if k := o.NonTrivial(g.States[e.From], e, g.States[e.To]); k != "" {
				nt = "path:" + strings.Join(labels, ";")
			}
		}
		c.Eval(nt)
		if np%4999 == 1 {
			c.Sample(map[string]interface{}{"behaviour": labels})
		}
	}
	type job struct {
		init string
		seq  []int
	}
	var jobs []job
	flush := func() {
		par := o.Parallel
		if par < 1 {
			par = 1
		}
		if par == 1 {
			for _, j := range jobs {
				run(j.init, j.seq)
			}
		} else {
			sem := make(chan struct{}, par)
			var wg sync.WaitGroup
			for _, j := range jobs {
				wg.Add(1)
				sem <- struct{}{}
				go func(j job) {
					defer wg.Done()
					defer func() { <-sem }()
					run(j.init, j.seq)
				}(j)
			}
			wg.Wait()
		}
		jobs = nil
	}
	// count paths of length exactly <= depth by DP over (node, remaining)
	type key struct {
		n string
		d int
	}
	memo := map[key]float64{}
	var count func(n string, d int) float64
	count = func(n string, d int) float64 {
		s := get(n)
		if d == 0 || len(s.labels) == 0 {
			return 1
		}
		k := key{n, d}
		if v, ok := memo[k]; ok {
			return v
		}
		t := 0.0
		for _, l := range s.labels {
			t += count(g.Edges[s.by[l][0]].To, d-1)
		}
		memo[k] = t
		return t
	}
	total := 0.0
	for _, n := range g.Init {
		total += count(n, depth)
	}
	if c.Filter != "" && stringsHasPrefix(c.Filter, o.SigPrefix) {
		// replay of one recorded behaviour
		rest := strings.TrimPrefix(c.Filter, o.SigPrefix)
		n := g.Init[0]
		if i := strings.Index(rest, "|"); i >= 0 {
			for _, in := range g.Init {
				if initTag(g, in) == rest[:i+1] {
					n = in
				}
			}
			rest = rest[i+1:]
		}
		init := n
		want := strings.Split(rest, ";")
		var seq []int
		for _, l := range want {
			es := get(n).by[l]
			if len(es) == 0 {
				c.Inconclusive("replay: label %q not enabled", l)
				return 0
			}
			seq = append(seq, es[0])
			n = g.Edges[es[0]].To
		}
		run(init, seq)
		c.Trace(paths)
		return paths
	}
	if total <= float64(maxPaths) {
		var dfs func(init, n string, d int, seq []int)
		dfs = func(init, n string, d int, seq []int) {
			s := get(n)
			if d == 0 || len(s.labels) == 0 {
				jobs = append(jobs, job{init, append([]int{}, seq...)})
				return
			}
			for _, l := range s.labels {
				ei := s.by[l][0]
				dfs(init, g.Edges[ei].To, d-1, append(seq, ei))
			}
		}
		for _, n := range g.Init {
			dfs(n, n, depth, nil)
		}
		flush()
		c.Extra(o.SigPrefix+"behaviours_exhaustive_to_depth", depth)
	} else {
		for i := 0; i < maxPaths; i++ {
			n := g.Init[c.Rand.Intn(len(g.Init))]
			init := n
			var seq []int
			for d := 0; d < depth; d++ {
				s := get(n)
				if len(s.labels) == 0 {
					break
				}
				ei := s.by[s.labels[c.Rand.Intn(len(s.labels))]][0]
				seq = append(seq, ei)
				n = g.Edges[ei].To
			}
			jobs = append(jobs, job{init, seq})
		}
		flush()
		c.Extra(o.SigPrefix+"behaviours_sampled", maxPaths)
	}
	c.Trace(paths)
	return paths
}

func stringsHasPrefix(s, p string) bool { return strings.HasPrefix(s, p) }

// initTag identifies an initial state in violation signatures when there are several.
func initTag(g *Graph, init string) string {
	if len(g.Init) <= 1 {
		return ""
	}
	h := sha1.Sum([]byte(fmtState(g.States[init])))
	return "i" + hex.EncodeToString(h[:4]) + "|"
}

func fmtState(s State) string {
	keys := make([]string, 0, len(s))
	for k := range s {
		keys = append(keys, k)
	}
	sort.Strings(keys)
	parts := make([]string, len(keys))
	for i, k := range keys {
		parts[i] = k + "=" + s[k].String()
	}
	return strings.Join(parts, ",")
}

func clip(s string, n int) string {
	if len(s) > n {
		return s[:n] + "..."
	}
	return s
}
