package core

import (
	"bytes"
	"context"
	"fmt"
	"io"
	"os"
	"os/exec"
	"path/filepath"
	"regexp"
	"strconv"
	"strings"
	"time"
)

// TLCOpts describes one TLC invocation.
type TLCOpts struct {
	Module   string            // module name without .tla (must be in SpecDir or Work)
	Cfg      string            // config file name (relative to spec dir)
	Workers  int               // 0 = 8
	Timeout  time.Duration     // 0 = 5 min
	Args     []string          // extra args (-dump ..., -simulate ...)
	Env      map[string]string // extra env (TRACE=...)
	DFS      bool              // use StateDeque (depth-first) queue
	Deadlock bool              // check deadlock (default: off, -deadlock passed)
	Heap     string            // e.g. "8g"
}

// TLCResult is what was parsed out of a TLC run.
type TLCResult struct {
	Out        string
	ExitCode   int
	Generated  int64
	Distinct   int64
	Depth      int
	Violated   string // invariant/property name reported violated ("" if none)
	Deadlocked bool
	TimedOut   bool
	Wall       time.Duration
	Prints     []string // lines printed by Print/PrintT in the spec
}

var (
	statRe  = regexp.MustCompile(`(\d+) states generated, (\d+) distinct states found`)
	depthRe = regexp.MustCompile(`The depth of the complete state graph search is (\d+)`)
	invRe   = regexp.MustCompile(`Invariant (\S+) is violated`)
	propRe  = regexp.MustCompile(`(?:Temporal properties were violated|Temporal property (\S+) was violated|Action property (\S+) is violated|property (\S+) is violated)`)
)

const tlaJars = "/opt/veriftools/tla/tla2tools.jar:/opt/veriftools/tla/CommunityModules-deps.jar"

// RunTLC runs TLC in dir (which must already contain the module and cfg).
func RunTLC(dir string, o TLCOpts) (*TLCResult, error) {
	if o.Workers == 0 {
		o.Workers = 8
	}
	if o.Timeout == 0 {
		o.Timeout = 5 * time.Minute
	}
	meta, err := os.MkdirTemp(dir, "meta-")
	if err != nil {
		return nil, err
	}
	defer os.RemoveAll(meta)
	jargs := []string{"-XX:+UseParallelGC", "-Xss64m"}
	if o.Heap != "" {
		jargs = append(jargs, "-Xmx"+o.Heap)
	}
	if o.DFS {
		jargs = append(jargs, "-Dtlc2.tool.queue.IStateQueue=StateDeque")
	}
	jargs = append(jargs, "-cp", tlaJars, "tlc2.TLC", "-metadir", meta, "-workers", strconv.Itoa(o.Workers), "-noGenerateSpecTE")
	if !o.Deadlock {
		jargs = append(jargs, "-deadlock")
	}
	if o.Cfg != "" {
		jargs = append(jargs, "-config", o.Cfg)
	}
	jargs = append(jargs, o.Args...)
	jargs = append(jargs, o.Module)
	ctx, cancel := context.WithTimeout(context.Background(), o.Timeout)
	defer cancel()
	cmd := exec.CommandContext(ctx, "java", jargs...)
	cmd.Dir = dir
	cmd.Env = os.Environ()
	for k, v := range o.Env {
		cmd.Env = append(cmd.Env, k+"="+v)
	}
	var buf bytes.Buffer
	cmd.Stdout = &buf
	cmd.Stderr = &buf
	start := time.Now()
	runErr := cmd.Run()
	res := &TLCResult{Out: buf.String(), Wall: time.Since(start)}
	if ctx.Err() != nil {
		res.TimedOut = true
	}
	if cmd.ProcessState != nil {
		res.ExitCode = cmd.ProcessState.ExitCode()
	} else if runErr != nil {
		return res, runErr
	}
	if ms := statRe.FindAllStringSubmatch(res.Out, -1); len(ms) > 0 {
		m := ms[len(ms)-1]
		res.Generated, _ = strconv.ParseInt(m[1], 10, 64)
		res.Distinct, _ = strconv.ParseInt(m[2], 10, 64)
	}
	if m := depthRe.FindStringSubmatch(res.Out); m != nil {
		res.Depth, _ = strconv.Atoi(m[1])
	}
	if m := invRe.FindStringSubmatch(res.Out); m != nil {
		res.Violated = m[1]
	} else if m := propRe.FindStringSubmatch(res.Out); m != nil {
		res.Violated = m[1] + m[2] + m[3]
		if res.Violated == "" {
			res.Violated = "temporal"
		}
	}
	if strings.Contains(res.Out, "Deadlock reached") {
		res.Deadlocked = true
	}
	for _, l := range strings.Split(res.Out, "\n") {
		if strings.HasPrefix(l, "PRINT ") || strings.HasPrefix(l, "\"PRINT ") {
			res.Prints = append(res.Prints, strings.Trim(l, "\""))
		}
	}
	return res, nil
}

// OK reports whether TLC finished the exploration without error or violation.
func (r *TLCResult) OK() bool {
	return r.ExitCode == 0 && !r.TimedOut && r.Violated == "" && !r.Deadlocked
}

// Infra reports whether the run failed for a reason that is neither success nor a
// property violation (parse error, JVM failure, timeout).
func (r *TLCResult) Infra() bool {
	if r.TimedOut {
		return true
	}
	switch r.ExitCode {
	case 0, 10, 11, 12, 13:
		return false
	}
	return true
}

// Tail returns the last n lines of the output for diagnostics.
func (r *TLCResult) Tail(n int) string {
	ls := strings.Split(strings.TrimRight(r.Out, "\n"), "\n")
	if len(ls) > n {
		ls = ls[len(ls)-n:]
	}
	return strings.Join(ls, "\n")
}

// CopySpecs copies all .tla and .cfg files of the specs directory into dst.
func CopySpecs(specDir, dst string) error {
	ents, err := os.ReadDir(specDir)
	if err != nil {
		return err
	}
	for _, e := range ents {
		if e.IsDir() {
			continue
		}
		n := e.Name()
		if !(strings.HasSuffix(n, ".tla") || strings.HasSuffix(n, ".cfg")) {
			continue
		}
		if err := copyFile(filepath.Join(specDir, n), filepath.Join(dst, n)); err != nil {
			return err
		}
	}
	return nil
}

func copyFile(src, dst string) error {
	in, err := os.Open(src)
	if err != nil {
		return err
	}
	defer in.Close()
	out, err := os.Create(dst)
	if err != nil {
		return err
	}
	if _, err := io.Copy(out, in); err != nil {
		out.Close()
		return err
	}
	return out.Close()
}

// MustOK is a helper turning an unexpected TLC outcome into an error.
func (r *TLCResult) MustOK(what string) error {
	if r.OK() {
		return nil
	}
	return fmt.Errorf("%s: TLC exit=%d violated=%q timeout=%v\n%s", what, r.ExitCode, r.Violated, r.TimedOut, r.Tail(40))
}
